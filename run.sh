#!/bin/bash
# usage: ./run.sh <Cxx> quick|thorough      — rebuild against /repo's working tree, run one check
#        ./run.sh <Cxx> replay <file>       — re-run one recorded case
#        ./run.sh setup                     — pre-warm build caches
# VERIF_REPO / VERIF_OUT (tooling only, see tools/seed_run.sh) redirect the tree under test and the output directory.
set -u
cd "$(dirname "$0")"
export GOFLAGS=-mod=mod GOPROXY=off GOSUMDB=off GOTOOLCHAIN=local
REPO="${VERIF_REPO:-/repo}"
OUT="${VERIF_OUT:-/verif}"
mkdir -p "$OUT/bin" "$OUT/.work" "$OUT/evidence" "$OUT/replays"
MODFLAG=""
if [ "$REPO" != "/repo" ]; then
  sed "s#=> /repo#=> $REPO#" go.mod > "$OUT/.work/alt.mod"
  cp -f "$REPO/go.sum" "$OUT/.work/alt.sum"
  MODFLAG="-modfile=$OUT/.work/alt.mod"
else
  cp -f /repo/go.sum go.sum 2>/dev/null
fi
build() {
  go build $MODFLAG -tags verif -o "$OUT/bin/verif" ./cmd/verif || { echo "ENGINE-ERROR: build failed"; exit 2; }
}
build_c10() {
  # C10 needs two more binaries, both rebuilt from the tree under test:
  #  - the op bodies under the race detector (free-running),
  #  - the map-iteration-order explorer, built with -overlay against rewritten copies of geom's sources.
  go build $MODFLAG -race -tags verif -o "$OUT/bin/verifrace" ./cmd/verifrace || { echo "ENGINE-ERROR: race build failed"; exit 2; }
  go build $MODFLAG -o "$OUT/bin/envxgen" ./cmd/envxgen || { echo "ENGINE-ERROR: envxgen build failed"; exit 2; }
  rm -rf "$OUT/.work/envx" && mkdir -p "$OUT/.work/envx"
  (cd "$REPO" && VERIF_REPO="$REPO" "$OUT/bin/envxgen" "$OUT/.work/envx" /verif/envx/runtime.go.src) || exit 2
  go build $MODFLAG -overlay "$OUT/.work/envx/overlay.json" -tags "verif envx" -o "$OUT/bin/verifenvx" ./cmd/verifenvx || { echo "ENGINE-ERROR: explorer build failed"; exit 2; }
}
if [ "${1:-}" = "setup" ]; then
  build
  build_c10   # pre-warms the race and overlay build caches
  exec "$OUT/bin/verif" setup
fi
build
if [ "${1:-}" = "C10" ] && [ "${2:-quick}" != "replay" ]; then
  build_c10
fi
exec "$OUT/bin/verif" "$@"

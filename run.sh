#!/bin/bash
# usage: ./run.sh <Cxx> quick|thorough      — rebuild against /repo's working tree, run one check
#        ./run.sh <Cxx> replay <file>       — re-run one recorded case
#        ./run.sh setup                     — pre-warm build caches
set -u
cd "$(dirname "$0")"
export GOFLAGS=-mod=mod GOPROXY=off GOSUMDB=off GOTOOLCHAIN=local
mkdir -p bin .work evidence replays
cp -f /repo/go.sum go.sum 2>/dev/null
build() {
  go build -tags verif -o bin/verif ./cmd/verif || { echo "ENGINE-ERROR: build failed"; exit 2; }
}
if [ "${1:-}" = "setup" ]; then
  build
  # pre-warm the race and overlay build caches
  go build -race -tags verif -o bin/verifrace ./cmd/verifrace
  go build -o bin/envxgen ./cmd/envxgen && rm -rf .work/envx && mkdir -p .work/envx && (cd /repo && /verif/bin/envxgen /verif/.work/envx /verif/envx/runtime.go.src) && go build -overlay .work/envx/overlay.json -tags "verif envx" -o bin/verifenvx ./cmd/verifenvx
  exec bin/verif setup
fi
build
if [ "${1:-}" = "C10" ] && [ "${2:-quick}" != "replay" ]; then
  # C10 needs two more binaries, both rebuilt from /repo's working tree:
  #  - the op bodies under the race detector (free-running),
  #  - the map-iteration-order explorer, built with -overlay against rewritten copies of geom's sources.
  go build -race -tags verif -o bin/verifrace ./cmd/verifrace || { echo "ENGINE-ERROR: race build failed"; exit 2; }
  go build -o bin/envxgen ./cmd/envxgen || { echo "ENGINE-ERROR: envxgen build failed"; exit 2; }
  rm -rf .work/envx && mkdir -p .work/envx
  (cd /repo && /verif/bin/envxgen /verif/.work/envx /verif/envx/runtime.go.src) || exit 2
  go build -overlay .work/envx/overlay.json -tags "verif envx" -o bin/verifenvx ./cmd/verifenvx || { echo "ENGINE-ERROR: explorer build failed"; exit 2; }
fi
exec bin/verif "$@"

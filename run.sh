#!/bin/bash
# usage: ./run.sh <Cxx> quick|thorough      — rebuild against /repo's working tree, run one check
#        ./run.sh <Cxx> replay <file>       — re-run one recorded case
#        ./run.sh setup                     — pre-warm build caches
set -u
cd "$(dirname "$0")"
export GOFLAGS=-mod=mod GOPROXY=off GOSUMDB=off GOTOOLCHAIN=local
mkdir -p bin .work evidence replays
cp -f /repo/go.sum go.sum 2>/dev/null
build() {
  go build -tags verif -o bin/verif ./cmd/verif || { echo "ENGINE-ERROR: build failed"; exit 2; }
}
if [ "${1:-}" = "setup" ]; then
  build
  exec bin/verif setup
fi
build
exec bin/verif "$@"

#!/usr/bin/env python3
"""Regenerates /verif/MANIFEST.json from the table below (kept in one place so the
manifest is always schema-valid)."""
import json, subprocess

CLAIMED = {
 # id: (category, text, note, technique, design_ref)
 "C12": ("model_checking",
   "Exhaustive enumeration of the envelope lattice (all singles, ordered pairs and triples over {0..3}^2 plus the empty envelope, every XY argument class) against an interval-arithmetic reference model, and of geometry envelopes over every structural shape S(d,w) x 4 coordinate types x suppliers, every simple 3x3 lattice polygon/path under 6 affine maps, and Union envelopes over all operand pairs; every method named in the property is compared on every case. NewEnvelope over every sequence of 0..4 (thorough 0..5) points of the 3x3 lattice against min/max and against the fold of ExpandToIncludeXY.",
   "Reference model: 60 lines of interval arithmetic in checks/c12.go; coordinates outside the enumerated alphabets (lattice, float classes) are not covered.",
   "bounded-exhaustive input enumeration of the real code against an interval-arithmetic reference model", "4/C12"),
 "C11": ("model_checking",
   "Exhaustive enumeration of bulk-loaded trees (every multiset of <=2 (thorough <=3) lattice boxes; 14 layout families at every size 0..40 and at fan-out boundary sizes up to 5000), of query boxes (lattice over the extent, enclosing, far, own box, edge/corner touching, degenerate) and of callback histories (continue^j then Stop / wrapped Stop / error / wrapped error for every j), each search on the real tree compared with a linear-scan reference; structural invariants via the verif hook.",
   "Reference: linear scan + closed-interval overlap and box distance in float64 (same closed forms as the property states). Visit lists longer than 12 on trees > 40 items use 15 fixed stop positions instead of all.",
   "bounded-exhaustive enumeration of trees x queries x callback histories on the real code against a linear-scan model", "4/C11"),
 "C03": ("model_checking",
   "Exhaustive enumeration of unvalidated lattice geometries (every LineString vertex sequence up to length 4/5 on 3x3, every closed vertex sequence as a ring on 3x3 and 4x4, every shell x every simple hole and hole pairs incl. room for nesting, 4..6-hole polygons from a conflict pool under every hole order, every pair of simple 3x3 polygons as MultiPolygon, NaN/Inf at every ordinate position) with Validate / IsSimple / IsClosed / IsRing / all four decoders compared against a definitional oracle (exact rational arithmetic; interior connectivity = number of interior faces of the exact arrangement), and verdict constancy over the representation orbit (every ring start and direction, hole/member order, translations, reflections).",
   "Trust: oracle/valid.go + exact/ (independent of the library's algorithms; arrangement self-checked by Euler relation and area balance). Rings with more than 7 vertices and more than 6 interacting holes are outside the bound.",
   "bounded-exhaustive input enumeration on the real code against a definitional exact-arithmetic oracle", "4/C03"),
 "C02": ("model_checking",
   "Every ordered pair of a lattice operand alphabet (3x3: points, segments, paths, all simple polygons, Multi*, collections with pairwise-disjoint members, empties of every type; 6x6 holes family; star family of MultiLineStrings in every member order; exact affine images) is run through Relate in both orders and through all nine named predicates plus Intersects, and compared with the DE-9IM read off an exact joint arrangement (rational arithmetic, cells located by the OGC definitions); RelateMatches is checked against its definition on all 4^9 matrices.",
   "Trust: exact/ + oracle/pair.go (independent of the library's DCEL). Operands above ~9 vertices per member and coordinates outside the listed affine images are outside the bound; general-position float images are covered in C01/C09's float strides only.",
   "bounded-exhaustive input enumeration on the real code against an exact-arithmetic DE-9IM oracle", "4/C02"),
 "C01": ("model_checking",
   "Every pair of a lattice operand alphabet of all seven types (3x3 alphabet incl. collections with overlapping members and empties; 6x6 holes family; UnionMany over every triple of a reduced alphabet; exact affine images; general-position float images kept only when the exact arrangement clearance is >= 2e-6 x magnitude) is run through Union, Intersection, Difference, SymmetricDifference in both operand orders, UnaryUnion and UnionMany, and each result is compared with the closure of the Boolean combination computed on the exact joint arrangement: membership of every face / edge / vertex cell, area, lineal length, isolated point count, validity and canonical shape, plus inclusion-exclusion and partition laws on the library's own areas.",
   "Trust: exact/ + oracle/pair.go. Edge and vertex cells are compared with tolerance 1e-9 x magnitude (the library rounds crossing points); face probes exactly. Members above ~9 vertices and sub-tolerance near-degenerate inputs are outside the bound (the latter by the property).",
   "bounded-exhaustive input enumeration on the real code against an exact-arithmetic arrangement oracle", "4/C01"),
 "C09": ("model_checking",
   "Every pair of the lattice operand alphabet over all 28 type pairs (incl. collections with overlapping members, empties, holes family, many-part geometries under 32 translations so the internal R-tree has several levels, exact and general-position affine images) is run through Intersects (both orders), Disjoint, Intersection emptiness and Distance (both orders) and compared with exact rational geometry: intersection from the exact joint arrangement, distance as the square root of the exact minimum squared feature distance, envelope lower bound, symmetry, and the triangle-like inequality on every triple of a reduced alphabet. The holes family includes MultiPolygons whose holed member is first, last or in the middle with the hole unoccupied, so that what lies strictly inside a hole is nearest to the hole ring.",
   "Trust: exact/ + oracle/pair.go + checks/c09.go:exactDist2. Distance tolerance 1e-14 x max(magnitude, distance). General-position images are kept only when the exact arrangement clearance is >= 2e-6 x magnitude.",
   "bounded-exhaustive input enumeration on the real code against exact rational geometry", "4/C09"),
 "C04": ("model_checking",
   "Every structural shape S(d,w) (7 types, empty members at every position, nesting to depth 2 quick / 4 thorough) x 4 coordinate types x float-class ordinates at every alphabet rotation x per-element byte-order vectors (all 2^e up to 8 elements, else <=2 deviations) x trailing bytes: AsBinary/AppendWKB compared byte for byte with an independent WKB writer, UnmarshalWKB of the reference bytes compared with the original by a structural walker on float bits, re-encoding compared, input buffer checked for mutation and aliasing; Value/Scan of all concrete types, Geometry and NullGeometry for every source type and every wrong destination type.",
   "Trust: refcodec/wkb.go (encoding/binary only) and refcodec/node.go (accessor walker). Big-endian hosts cannot be exercised on this box; XY ordinates are finite by the property's domain.",
   "bounded-exhaustive enumeration of shapes x configurations on the real code against an independent reference codec", "4/C04"),
 "C05": ("model_checking",
   "Every structural shape S(d,w) x 4 coordinate types x finite float classes at every rotation, plus the zero value of all 8 Go types: the AsText token stream is compared with one derived from the OGC BNF by an independent printer, AppendWKT with prefix+AsText, UnmarshalWKT(AsText) with the original by the structural walker on float bits and with the WKB decode, trailing tokens must be rejected, and every re-spelling inside a deviation bound is parsed back: each token boundary x each separator (pairs in thorough), global separator policies, keyword case, bare MultiPoint members, exponent-form and zero-padded numerals.",
   "Trust: refcodec/wkt.go (printer + lexer) and strconv's shortest formatting. Non-ASCII whitespace and case-insensitivity of Z/M/EMPTY are not claimed by the property and not explored.",
   "bounded-exhaustive enumeration of shapes x token-level re-spellings (deviation-bounded) on the real code against an independent reference printer", "4/C05"),
 "C06": ("model_checking",
   "Valid geometries: every structural shape S(d,w) x 4 coordinate types x finite float classes (polygons as cell squares under 8 float frames): MarshalJSON output is parsed by encoding/json, walked against the RFC 7946 schema, its numbers compared bit for bit with the XY(Z) ordinates, and the decode compared with a loss model (M dropped, empty Points omitted from MultiPoints, Z dropped only without positions); decoding into each of the 7 concrete types succeeds iff the type matches. Documents: every assignment of position lengths 0..5 to the positions of 6 type templates, member order, collection siblings deciding the document-wide dimension, 10 structural deviations, nulls. Features: ids x properties x foreign members x geometries and FeatureCollections of 0..2, malformed variants rejected. Every document of the grammar is also decoded through Geometry.UnmarshalJSON and through each concrete type's UnmarshalJSON (same verdict and value for the matching type, refusal otherwise), including well-formed documents whose geometry is invalid; feature members take every JSON value class.",
   "Trust: encoding/json, refcodec/node.go, the loss model geojsonExpect in checks/c06.go. Foreign members named like reserved members (type, geometry, id, properties) are not foreign members and are excluded; non-finite ordinates are outside JSON.",
   "bounded-exhaustive enumeration of shapes and of grammar-derived documents on the real code against a reference loss model", "4/C06"),
 "C07": ("model_checking",
   "Valid geometries: every structural shape S(d,w) x 4 coordinate types x 9 ordinate frames (k/10^q on grids, on rounding ties, in between, negative, large) x XY precisions (incl. out-of-range -9 and 8) x Z/M precision pairs (incl. out-of-range) x every subset of {size, bbox, close rings} x ID lists (exact, one too many, one too few, on types without members): UnmarshalTWKB(MarshalTWKB(...)) compared with the original under exact rational rounding (each ordinate must be the float nearest to m/10^p with |m - x*10^p| <= 1/2), tolerated losses predicted exactly; size / bbox / ID headers read by an independent varint-level reader and compared with the decoded geometry and with UnmarshalTWKBSize / Envelope / IDList. Varint boundaries: every scaled delta in -300..300 (thorough -20000..20000) and within 2 of +-2^6, 2^13, 2^20, 2^27, 2^34, 2^41 as first value, step up and step down in X, Y, Z and M of Point/LineString/Polygon/MultiPoint/collection.",
   "Trust: refcodec/twkb.go (independent reader), math/big rationals. Cases where rounding makes the geometry invalid are outside 'admissible precisions' and only counted; |x*10^p| >= 2^50 is outside the domain.",
   "bounded-exhaustive enumeration of shapes x configurations on the real code against exact rational rounding and an independent reference reader", "4/C07"),
 "C08": ("fault_enumeration",
   "A corpus of valid encodings (WKB little/big endian, TWKB with header subsets and ID lists, WKT, GeoJSON, Feature, FeatureCollection of ~90 geometries over 7 types x 4 coordinate types x empty/1/2 members/nested) is put through every fault operator the property lists - every truncation, every single-byte substitution (all 256 values at order/type/count/header positions, boundary values elsewhere), every 4-byte count overwritten with 0, 1, 2^31-1, 2^31, 2^32-1 (and 2^24, 2^16, 1000) in both byte orders, varints 2^k / 2^64-1 / over-long spliced at every position, every token deleted / duplicated / replaced by each vocabulary token, every prefix - plus grammar-generated GeoJSON collections and every byte string of length <= 2 and every string of length 3..6 (thorough 8) over {00,01,02,07,10,ff}. Each case runs in a sacrificial process (RLIMIT_AS 4 GiB) through every entry point of its format: the four Unmarshal functions, the three TWKB header readers, Scan on 9 types, UnmarshalJSON on 10. Oracle: no panic, no process death, bytes allocated by the library call <= 1 MiB + 512 x len(input), returned geometries pass Validate (and the definitional oracle inside C03's domain) and re-encode in every format without panicking. GeoJSON coordinates that are any nesting of [] and null (depth 3, thorough 4; width 2) for every type, alone, in a collection and next to a member with a position.",
   "Coverage-guided mutation named in the quantifier is sampling (a different family) and is not done; inputs are at most ~2 KiB, length matters only through count fields, which are overwritten with every boundary value. Trust: the supervisor/worker harness in checks/c08.go.",
   "exhaustive enumeration of fault operators over a corpus, each case executed on the real decoders in a sacrificial process", "4/C08"),
 "C13": ("model_checking",
   "Every non-empty subset of the 3x3 lattice and of the 4x4 lattice (quick: up to 9 points; thorough: all 65 535) as MultiPoints, every distinct permutation of every small subset with up to two duplicated members, 25 structured families of 6..200 points under every rotation and reversal of the order, and every other carrier type (all simple 3x3 polygons, paths, collections and multis with empty members): ConvexHull compared with an independent exact gift-wrapping hull (vertex set, strict convexity, covering, idempotence, order/multiplicity independence, Point/LineString degeneracies); both rotated rectangles checked for right angles, covering, a side on a hull edge and minimality against exact brute force over hull edges; general-position float images for the covering claims.",
   "Trust: checks/c13.go:refHull (int64 gift wrapping) and exact rationals for the rectangle minima. Rectangle comparisons use tolerance 1e-9 x magnitude.",
   "bounded-exhaustive enumeration of point sets and orders on the real code against an independent exact hull", "4/C13"),
 "C14": ("model_checking",
   "Every valid geometry of a lattice universe (the full 3x3 operand alphabet incl. all 975 simple polygons, polygons with 1..3 holes on 6x6 under every shell/hole start and direction, every <=4-vertex line with repeated points, Multi* with empty members, mixed-dimension and nested collections under every member rotation, the holes family) and its exact and general-position affine images: Area, SignedArea, Length and Centroid are compared with exact rational shoelace areas and first moments and 200-bit square-root sums (tolerance 1e-9 relative to the magnitude, squared for area), and 20 relations are checked on each (Reverse negates signed area, ForceCW/CCW, Z/M, member order, additivity over members, translation invariance/equivariance, WithTransform = TransformXY for 5 maps). Every ordered collection of 1..3 members drawn from a 19-member pool (plain, empty, Multi* with EMPTY members at the front/middle/back, nested collections in every dimension); thorough: all 381 539 simple polygons of <=8 vertices on 4x4 and all 152 422 of <=5 vertices on 5x5, the <=5-vertex ones also as the hole of a frame.",
   "Trust: checks/c14.go:exactMeasures on exact/ rationals and math/big floats.",
   "bounded-exhaustive input enumeration on the real code against exact rational measures", "4/C14"),
 "C15": ("model_checking",
   "Every valid geometry of a lattice universe (full 3x3 operand alphabet, holes family, star family of MultiLineStrings sharing end points 2/3/4 ways in every member order, every simple <=7-gon of 3x3 under 8 anisotropic scalings, combs with 2..4 teeth and polygons with 2..3 holes in a row for every combination of tooth/notch/hole/gap widths in {1,2,3} and 4 orientations, closed / self-touching / self-crossing lines, collections with empty members) and affine images: Boundary() is compared cell by cell (every vertex, edge and face of the exact arrangement) with the DE-9IM boundary, and checked for dimension, emptiness of its own boundary, polygon type rule and the collection rule; PointOnSurface is located exactly (strictly interior of an areal member, on the highest-dimension part otherwise, empty iff empty, XY); Dimension/IsEmpty against the structure. Thorough: all 381 539 simple polygons of <=8 vertices on 4x4 and all 152 422 of <=5 vertices on 5x5 under index-dependent stretches, the <=5-vertex ones also as the hole of a frame.",
   "Trust: exact/ Locate and arrangement. Boundary keeping Z/M is not claimed by the property and not checked (the library documents Force2D there).",
   "bounded-exhaustive input enumeration on the real code against the exact interior/boundary model", "4/C15"),
 "C16": ("model_checking",
   "Every structural shape S(d,w) x 4 coordinate types (valid cell-lattice instantiation with every vertex tagged Z=1000+i, M=2000+i so a misplaced payload is visible) and every collection built from 1..3 members constructed with every assignment of the 4 coordinate types: a structural walker asserts one coordinate type on the root and on every member / ring / point / sequence reachable through every accessor; constructors yield the common subset; ForceCoordinatesType x4 and Force2D are compared with a reference (dropped gone, added zero, XY bit-identical, also on empties); Reverse, ForceCW/CCW, SnapToGrid, TransformXY, Densify, Dump, DumpCoordinates, DumpRings, Coordinates, AsMulti*, WKB/WKT keep the type and carry each vertex's Z/M with its XY; Centroid, ConvexHull, PointOnSurface, Envelope, rotated rectangle and the set operations return XY. ForceCoordinatesType applied twice for every pair of target types (a dropped dimension comes back as zeros).",
   "Trust: refcodec/node.go walker and forceNode in checks/c16.go. The operation list is explicit (the one in the property), not discovered by reflection.",
   "bounded-exhaustive enumeration of shapes x coordinate types x operations on the real code against a structural reference", "4/C16"),
 "C17": ("model_checking",
   "Valid lineal and areal lattice geometries (every vertex sequence of length <=4 on 3x3 with >=2 distinct points incl. repeated consecutive vertices, closed rings, simple polygons, polygons with holes and mixed ring windings, multis and collections, Z/M tagged and float-image variants) x parameters enumerated from the property: Densify distances relative to the diameter; Simplify thresholds 0, every vertex-to-chord distance and its two ulp neighbours, the diameter; InterpolatePoint fractions -1, 0, 1, 2, +-Inf, k/8 and every cumulative-length breakpoint +-1 ulp; InterpolateEvenlySpacedPoints counts -1..50; SnapToGrid places -320..320 x 14 ordinates x sign; Reverse, ForceCW, ForceCCW. Each contract clause is checked with exact rationals / 200-bit floats (originals kept in order with payload, inserted points on segments, gaps, dropped vertices within t of the bracketing line, valid-or-error, finite interpolation at the exact arc position, oddness, half-step bound, finiteness and idempotence of snapping, involution, point-set and validity preservation, IsCW/IsCCW and idempotence). Simplify: an input line or ring absent from the result must be able to collapse at the threshold (polygons with 2..4 holes of four sizes in every order x 10 thresholds between the sizes); ForceCW/ForceCCW: exact signed area of every ring of the result, also on two exact float images whose features are 1e-8 of their distance from the origin. Densify on polygons whose rings are sampled at different steps (fine shell around coarse holes and the reverse) x 11 distances.",
   "Trust: exact/ and math/big. Tolerances: 1e-11 x magnitude for interpolated positions, 64 ulp of the magnitude for densify gaps.",
   "bounded-exhaustive enumeration of inputs x parameters on the real code against exact-arithmetic contract oracles", "4/C17"),
 "C18": ("model_checking",
   "For every base geometry of a family (structural shapes x coordinate types x finite float classes from subnormal to 1e300) every mutant that differs in exactly one respect is generated (each ordinate one ulp up and down, adjacent members swapped, a member removed / duplicated / emptied, each line reversed, each closed line rotated by each offset, coordinate type changed, Point wrapped into a MultiPoint / collection) and ExactEquals is compared in both argument orders with (a) equality of an independent WKB encoding with -0 = +0 for the no-option form and (b) equality of an independent canonical form (members sorted, lines oriented, rings rotated) for IgnoreOrder; tolerance variants are checked for symmetry, monotonicity and the zero case; every permutation of up to 5 (thorough 6) members incl. duplicates equal up to rotation, chains under IgnoreOrder+ToleranceXY, and reflexive / symmetric / transitive laws on all triples of a 60-element family.",
   "Trust: refcodec WKB writer and the canonical form in checks/c18.go.",
   "bounded-exhaustive enumeration of geometries x one-respect mutants x permutations on the real code against independent identity oracles", "4/C18"),
 "C19": ("model_checking",
   "All 9 projections x a lattice of configurations (centres / origins every 30 degrees incl. poles and +-180, standard parallel pairs over {+-10,+-30,+-60}^2 in both orders minus the singular ones, radii 1 and WGS84 mean, zoom 0..30) x every point of a graticule (5 degrees quick, 2 degrees thorough, 1 degree for every 97th configuration) and of the same graticule shifted by 0.37 degrees - enumeration replaces the quantifier's random points - clipped to each implementation's one-to-one domain, plus the centre / origin itself and points on the standard parallels: Forward finite, Reverse(Forward(p)) within 1e-9 degrees (NaN fails), and the documented local character by central differences: |det J| = R^2 cos(lat) for the equal-area ones, orthogonal equal-length scaled partials for the conformal ones, distance from the centre for the azimuthal equidistant, unit meridian scale for the equidistant conic, true scale on standard parallels, Web Mercator world square and southward y.",
   "The continuum of configurations and points is covered on lattices only; nothing is claimed between nodes. Jacobians by central differences with h = 1e-4 degrees, tolerance 1e-6 relative.",
   "exhaustive enumeration of a configuration x graticule lattice on the real code against closed-form characterisations", "4/C19"),
 "C20": ("model_checking",
   "Argument pools of empties (zero value of Geometry and of each concrete type, typed empties in 4 coordinate types, Multi* and collections of 1..3 empties of mixed types, nested empty collections) are fed to every exported method of the 8 geometry types, Envelope and Sequence (found by reflection; every argument tuple from small pools for int, float, coordinates type, bool, XY, envelope, transform and geometry parameters) and to a table of 23 free functions over all ordered pairs with at least one empty operand: no panic outside an explicit allow-list of documented ones, neutral answers (IsEmpty, zero measures, empty centroid/hull/envelope, undefined distance, Relate closed forms from the exact oracle, Union/Difference/SymmetricDifference = UnaryUnion of the other operand), encodings re-decodable, and the zero Geometry compared call by call with GeometryCollection{}.AsGeometry(). Transparency: 20 non-empty geometries of every type x an empty member of 10 kinds inserted at every position (and same-typed Multi* variants) x 5-8 other operands: measures, envelope, hull, validity, DE-9IM both ways, 10 predicates both ways, distance and the point set of 7 set operations (against the exact arrangement) must not change. Transparency also observes PointOnSurface (empty iff the geometry is, and on it) and that every unary operation of the read API is total on every variant.",
   "Variadic option parameters are exercised with no options here (each option has its own property). Pointer-receiver decoders (Scan, UnmarshalJSON) are C08's subject.",
   "bounded-exhaustive enumeration of callees x argument tuples on the real code, differential (with / without empty member, zero value vs empty collection) and against neutral-answer tables", "4/C20"),
 "C10": ("model_checking",
   "Three exhaustive sub-checks over one op table (32 unary ops x 27 operands covering every degeneracy class, 17 binary ops x all ordered pairs, 4 search ops x 6 bulk-loaded trees). (1) Purity: operands, intermediate results of every depth-2 chain, collections built from results, and geometries sharing one backing array through NewSequence / Sequence.Slice are re-observed (WKB + accessor walk) after every call; every call is made twice and must return identical output. (2) Determinism under every map iteration order: a source-to-source pass (go/ast + go/types, applied with go build -overlay, /repo untouched) turns every range over a map in geom (22 sites) into a choice point and every map insertion (43 sites) into an insertion-order note; a deviation-bounded DFS explorer (default order, then every rotation / reversal / adjacent transposition at every choice point: bound 1 quick, bound 2 thorough, plus 4 global policies) re-runs the overlay-backed operations and requires the output (WKB / matrix / error) to equal the default run's; replaying the default schedule twice and every replayed prefix must meet identical choice points (uncaptured nondeterminism is a hard error). (3) Schedules: a static pass re-establishes on the current tree that geom, rtree and carto contain no go statement, channel operation, sync / atomic import or package-variable write outside init, so goroutines have no synchronisation edges and all interleavings are equivalent to the sequential runs; the same op bodies then run free under the race detector with 2, 4 and 16 goroutines on shared operands and trees. Construction and decoding are operations too: the same items bulk-loaded again (18 layout families x 10 sizes x 3 repetitions with other loads in between) give the same complete visit sequences; every operand's WKB (little, big, mixed endian; UnmarshalWKB and Scan), TWKB and GeoJSON buffer decoded twice gives the same value and leaves the buffer as it was; every unary operation agrees on an operand and on its decoded copy. Constructors from member slices keep a private copy (caller's slice overwritten afterwards).",
   "A controlled thread scheduler would have zero scheduling points here (no synchronisation in the code); race-freedom therefore rests on the static pass + purity enumeration + one free-running -race execution per width (trusted base: Go race detector). Another process differs only in hash seed, i.e. map order, which (2) covers. The explorer menu is rotations / reversal / adjacent transpositions, not all n! orders.",
   "stateless exploration of environment choices (map iteration order) on the real code with a deviation-bounded DFS, plus exhaustive purity enumeration and a static no-synchronisation argument for schedules", "4/C10"),
}

# universes added after the seeding rounds (appended to the level text)
EXTRA = {
 "C01": " Also: results of the set operations fed back as operands (chained), a concurrent-edge family (three edge interiors through one non-vertex point with non-dyadic crossing parameters), many-part operands under translations, float images at 1e-100 and 1e100.",
 "C02": " Also: chained results, the concurrent-edge family and many-part operands as in C01.",
 "C09": " Also: chained results, the concurrent-edge family, operands with a repeated vertex at the centre of the lattice, float images at 1e-100 and 1e100.",
 "C03": " Also: MultiPolygons of 3..6 members from a relation pool under every member order; every (X,Y) pair of special values at every control point.",
 "C08": " Also: WKT templates with every control point scaled by every value of {1,3e-200,3e200,1e308} (magnitude mixtures).",
 "C10": " Operands include three edges concurrent at a point with inexact crossings and a 6-member MultiPolygon.",
 "C11": " 18 layout families incl. magnitudes 1e200, 1e-200, 1e-162, 1e153; Stop wrapped by errors.Join, two %w verbs and twice; a re-entrant callback searching the same tree at the first four and the last stop positions.",
 "C12": " Also: the envelope lattice scaled by 1e-200, 1e200, 8e307 and 5e-324; every 4..5-vertex sequence of the lattice as a LineString.",
 "C13": " Also: every subset of 3..4 (thorough 6) points of the 5x5 lattice; operand-unchanged checks after every hull and rectangle.",
 "C14": " Thorough also: all 149 458 simple polygons of <=7 vertices on 4x4 and those of <=5 vertices as the hole of a frame; float images at 1e-100 and 1e100.",
 "C15": " Thorough also: all 149 458 simple polygons of <=7 vertices on 4x4 under 4 stretches and those of <=5 vertices as the hole of a frame.",
 "C17": " Also: a fragile Simplify family (tooth in a notch, hole in a bump) x 15 thresholds; float images at 1e-100 and 1e100.",
 "C18": " Also: sign-of-zero mutants, Z rings with XY-repeated vertices, IgnoreOrder+ToleranceXY as bipartite matching over all pairs of k-multisets against brute force.",
 "C19": " Also: equal standard parallels; second graticule shifted by 0.3712345678912345 degrees (thorough: 1-degree graticule on every configuration); every setter/use sequence of length 4 (thorough 7) on each projection object compared bit-for-bit with a fresh object configured from the model record.",
 "C20": " Transparency operands include polygons strictly containing every base and a far one; all four coordinate types in both tiers.",
}

for k, v in {
 "C01": " T-junction family; many-vertex polygons; features 1e-3 / 3e-5 of their distance from the origin.",
 "C02": " T-junction family; loops drawn by several LineStrings.",
 "C03": " Many-vertex rings with every one-vertex move; T-junctions on long edges; outside rings touching the shell at a repeated start vertex.",
 "C04": " Wide collections (33..500 members), a nested collection after 12000 elements, Scan into receivers that already hold a value.",
 "C05": " Wide collections, numeral classes, malformed trailers.",
 "C06": " Wide collections, numeral classes, positions of 8 and 9 elements, refused members among mixed siblings, reused receivers, case-variant foreign members.",
 "C07": " Wide collections; a tenths frame in the quick tier.",
 "C08": " GeometryCollections nested 16..7000 deep in every format (valid, invalid, truncated innermost member), WKB and TWKB count amplification.",
 "C09": " T-junction family; many-vertex polygons; features 1e-3 / 3e-5 of their distance from the origin.",
 "C10": " Mixed-length GeoJSON decodes in the map-order explorer.",
 "C11": " Trees loaded with negative record ids.",
 "C12": " Sequences of 5..13 points with a single extreme at every position; classification on the extreme lattices.",
 "C13": " Multi-member carriers, backtracking LineStrings.",
 "C14": " Members whose hole is wound like its shell.",
 "C16": " The 28 bare-ordinate constructors.",
 "C17": " Long lines, exact ties at other grids, scale-0.07 image, orientation through the concrete types.",
 "C19": " Points 1e-8..1e-2 degrees from the azimuthal centres.",
 "C20": " Many-member bases far from the origin, operands around the origin, empties inside Multi* members of collections.",
}.items():
    EXTRA[k] = EXTRA.get(k, "") + v

PENDING = {}

def main():
    props = [json.loads(l) for l in open('/verif/properties.jsonl')]
    checks = []
    na = []
    for p in props:
        i = p['id']
        if i in CLAIMED:
            cat, text, note, tech, ref = CLAIMED[i]
            checks.append({
                "property_id": i,
                "quick_cmd": f"./run.sh {i} quick",
                "thorough_cmd": f"./run.sh {i} thorough",
                "evidence_file": f"/verif/evidence/{i}.json",
                "replay_cmd_template": f"./run.sh {i} replay {{path}}",
                "engine": "verif",
                "level_claimed": {"category": cat, "text": text + EXTRA.get(i, ""), "design_ref": "DESIGN.md §" + ref},
                "level_note": note,
                "technique": tech,
            })
        else:
            na.append({"property_id": i, "reason": PENDING.get(i, "check not built yet in this session (work in progress; see DESIGN.md §8 for the order)")})
    hooks_commits = [l.strip() for l in open('/verif/hooks_commits.txt')] if __import__('os').path.exists('/verif/hooks_commits.txt') else []
    m = {
        "version": 1,
        "setup_cmd": "./run.sh setup",
        "hooks": {
            "guard": "verif",
            "enable": "go build -tags verif (run.sh does this on every invocation; hook files are add-only *_verif.go files with a //go:build verif line)",
            "baseline_off_cmd": "cd /repo && GOFLAGS=-mod=mod GOPROXY=off GOSUMDB=off GOTOOLCHAIN=local go test -json -vet=off -count=1 -timeout 25m ./...",
            "source_commits": hooks_commits,
            "add_only": True,
        },
        "engines": [{
            "name": "verif", "path": "/verif/cmd/verif",
            "serves_properties": [c["property_id"] for c in checks],
            "kind_free_text": "hand-written bounded-exhaustive explorer: per property a finite alphabet/bound/oracle; every case inside the bound is generated, run on the real code and compared with an exact reference model written in Go (no sampling)",
        }],
        "checks": checks,
        "not_applicable": na,
        "notes": "All checks rebuild bin/verif from /repo's working tree (go build -tags verif, replace => /repo). Exit 0 = held, 1 = VIOLATION line, 2 = engine error.",
    }
    json.dump(m, open('/verif/MANIFEST.json', 'w'), indent=1)
    try:
        import jsonschema
        jsonschema.validate(m, json.load(open('/root/.vp/MANIFEST.schema.json')))
        print("manifest valid;", len(checks), "claimed,", len(na), "not claimed")
    except ImportError:
        print("jsonschema not available; wrote manifest")

main()

#!/bin/bash
# usage: tools/seed_validate.sh <mutation dir containing patch.diff + demo_test.go>
# Confirms, in a scratch worktree of /repo HEAD: patch applies; suite passes with it; demo fails with it; demo passes without it.
set -u
export GOFLAGS=-mod=mod GOPROXY=off GOSUMDB=off GOTOOLCHAIN=local
m=$(realpath "$1"); wt=/tmp/seedval.$$
git -C /repo worktree add -q --detach $wt HEAD || exit 2
trap 'git -C /repo worktree remove --force $wt' EXIT
dir=$(head -1 $m/demo_test.go | sed -n 's#^// *dir: *##p' | tr -d ' \r')
[ -n "$dir" ] || dir=geom
cd $wt
cp $m/demo_test.go $dir/zz_seeded_demo_test.go
clean=$(go test -vet=off -count=1 -run TestSeededDemo ./$dir/ 2>&1 | tail -1)
git apply $m/patch.diff || { echo "RESULT patch-does-not-apply"; exit 1; }
mut=$(go test -vet=off -count=1 -run TestSeededDemo ./$dir/ 2>&1 | tail -1)
rm $dir/zz_seeded_demo_test.go
suite=$(/verif/tools/suite.sh $wt | tail -1)
echo "RESULT clean-demo=[$clean] mutated-demo=[$mut] suite=[$suite]"
case "$clean" in ok*) ;; *) exit 1;; esac
case "$mut" in FAIL*) ;; *) exit 1;; esac
[ "$suite" = SUITE-OK ] || exit 1
echo SEED-VALID

#!/bin/bash
# usage: tools/seed_batch.sh <root> <id> [tier]  — validate and run every out/m* of one property
root=$1; id=$2; tier=${3:-quick}
for d in $root/$id/out/m*; do
  [ -f $d/patch.diff ] || continue
  v=$(/verif/tools/seed_validate.sh $d 2>&1 | tail -1)
  r=$(/verif/tools/seed_run.sh $d $tier $id 2>&1 | tail -1 | cut -c1-220)
  echo "$id $(basename $d): $v :: $r"
done

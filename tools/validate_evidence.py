#!/usr/bin/env python3
import json, sys, glob, jsonschema
sch = json.load(open('/root/.vp/EVIDENCE.schema.json'))
for f in sorted(glob.glob('/verif/evidence/*.json')):
    try:
        jsonschema.validate(json.load(open(f)), sch); print("ok", f)
    except Exception as e:
        print("INVALID", f, str(e)[:300])

#!/usr/bin/env python3
"""usage: seed_keep.py <src dir> <seed id, e.g. C11-m1> <property> <needs (text)> <detected_by comma list or ''> """
import sys, os, shutil, json, re
src, sid, prop, needs, det = sys.argv[1:6]
dst = f'/verif/seeded/{sid}'
os.makedirs(dst, exist_ok=True)
for f in ('patch.diff', 'demo_test.go', 'NOTES.md'):
    if os.path.exists(os.path.join(src, f)):
        shutil.copy(os.path.join(src, f), dst)
meta = {
    "id": sid, "breaks_property": prop, "needs_to_manifest": needs,
    "origin": "independent sub-agent given only the property text and a scratch worktree",
    "confirmed": "tools/seed_validate.sh: patch applies to /repo HEAD; repository suite passes with it; demo_test.go fails with it and passes without it",
    "ran": [f"tools/seed_validate.sh seeded/{sid}", f"tools/seed_run.sh seeded/{sid} quick {prop}"],
    "detected_by": [d for d in det.split(',') if d],
}
json.dump(meta, open(os.path.join(dst, 'meta.json'), 'w'), indent=1)
print("kept", dst)

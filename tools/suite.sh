#!/bin/bash
# usage: tools/suite.sh [dir]   — runs the repository's own test suite (guard off) in dir (default /repo)
# prints one line per package and exits non-zero if any of the five baseline packages fails.
export GOFLAGS=-mod=mod GOPROXY=off GOSUMDB=off GOTOOLCHAIN=local
cd "${1:-/repo}" || exit 2
out=$(go test -vet=off -count=1 -timeout 25m ./geom/... ./rtree/... ./carto/... ./internal/cartodemo/... 2>&1)
echo "$out" | grep -E "^(ok|FAIL|---|panic)" | head -40
n=$(echo "$out" | grep -c "^ok")
[ "$n" -eq 5 ] || { echo "SUITE-FAIL ($n/5 ok)"; exit 1; }
echo "SUITE-OK"

#!/usr/bin/env python3
"""Regenerates the seed table at the end of DESIGN.md (everything after the '| seed | needs | caught by |' header) from seeded/*/meta.json."""
import json, glob, re, os
rows = []
def key(p):
    m = re.match(r'(C\d+)-(r(\d))?m(\d)', os.path.basename(os.path.dirname(p)))
    return (m.group(1), int(m.group(3) or 1), int(m.group(4)))
for f in sorted(glob.glob('/verif/seeded/*/meta.json'), key=key):
    m = json.load(open(f))
    rows.append(f"| {m['id']} | {m['needs_to_manifest']} | {'; '.join(m['detected_by']) or 'MISSED'} |")
p = '/verif/DESIGN.md'
s = open(p).read()
hdr = '| seed | needs | caught by |\n|---|---|---|\n'
i = s.index('| seed | needs | caught by |')
s = s[:i] + hdr + '\n'.join(rows) + '\n'
open(p, 'w').write(s)
print(len(rows), 'rows')

#!/bin/bash
# usage: tools/run_all.sh quick|thorough [ids...] — runs checks sequentially, prints one summary line each
tier=${1:-quick}; shift
ids=${@:-C01 C02 C03 C04 C05 C06 C07 C08 C09 C10 C11 C12 C13 C14 C15 C16 C17 C18 C19 C20}
cd /verif
for id in $ids; do
  s=$(date +%s)
  out=$(./run.sh $id $tier 2>&1); rc=$?
  e=$(( $(date +%s) - s ))
  echo "$id $tier rc=$rc ${e}s :: $(echo "$out" | grep -m1 "^$id" | cut -c1-160)"
  echo "$out" | grep "VIOLATION\|KNOWN-FINDING\|ENGINE-ERROR\|cap:" | head -5
done

#!/bin/bash
# usage: tools/seed_run.sh <mutation dir> <tier> <check id>...
# Applies patch.diff to /repo, runs the checks, reverts /repo. Prints DETECTED/MISSED per check.
set -u
m=$(realpath "$1"); tier=$2; shift 2
cd /repo && git diff --quiet || { echo "/repo is dirty"; exit 2; }
git -C /repo apply $m/patch.diff || { echo "patch does not apply"; exit 2; }
trap 'git -C /repo checkout -- . ' EXIT
for id in "$@"; do
  out=$(cd /verif && ./run.sh $id $tier 2>&1); rc=$?
  if [ $rc -eq 1 ] && echo "$out" | grep -q "^VIOLATION property=$id"; then
    echo "DETECTED $id ($(echo "$out" | grep -m1 'key=' | cut -c1-200))"
  else
    echo "MISSED $id rc=$rc $(echo "$out" | head -1 | cut -c1-150)"
  fi
done

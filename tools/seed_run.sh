#!/bin/bash
# usage: tools/seed_run.sh <mutation dir> <tier> <check id>...
# Applies patch.diff to a scratch worktree of /repo's HEAD (never to /repo itself), runs the checks against that
# tree (VERIF_REPO) with all output redirected to a scratch directory (VERIF_OUT), removes both.
# Prints DETECTED/MISSED per check. Equivalent to: git -C /repo apply; ./run.sh ...; git -C /repo checkout -- .
set -u
m=$(realpath "$1"); tier=$2; shift 2
wt=/tmp/seedrun.$$; out=/tmp/seedout.$$
for try in 1 2 3 4 5; do git -C /repo worktree add -q --detach $wt HEAD 2>/dev/null && break; sleep $try; done
[ -d $wt ] || { echo "could not create worktree"; exit 2; }
trap 'git -C /repo worktree remove --force $wt; rm -rf $out' EXIT
git -C $wt apply $m/patch.diff || { echo "patch does not apply"; exit 2; }
for id in "$@"; do
  o=$(cd /verif && VERIF_REPO=$wt VERIF_OUT=$out ./run.sh $id $tier 2>&1); rc=$?
  if [ $rc -eq 1 ] && echo "$o" | grep -q "^VIOLATION property=$id"; then
    echo "DETECTED $id ($(echo "$o" | grep -m1 'key=' | cut -c1-200))"
  else
    echo "MISSED $id rc=$rc $(echo "$o" | head -1 | cut -c1-150)"
  fi
done

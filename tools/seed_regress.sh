#!/bin/bash
# usage: tools/seed_regress.sh [ids...]  — re-runs every kept seeded change (or the given seed ids) against the
# current checks through tools/seed_run.sh (scratch worktree; /repo untouched) and writes seeded/REGRESSION.txt.
# The check run is the first property named in the seed's detected_by list.
cd /verif
out=seeded/REGRESSION.txt
tmp=$(mktemp)
ids="$@"
[ -z "$ids" ] && ids=$(ls seeded | grep -v REGRESSION)
for sid in $ids; do
  d=seeded/$sid
  [ -f $d/meta.json ] || continue
  chk=$(python3 -c "import json,re;m=json.load(open('$d/meta.json'));print(re.match(r'(C\d+)',m['detected_by'][0]).group(1))")
  res=$(tools/seed_run.sh $d quick $chk 2>&1 | tail -1 | cut -c1-160)
  echo "$sid $res" | tee -a $tmp
done
if [ -z "$1" ]; then mv $tmp $out; else cat $tmp; rm -f $tmp; fi

#!/bin/bash
# usage: tools/seed_regress.sh [shards]  — re-runs every kept seeded change against the current checks through
# tools/seed_run.sh (scratch worktree; /repo untouched), in <shards> parallel shards (default 4), and writes
# seeded/REGRESSION.txt. The check run is the first property named in the seed's detected_by list.
cd /verif
# every patched tree compiles the library afresh: keep those build artefacts in a scratch cache that is removed
# at the end instead of letting them pile up in the default Go build cache (312 seeds ≈ 80 GB)
export GOCACHE=/tmp/seedcache.$$
trap 'rm -rf /tmp/seedcache.$$' EXIT
n=${1:-4}
ids=($(ls seeded | grep -v REGRESSION))
tmp=$(mktemp -d)
for s in $(seq 0 $((n-1))); do
  (
    i=0
    for sid in "${ids[@]}"; do
      if [ $((i % n)) -eq $s ]; then
        d=seeded/$sid
        chk=$(python3 -c "import json,re;m=json.load(open('$d/meta.json'));print(re.match(r'(C\d+)',m['detected_by'][0]).group(1))")
        res=$(tools/seed_run.sh $d quick $chk 2>&1 | tail -1 | cut -c1-160)
        echo "$sid $res" >> $tmp/shard$s
      fi
      i=$((i+1))
    done
  ) &
done
wait
cat $tmp/shard* | sort > seeded/REGRESSION.txt
rm -rf $tmp
echo "detected: $(grep -c ' DETECTED ' seeded/REGRESSION.txt) of ${#ids[@]}"

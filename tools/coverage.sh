#!/bin/bash
# usage: tools/coverage.sh [tier]  — builds the checker with coverage instrumentation of the library packages,
# runs every check in the given tier (default quick) with all output redirected to a scratch directory, and
# prints the library functions that no check executed (blind spots: a change there cannot be noticed).
set -u
cd /verif
export GOFLAGS=-mod=mod GOPROXY=off GOSUMDB=off GOTOOLCHAIN=local
tier=${1:-quick}
out=/tmp/verifcov.$$; mkdir -p $out/bin $out/cov $out/evidence $out/replays $out/.work
trap 'rm -rf $out' EXIT
cp -f /repo/go.sum go.sum
go build -cover -coverpkg=./...,github.com/peterstace/simplefeatures/... -tags verif -o $out/bin/verif ./cmd/verif || exit 2
for id in C01 C02 C03 C04 C05 C06 C07 C08 C09 C11 C12 C13 C14 C15 C16 C17 C18 C19 C20; do
  GOCOVERDIR=$out/cov VERIF_OUT=$out $out/bin/verif $id $tier > $out/log.txt 2>&1; head -1 $out/log.txt | cut -c1-120
done
# C10's purity part runs in the same binary (the race and explorer binaries are not instrumented)
GOCOVERDIR=$out/cov VERIF_OUT=$out $out/bin/verif C10 $tier > $out/log.txt 2>&1; head -1 $out/log.txt | cut -c1-120
go tool covdata textfmt -i=$out/cov -o $out/cover.txt
grep -E "^mode|peterstace/simplefeatures/(geom|rtree|carto)/" $out/cover.txt > $out/lib.txt; go tool cover -func=$out/lib.txt > /verif/.work/coverage_func.txt
cp $out/lib.txt /verif/.work/coverage_profile.txt
grep -v "100.0%" /verif/.work/coverage_func.txt | awk '$NF=="0.0%"' | grep -v "_test.go" > /verif/.work/coverage_zero.txt
echo "functions never executed: $(wc -l < /verif/.work/coverage_zero.txt) (list in .work/coverage_zero.txt); total: $(tail -1 /verif/.work/coverage_func.txt)"

// Package exact is the reference model: exact rational arithmetic, point
// location from the OGC definitions and an exact planar arrangement. It does
// not import any algorithm of the library under test.
package exact

import (
	"fmt"
	"math"
	"math/big"
	"math/bits"
)

// R is an exact rational. Values whose numerator and denominator fit in 62
// bits live in n/d (d>0, gcd 1); anything larger is held in b. f caches the
// nearest float64 (relative error ≤ 4 ulp) for the sign filters.
type R struct {
	n, d int64
	b    *big.Rat
	f    float64
}

const lim62 = 1 << 62

func gcd(a, b int64) int64 {
	if a < 0 {
		a = -a
	}
	if b < 0 {
		b = -b
	}
	for b != 0 {
		a, b = b, a%b
	}
	return a
}

// mk builds n/d from values with |n|, |d| < 2^63, d != 0.
func mk(n, d int64) R {
	if d < 0 {
		n, d = -n, -d
	}
	if d != 1 {
		if g := gcd(n, d); g > 1 {
			n, d = n/g, d/g
		}
	}
	if n >= lim62 || n <= -lim62 || d >= lim62 {
		return fromBig(new(big.Rat).SetFrac64(n, d))
	}
	if d == 1 {
		return R{n: n, d: 1, f: float64(n)}
	}
	return R{n: n, d: d, f: float64(n) / float64(d)}
}

func Int(i int64) R {
	if i >= lim62 || i <= -lim62 {
		return fromBig(new(big.Rat).SetInt64(i))
	}
	return R{n: i, d: 1, f: float64(i)}
}

func Frac(n, d int64) R {
	if d == 0 {
		panic("exact: zero denominator")
	}
	if n == math.MinInt64 || d == math.MinInt64 {
		return fromBig(new(big.Rat).SetFrac(big.NewInt(n), big.NewInt(d)))
	}
	return mk(n, d)
}

// Float injects a finite float64 exactly.
func Float(f float64) R {
	if math.IsNaN(f) || math.IsInf(f, 0) {
		panic("exact: non-finite float")
	}
	if f == math.Trunc(f) && math.Abs(f) < 1<<53 {
		return R{n: int64(f), d: 1, f: f}
	}
	r := new(big.Rat)
	r.SetFloat64(f)
	x := fromBig(r)
	x.f = f
	return x
}

func fromBig(r *big.Rat) R {
	f, _ := r.Float64()
	if r.Num().IsInt64() && r.Denom().IsInt64() {
		n, d := r.Num().Int64(), r.Denom().Int64()
		if n > -lim62 && n < lim62 && d < lim62 {
			return R{n: n, d: d, f: f}
		}
	}
	return R{b: r, f: f}
}

func (x R) big() *big.Rat {
	if x.b != nil {
		return x.b
	}
	d := x.d
	if d == 0 {
		d = 1 // zero value of R is 0
	}
	return new(big.Rat).SetFrac64(x.n, d)
}

func (x R) norm() R {
	if x.b == nil && x.d == 0 {
		x.d = 1
	}
	return x
}

// mul64 multiplies two int64 and reports overflow beyond 62 bits.
func mul64(a, b int64) (int64, bool) {
	neg := false
	ua, ub := uint64(a), uint64(b)
	if a < 0 {
		ua, neg = uint64(-a), !neg
	}
	if b < 0 {
		ub, neg = uint64(-b), !neg
	}
	hi, lo := bits.Mul64(ua, ub)
	if hi != 0 || lo >= lim62 {
		return 0, false
	}
	if neg {
		return -int64(lo), true
	}
	return int64(lo), true
}

func (x R) Add(y R) R {
	x, y = x.norm(), y.norm()
	if x.b == nil && y.b == nil {
		if x.d == 1 && y.d == 1 {
			return Int(x.n + y.n) // |n| < 2^62 each: no int64 overflow
		}
		g := gcd(x.d, y.d)
		yd, xd := y.d/g, x.d/g
		a, ok1 := mul64(x.n, yd)
		b, ok2 := mul64(y.n, xd)
		d, ok3 := mul64(x.d, yd)
		if ok1 && ok2 && ok3 {
			return mk(a+b, d)
		}
	}
	return fromBig(new(big.Rat).Add(x.big(), y.big()))
}

func (x R) Sub(y R) R { return x.Add(y.Neg()) }

func (x R) Neg() R {
	x = x.norm()
	if x.b != nil {
		return R{b: new(big.Rat).Neg(x.b), f: -x.f}
	}
	return R{n: -x.n, d: x.d, f: -x.f}
}

func (x R) Mul(y R) R {
	x, y = x.norm(), y.norm()
	if x.b == nil && y.b == nil {
		n1, d1, n2, d2 := x.n, x.d, y.n, y.d
		if d2 != 1 {
			if g := gcd(n1, d2); g > 1 {
				n1, d2 = n1/g, d2/g
			}
		}
		if d1 != 1 {
			if g := gcd(n2, d1); g > 1 {
				n2, d1 = n2/g, d1/g
			}
		}
		n, ok1 := mul64(n1, n2)
		d, ok2 := mul64(d1, d2)
		if ok1 && ok2 {
			if d == 1 {
				return R{n: n, d: 1, f: float64(n)}
			}
			return R{n: n, d: d, f: float64(n) / float64(d)}
		}
	}
	return fromBig(new(big.Rat).Mul(x.big(), y.big()))
}

func (x R) Div(y R) R {
	y = y.norm()
	if y.Sign() == 0 {
		panic("exact: division by zero")
	}
	if y.b == nil {
		if y.n < 0 {
			return x.Mul(R{n: -y.d, d: -y.n, f: 1 / y.f})
		}
		return x.Mul(R{n: y.d, d: y.n, f: 1 / y.f})
	}
	return fromBig(new(big.Rat).Quo(x.big(), y.big()))
}

func (x R) Sign() int {
	if x.b != nil {
		return x.b.Sign()
	}
	switch {
	case x.n > 0:
		return 1
	case x.n < 0:
		return -1
	}
	return 0
}

func (x R) Cmp(y R) int {
	x, y = x.norm(), y.norm()
	// float filter: each cached float is within 4 ulp of the value
	if df := x.f - y.f; df > 2e-15*(math.Abs(x.f)+math.Abs(y.f)) {
		return 1
	} else if -df > 2e-15*(math.Abs(x.f)+math.Abs(y.f)) {
		return -1
	}
	if x.b == nil && y.b == nil {
		if x.d == y.d {
			switch {
			case x.n < y.n:
				return -1
			case x.n > y.n:
				return 1
			}
			return 0
		}
		sx, sy := x.Sign(), y.Sign()
		if sx != sy {
			if sx < sy {
				return -1
			}
			return 1
		}
		if sx == 0 {
			return 0
		}
		ax, ay := x.n, y.n
		if sx < 0 {
			ax, ay = -ax, -ay
		}
		h1, l1 := bits.Mul64(uint64(ax), uint64(y.d))
		h2, l2 := bits.Mul64(uint64(ay), uint64(x.d))
		c := 0
		switch {
		case h1 != h2:
			if h1 < h2 {
				c = -1
			} else {
				c = 1
			}
		case l1 != l2:
			if l1 < l2 {
				c = -1
			} else {
				c = 1
			}
		}
		return c * sx
	}
	return x.big().Cmp(y.big())
}

func (x R) Eq(y R) bool  { return x.Cmp(y) == 0 }
func (x R) Lt(y R) bool  { return x.Cmp(y) < 0 }
func (x R) Le(y R) bool  { return x.Cmp(y) <= 0 }
func (x R) IsZero() bool { return x.Sign() == 0 }

func (x R) Abs() R {
	if x.Sign() < 0 {
		return x.Neg()
	}
	return x
}

func (x R) Half() R { return x.Mul(Frac(1, 2)) }

// Float returns the nearest float64 (exactly rounded).
func (x R) Float() float64 {
	x = x.norm()
	if x.b != nil {
		f, _ := x.b.Float64()
		return f
	}
	if x.d == 1 {
		return float64(x.n)
	}
	if x.n > -(1<<53) && x.n < 1<<53 && x.d < 1<<53 {
		return float64(x.n) / float64(x.d)
	}
	f, _ := x.big().Float64()
	return f
}

// Approx returns the cached float (within 4 ulp).
func (x R) Approx() float64 { return x.f }

// BigFloat returns x with 200 bits of precision.
func (x R) BigFloat() *big.Float {
	return new(big.Float).SetPrec(200).SetRat(x.big())
}

func (x R) String() string {
	x = x.norm()
	if x.b != nil {
		return x.b.RatString()
	}
	if x.d == 1 {
		return fmt.Sprint(x.n)
	}
	return fmt.Sprintf("%d/%d", x.n, x.d)
}

func Min(a, b R) R {
	if b.Lt(a) {
		return b
	}
	return a
}

func Max(a, b R) R {
	if a.Lt(b) {
		return b
	}
	return a
}

// SqrtFloat returns sqrt(x) rounded from a 200-bit computation.
func SqrtFloat(x R) float64 {
	if x.Sign() <= 0 {
		return 0
	}
	f, _ := new(big.Float).SetPrec(200).Sqrt(x.BigFloat()).Float64()
	return f
}

// SqrtBig returns sqrt(x) with 200 bits.
func SqrtBig(x R) *big.Float {
	if x.Sign() <= 0 {
		return new(big.Float).SetPrec(200)
	}
	return new(big.Float).SetPrec(200).Sqrt(x.BigFloat())
}

// ---- points -----------------------------------------------------------------

type Pt struct{ X, Y R }

func P(x, y int64) Pt       { return Pt{Int(x), Int(y)} }
func PF(x, y float64) Pt    { return Pt{Float(x), Float(y)} }
func (p Pt) Eq(q Pt) bool   { return p.X.Eq(q.X) && p.Y.Eq(q.Y) }
func (p Pt) Sub(q Pt) Pt    { return Pt{p.X.Sub(q.X), p.Y.Sub(q.Y)} }
func (p Pt) Add(q Pt) Pt    { return Pt{p.X.Add(q.X), p.Y.Add(q.Y)} }
func (p Pt) Scale(k R) Pt   { return Pt{p.X.Mul(k), p.Y.Mul(k)} }
func (p Pt) String() string { return "(" + p.X.String() + " " + p.Y.String() + ")" }
func (p Pt) Floats() (float64, float64) {
	return p.X.Float(), p.Y.Float()
}

// Less is lexicographic (x, then y).
func (p Pt) Less(q Pt) bool {
	if c := p.X.Cmp(q.X); c != 0 {
		return c < 0
	}
	return p.Y.Lt(q.Y)
}

func Cross(a, b Pt) R { return a.X.Mul(b.Y).Sub(a.Y.Mul(b.X)) }
func Dot(a, b Pt) R   { return a.X.Mul(b.X).Add(a.Y.Mul(b.Y)) }

// Orient is the sign of the signed area of (a,b,c): +1 left turn.
func Orient(a, b, c Pt) int {
	// float filter: every cached coordinate is within 4 ulp of its value, so
	// the float determinant is within ~2^-47·M² of the true one (M = largest
	// magnitude involved); 1e-12·M² leaves two orders of margin.
	ax, ay, bx, by, cx, cy := a.X.f, a.Y.f, b.X.f, b.Y.f, c.X.f, c.Y.f
	m := math.Max(math.Max(math.Max(math.Abs(ax), math.Abs(ay)), math.Max(math.Abs(bx), math.Abs(by))), math.Max(math.Abs(cx), math.Abs(cy)))
	det := (bx-ax)*(cy-ay) - (by-ay)*(cx-ax)
	if lim := 1e-12 * m * m; det > lim {
		return 1
	} else if det < -lim {
		return -1
	}
	return Cross(b.Sub(a), c.Sub(a)).Sign()
}

func Mid(a, b Pt) Pt { return Pt{a.X.Add(b.X).Half(), a.Y.Add(b.Y).Half()} }

func Dist2(a, b Pt) R { d := a.Sub(b); return Dot(d, d) }

// Key is a comparable canonical form of a point.
type Key struct {
	a, b, c, d int64
	s          string
}

func (p Pt) Key() Key {
	x, y := p.X.norm(), p.Y.norm()
	if x.b == nil && y.b == nil {
		return Key{a: x.n, b: x.d, c: y.n, d: y.d}
	}
	return Key{s: x.String() + "," + y.String()}
}

// Package exact is the reference model: exact rational arithmetic, point
// location from the OGC definitions and an exact planar arrangement. It does
// not import any algorithm of the library under test.
package exact

import (
	"fmt"
	"math"
	"math/big"
)

// R is an exact rational. Small values live in n/d (d>0, gcd 1, |n|,d < 2^62);
// anything larger is held in b.
type R struct {
	n, d int64
	b    *big.Rat
}

const lim = 1 << 31

func small(x R) bool { return x.b == nil && x.n < lim && x.n > -lim && x.d < lim }

func gcd(a, b int64) int64 {
	if a < 0 {
		a = -a
	}
	for b != 0 {
		a, b = b, a%b
	}
	return a
}

func mk(n, d int64) R {
	if d < 0 {
		n, d = -n, -d
	}
	if g := gcd(n, d); g > 1 {
		n, d = n/g, d/g
	}
	return R{n: n, d: d}
}

func Int(i int64) R { return R{n: i, d: 1} }

func Frac(n, d int64) R {
	if d == 0 {
		panic("exact: zero denominator")
	}
	if n == math.MinInt64 || d == math.MinInt64 {
		return fromBig(new(big.Rat).SetFrac(big.NewInt(n), big.NewInt(d)))
	}
	return mk(n, d)
}

// Float injects a finite float64 exactly.
func Float(f float64) R {
	if math.IsNaN(f) || math.IsInf(f, 0) {
		panic("exact: non-finite float")
	}
	if f == math.Trunc(f) && math.Abs(f) < 1<<53 {
		return R{n: int64(f), d: 1}
	}
	r := new(big.Rat)
	r.SetFloat64(f)
	return fromBig(r)
}

func fromBig(r *big.Rat) R {
	if r.Num().IsInt64() && r.Denom().IsInt64() {
		n, d := r.Num().Int64(), r.Denom().Int64()
		if n > -(1<<62) && n < 1<<62 && d < 1<<62 {
			return R{n: n, d: d}
		}
	}
	return R{b: r}
}

func (x R) big() *big.Rat {
	if x.b != nil {
		return x.b
	}
	d := x.d
	if d == 0 {
		d = 1 // zero value of R is 0
	}
	return new(big.Rat).SetFrac64(x.n, d)
}

func (x R) norm() R {
	if x.b == nil && x.d == 0 {
		x.d = 1
	}
	return x
}

func (x R) Add(y R) R {
	x, y = x.norm(), y.norm()
	if small(x) && small(y) {
		return mk(x.n*y.d+y.n*x.d, x.d*y.d)
	}
	return fromBig(new(big.Rat).Add(x.big(), y.big()))
}

func (x R) Sub(y R) R { return x.Add(y.Neg()) }

func (x R) Neg() R {
	x = x.norm()
	if x.b != nil {
		return R{b: new(big.Rat).Neg(x.b)}
	}
	return R{n: -x.n, d: x.d}
}

func (x R) Mul(y R) R {
	x, y = x.norm(), y.norm()
	if small(x) && small(y) {
		return mk(x.n*y.n, x.d*y.d)
	}
	return fromBig(new(big.Rat).Mul(x.big(), y.big()))
}

func (x R) Div(y R) R {
	x, y = x.norm(), y.norm()
	if y.Sign() == 0 {
		panic("exact: division by zero")
	}
	if small(x) && small(y) {
		return mk(x.n*y.d, x.d*y.n)
	}
	return fromBig(new(big.Rat).Quo(x.big(), y.big()))
}

func (x R) Sign() int {
	if x.b != nil {
		return x.b.Sign()
	}
	switch {
	case x.n > 0:
		return 1
	case x.n < 0:
		return -1
	}
	return 0
}

func (x R) Cmp(y R) int {
	x, y = x.norm(), y.norm()
	if small(x) && small(y) {
		a, b := x.n*y.d, y.n*x.d
		switch {
		case a < b:
			return -1
		case a > b:
			return 1
		}
		return 0
	}
	return x.big().Cmp(y.big())
}

func (x R) Eq(y R) bool { return x.Cmp(y) == 0 }
func (x R) Lt(y R) bool { return x.Cmp(y) < 0 }
func (x R) Le(y R) bool { return x.Cmp(y) <= 0 }
func (x R) IsZero() bool { return x.Sign() == 0 }

func (x R) Abs() R {
	if x.Sign() < 0 {
		return x.Neg()
	}
	return x
}

func (x R) Half() R { return x.Mul(Frac(1, 2)) }

func (x R) Float() float64 {
	x = x.norm()
	if x.b != nil {
		f, _ := x.b.Float64()
		return f
	}
	if x.d == 1 {
		return float64(x.n)
	}
	f, _ := x.big().Float64()
	return f
}

// BigFloat returns x with 200 bits of precision.
func (x R) BigFloat() *big.Float {
	return new(big.Float).SetPrec(200).SetRat(x.big())
}

func (x R) String() string {
	x = x.norm()
	if x.b != nil {
		return x.b.RatString()
	}
	if x.d == 1 {
		return fmt.Sprint(x.n)
	}
	return fmt.Sprintf("%d/%d", x.n, x.d)
}

func Min(a, b R) R {
	if b.Lt(a) {
		return b
	}
	return a
}

func Max(a, b R) R {
	if a.Lt(b) {
		return b
	}
	return a
}

// SqrtFloat returns sqrt(x) rounded from a 200-bit computation.
func SqrtFloat(x R) float64 {
	if x.Sign() <= 0 {
		return 0
	}
	f, _ := new(big.Float).SetPrec(200).Sqrt(x.BigFloat()).Float64()
	return f
}

// SqrtBig returns sqrt(x) with 200 bits.
func SqrtBig(x R) *big.Float {
	if x.Sign() <= 0 {
		return new(big.Float).SetPrec(200)
	}
	return new(big.Float).SetPrec(200).Sqrt(x.BigFloat())
}

// ---- points -----------------------------------------------------------------

type Pt struct{ X, Y R }

func P(x, y int64) Pt       { return Pt{Int(x), Int(y)} }
func PF(x, y float64) Pt    { return Pt{Float(x), Float(y)} }
func (p Pt) Eq(q Pt) bool   { return p.X.Eq(q.X) && p.Y.Eq(q.Y) }
func (p Pt) Sub(q Pt) Pt    { return Pt{p.X.Sub(q.X), p.Y.Sub(q.Y)} }
func (p Pt) Add(q Pt) Pt    { return Pt{p.X.Add(q.X), p.Y.Add(q.Y)} }
func (p Pt) Scale(k R) Pt   { return Pt{p.X.Mul(k), p.Y.Mul(k)} }
func (p Pt) String() string { return "(" + p.X.String() + " " + p.Y.String() + ")" }
func (p Pt) Floats() (float64, float64) {
	return p.X.Float(), p.Y.Float()
}

// Less is lexicographic (x, then y).
func (p Pt) Less(q Pt) bool {
	if c := p.X.Cmp(q.X); c != 0 {
		return c < 0
	}
	return p.Y.Lt(q.Y)
}

func Cross(a, b Pt) R { return a.X.Mul(b.Y).Sub(a.Y.Mul(b.X)) }
func Dot(a, b Pt) R   { return a.X.Mul(b.X).Add(a.Y.Mul(b.Y)) }

// Orient is the sign of the signed area of (a,b,c): +1 left turn.
func Orient(a, b, c Pt) int { return Cross(b.Sub(a), c.Sub(a)).Sign() }

func Mid(a, b Pt) Pt { return Pt{a.X.Add(b.X).Half(), a.Y.Add(b.Y).Half()} }

func Dist2(a, b Pt) R { d := a.Sub(b); return Dot(d, d) }

// Key is a comparable canonical form of a point.
type Key struct {
	a, b, c, d int64
	s          string
}

func (p Pt) Key() Key {
	x, y := p.X.norm(), p.Y.norm()
	if x.b == nil && y.b == nil {
		return Key{a: x.n, b: x.d, c: y.n, d: y.d}
	}
	return Key{s: x.String() + "," + y.String()}
}

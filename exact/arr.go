package exact

import (
	"fmt"
	"sort"
)

// Arr is the exact planar arrangement of a set of segments and points:
// vertices (0-cells), atomic edges (1-cells) and faces (2-cells, as classes of
// edge sides), each with an exact probe point in its relative interior.
type Arr struct {
	V      []Pt
	VEdges [][]int // incident edge ids in counter-clockwise order of direction
	VFace  []int   // for isolated vertices (no incident edge): containing face; else -1
	E      []Edge
	F      []Face
	Comps  int // connected components of the vertex/edge graph (isolated vertices count)
}

type Edge struct {
	U, V int // U's point is lexicographically less than V's
	Mid  Pt
	L, R int // faces on the left / right of the direction U->V
}

type Face struct {
	Probe     Pt
	Area      R // exact area; for the unbounded face, minus the area of its complement's hull of holes (≤ 0)
	Unbounded bool
}

type uf []int

func (u uf) find(x int) int {
	for u[x] != x {
		u[x] = u[u[x]]
		x = u[x]
	}
	return x
}
func (u uf) union(a, b int) { u[u.find(a)] = u.find(b) }

// dirLess orders non-zero direction vectors by angle in [0, 2π) from +x.
func half(d Pt) int {
	if d.Y.Sign() > 0 || (d.Y.Sign() == 0 && d.X.Sign() > 0) {
		return 0
	}
	return 1
}

func dirLess(a, b Pt) bool {
	ha, hb := half(a), half(b)
	if ha != hb {
		return ha < hb
	}
	return Cross(a, b).Sign() > 0
}

// Arrange builds the arrangement. Zero-length segments are ignored (their end
// point should be passed in pts if it matters).
func Arrange(segs []Seg, pts []Pt) *Arr {
	a := &Arr{}
	vid := map[Key]int{}
	vert := func(p Pt) int {
		k := p.Key()
		if i, ok := vid[k]; ok {
			return i
		}
		vid[k] = len(a.V)
		a.V = append(a.V, p)
		return len(a.V) - 1
	}
	// split points per segment
	n := len(segs)
	cuts := make([][]Pt, n)
	for i := 0; i < n; i++ {
		cuts[i] = append(cuts[i], segs[i].A, segs[i].B)
	}
	for i := 0; i < n; i++ {
		for j := i + 1; j < n; j++ {
			k, p, q := SegInter(segs[i].A, segs[i].B, segs[j].A, segs[j].B)
			switch k {
			case 1:
				cuts[i] = append(cuts[i], p)
				cuts[j] = append(cuts[j], p)
			case 2:
				cuts[i] = append(cuts[i], p, q)
				cuts[j] = append(cuts[j], p, q)
			}
		}
		for _, p := range pts {
			if OnSeg(p, segs[i].A, segs[i].B) {
				cuts[i] = append(cuts[i], p)
			}
		}
	}
	type ekey struct{ u, v int }
	eid := map[ekey]int{}
	for i := 0; i < n; i++ {
		c := cuts[i]
		sort.Slice(c, func(x, y int) bool { return c[x].Less(c[y]) })
		prev := -1
		for _, p := range c {
			v := vert(p)
			if prev >= 0 && v != prev {
				// c is sorted lexicographically, so prev < v as points
				k := ekey{prev, v}
				if _, ok := eid[k]; !ok {
					eid[k] = len(a.E)
					a.E = append(a.E, Edge{U: prev, V: v, Mid: Mid(a.V[prev], a.V[v]), L: -1, R: -1})
				}
			}
			prev = v
		}
	}
	for _, p := range pts {
		vert(p)
	}
	nv, ne := len(a.V), len(a.E)
	a.VEdges = make([][]int, nv)
	for i, e := range a.E {
		a.VEdges[e.U] = append(a.VEdges[e.U], i)
		a.VEdges[e.V] = append(a.VEdges[e.V], i)
	}
	dirOf := func(v, e int) Pt { // direction of edge e leaving v
		if a.E[e].U == v {
			return a.V[a.E[e].V].Sub(a.V[v])
		}
		return a.V[a.E[e].U].Sub(a.V[v])
	}
	for v := range a.VEdges {
		es := a.VEdges[v]
		sort.Slice(es, func(x, y int) bool { return dirLess(dirOf(v, es[x]), dirOf(v, es[y])) })
	}
	// side nodes: 2e = left of U->V, 2e+1 = right; then one node per vertex
	// (used by isolated vertices), then the unbounded node.
	isoNode := func(v int) int { return 2*ne + v }
	unb := 2*ne + nv
	u := make(uf, unb+1)
	for i := range u {
		u[i] = i
	}
	leftOut := func(v, e int) int { // node on the left when leaving v along e
		if a.E[e].U == v {
			return 2 * e
		}
		return 2*e + 1
	}
	rightOut := func(v, e int) int { return leftOut(v, e) ^ 1 }
	for v, es := range a.VEdges {
		for i := range es {
			j := (i + 1) % len(es)
			u.union(leftOut(v, es[i]), rightOut(v, es[j]))
		}
	}
	// sectorNode returns the node of the face at v that contains direction d
	// (d must not coincide with an incident edge direction).
	sectorNode := func(v int, d Pt) int {
		es := a.VEdges[v]
		if len(es) == 0 {
			return isoNode(v)
		}
		// last edge whose direction is <= d in angular order; wrap to the last one
		k := len(es) - 1
		for i, e := range es {
			if dirLess(dirOf(v, e), d) {
				k = i
			} else {
				break
			}
		}
		return leftOut(v, es[k])
	}
	// connected components of the graph
	cu := make(uf, nv)
	for i := range cu {
		cu[i] = i
	}
	for _, e := range a.E {
		cu.union(e.U, e.V)
	}
	minOf := map[int]int{}
	for v := 0; v < nv; v++ {
		r := cu.find(v)
		if m, ok := minOf[r]; !ok || a.V[v].Less(a.V[m]) {
			minOf[r] = v
		}
	}
	a.Comps = len(minOf)
	west, east := Pt{Int(-1), Int(0)}, Pt{Int(1), Int(0)}
	for _, v := range minOf {
		p := a.V[v]
		// nearest hit going west from p
		var bestT R
		found, hitV, hitE := false, -1, -1
		for w := 0; w < nv; w++ {
			q := a.V[w]
			if w != v && q.Y.Eq(p.Y) && q.X.Lt(p.X) {
				t := p.X.Sub(q.X)
				if !found || t.Lt(bestT) {
					found, bestT, hitV, hitE = true, t, w, -1
				}
			}
		}
		for ei, e := range a.E {
			s, t := a.V[e.U], a.V[e.V]
			cs, ct := s.Y.Cmp(p.Y), t.Y.Cmp(p.Y)
			if cs*ct >= 0 {
				continue // does not strictly straddle the line y = p.Y (end-point hits are vertex hits)
			}
			// x at y = p.Y
			k := p.Y.Sub(s.Y).Div(t.Y.Sub(s.Y))
			x := s.X.Add(t.X.Sub(s.X).Mul(k))
			if !x.Lt(p.X) {
				continue
			}
			d := p.X.Sub(x)
			if !found || d.Lt(bestT) {
				found, bestT, hitV, hitE = true, d, -1, ei
			}
		}
		me := sectorNode(v, west)
		switch {
		case !found:
			u.union(me, unb)
		case hitE >= 0:
			e := a.E[hitE]
			if Orient(a.V[e.U], a.V[e.V], p) > 0 {
				u.union(me, 2*hitE)
			} else {
				u.union(me, 2*hitE+1)
			}
		default:
			u.union(me, sectorNode(hitV, east))
		}
	}
	// faces
	fid := map[int]int{}
	face := func(node int) int {
		r := u.find(node)
		if f, ok := fid[r]; ok {
			return f
		}
		fid[r] = len(a.F)
		a.F = append(a.F, Face{})
		return len(a.F) - 1
	}
	ub := face(unb)
	a.F[ub].Unbounded = true
	a.VFace = make([]int, nv)
	for v := range a.VFace {
		a.VFace[v] = -1
		if len(a.VEdges[v]) == 0 {
			a.VFace[v] = face(isoNode(v))
		}
	}
	hasProbe := make([]bool, 0)
	for i := range a.E {
		e := &a.E[i]
		e.L, e.R = face(2*i), face(2*i+1)
		c := Cross(a.V[e.U], a.V[e.V]).Half()
		a.F[e.L].Area = a.F[e.L].Area.Add(c)
		a.F[e.R].Area = a.F[e.R].Area.Sub(c)
	}
	hasProbe = make([]bool, len(a.F))
	// probes: for each edge side whose face has none yet, step from the edge
	// midpoint along the normal half-way to the nearest obstacle.
	for i := range a.E {
		e := a.E[i]
		for side := 0; side < 2; side++ {
			f := e.L
			if side == 1 {
				f = e.R
			}
			if hasProbe[f] {
				continue
			}
			d := a.V[e.V].Sub(a.V[e.U])
			nrm := Pt{d.Y.Neg(), d.X} // left normal
			if side == 1 {
				nrm = Pt{d.Y, d.X.Neg()}
			}
			a.F[f].Probe = a.rayProbe(e.Mid, nrm, i)
			hasProbe[f] = true
		}
	}
	for f := range a.F {
		if hasProbe[f] {
			continue
		}
		// a face with no edge on its boundary can only be the unbounded face of
		// an edge-less arrangement
		if !a.F[f].Unbounded || ne != 0 {
			panic("exact: face without probe")
		}
		// any point not equal to a vertex: left of the lexicographically smallest vertex
		p := Pt{Int(0), Int(0)}
		if nv > 0 {
			m := a.V[0]
			for _, q := range a.V {
				if q.Less(m) {
					m = q
				}
			}
			p = Pt{m.X.Sub(Int(1)), m.Y}
		}
		a.F[f].Probe = p
	}
	if ne > 0 && !hasProbeFor(a, ub) {
		panic("exact: unbounded face has no boundary edge")
	}
	return a
}

func hasProbeFor(a *Arr, f int) bool {
	for _, e := range a.E {
		if e.L == f || e.R == f {
			return true
		}
	}
	return false
}

// rayProbe returns m + (t/2)·d where t is the smallest positive parameter at
// which the ray m + t·d meets any vertex or any edge other than skip (t = 1 if
// it meets nothing).
func (a *Arr) rayProbe(m, d Pt, skip int) Pt {
	var best R
	found := false
	consider := func(t R) {
		if t.Sign() > 0 && (!found || t.Lt(best)) {
			found, best = true, t
		}
	}
	dd := Dot(d, d)
	for _, q := range a.V {
		w := q.Sub(m)
		if Cross(d, w).IsZero() {
			consider(Dot(w, d).Div(dd))
		}
	}
	for i, e := range a.E {
		if i == skip {
			continue
		}
		s, t := a.V[e.U], a.V[e.V]
		r := t.Sub(s)
		den := Cross(d, r)
		if den.IsZero() {
			continue // parallel: collinear hits are caught at the vertices
		}
		w := s.Sub(m)
		tt := Cross(w, r).Div(den) // parameter along the ray
		uu := Cross(w, d).Div(den) // parameter along the edge
		if uu.Sign() >= 0 && uu.Cmp(Int(1)) <= 0 {
			consider(tt)
		}
	}
	if !found {
		best = Int(1)
	}
	return m.Add(d.Scale(best.Half()))
}

// SelfCheck verifies Euler's relation and the area bookkeeping; a failure is
// an oracle bug, never a property violation.
func (a *Arr) SelfCheck() error {
	if len(a.V)-len(a.E)+len(a.F) != 1+a.Comps {
		return fmt.Errorf("euler: V=%d E=%d F=%d C=%d", len(a.V), len(a.E), len(a.F), a.Comps)
	}
	sum := Int(0)
	for _, f := range a.F {
		if f.Unbounded {
			if f.Area.Sign() > 0 {
				return fmt.Errorf("unbounded face with positive area %v", f.Area)
			}
			continue
		}
		if f.Area.Sign() <= 0 {
			return fmt.Errorf("bounded face with area %v", f.Area)
		}
		sum = sum.Add(f.Area)
	}
	for _, f := range a.F {
		if f.Unbounded && !sum.Add(f.Area).IsZero() {
			return fmt.Errorf("areas do not balance: bounded %v unbounded %v", sum, f.Area)
		}
	}
	return nil
}

// EdgeLen2 is the exact squared length of edge i.
func (a *Arr) EdgeLen2(i int) R { return Dist2(a.V[a.E[i].U], a.V[a.E[i].V]) }

package exact

// G is the reference representation of a geometry: a bag of points, open
// polylines/closed curves and polygons (rings as closed vertex lists, first ==
// last). Collections are flattened; Multi* are several entries.
type G struct {
	Points []Pt
	Lines  [][]Pt
	Polys  []Poly
}

type Poly struct {
	Rings [][]Pt // Rings[0] is the shell
}

type Seg struct{ A, B Pt }

const (
	Exterior = 0
	Boundary = 1
	Interior = 2
)

// OnSeg reports whether p lies on the closed segment ab.
func OnSeg(p, a, b Pt) bool {
	if Orient(a, b, p) != 0 {
		return false
	}
	return between(p.X, a.X, b.X) && between(p.Y, a.Y, b.Y)
}

func between(v, a, b R) bool {
	if b.Lt(a) {
		a, b = b, a
	}
	return a.Le(v) && v.Le(b)
}

// InRing locates p relative to the closed curve ring (first == last) by exact
// crossing parity: Boundary if on the curve, else Interior/Exterior.
func InRing(p Pt, ring []Pt) int {
	inside := false
	for i := 0; i+1 < len(ring); i++ {
		a, b := ring[i], ring[i+1]
		if OnSeg(p, a, b) {
			return Boundary
		}
		// half-open rule on y: count edges with a.Y <= p.Y < b.Y or b.Y <= p.Y < a.Y
		// whose crossing with the horizontal line through p lies strictly right of p.
		ay, by := a.Y.Cmp(p.Y), b.Y.Cmp(p.Y)
		if (ay <= 0) == (by <= 0) {
			continue
		}
		// orientation of (a,b,p) tells on which side p lies
		o := Orient(a, b, p)
		if by > 0 { // upward edge: p left of it => crossing to the right
			if o > 0 {
				inside = !inside
			}
		} else {
			if o < 0 {
				inside = !inside
			}
		}
	}
	if inside {
		return Interior
	}
	return Exterior
}

// LocatePoly locates p in a polygon from the definition: on any ring =>
// boundary; inside the shell and not inside a hole => interior.
func LocatePoly(p Pt, poly Poly) int {
	if len(poly.Rings) == 0 {
		return Exterior
	}
	for _, r := range poly.Rings {
		if InRing(p, r) == Boundary {
			return Boundary
		}
	}
	if InRing(p, poly.Rings[0]) != Interior {
		return Exterior
	}
	for _, h := range poly.Rings[1:] {
		if InRing(p, h) == Interior {
			return Exterior
		}
	}
	return Interior
}

func onLine(p Pt, ln []Pt) bool {
	if len(ln) == 1 {
		return p.Eq(ln[0])
	}
	for i := 0; i+1 < len(ln); i++ {
		if OnSeg(p, ln[i], ln[i+1]) {
			return true
		}
	}
	return false
}

// In reports membership of p in the point set of g (union semantics).
func (g *G) In(p Pt) bool {
	for _, q := range g.Points {
		if p.Eq(q) {
			return true
		}
	}
	for _, l := range g.Lines {
		if onLine(p, l) {
			return true
		}
	}
	for _, y := range g.Polys {
		if LocatePoly(p, y) != Exterior {
			return true
		}
	}
	return false
}

// Locate gives the OGC interior/boundary/exterior location of p. Areal members
// take precedence, then lineal ones (mod-2 rule over the end points of all
// non-closed lines), then points. For collections this is only meaningful when
// members are pairwise disjoint, as the standard requires.
func (g *G) Locate(p Pt) int {
	best := Exterior
	for _, y := range g.Polys {
		switch LocatePoly(p, y) {
		case Interior:
			return Interior
		case Boundary:
			best = Boundary
		}
	}
	if best == Boundary {
		return Boundary
	}
	on := false
	ends := 0
	for _, l := range g.Lines {
		if len(l) < 2 {
			continue
		}
		if !onLine(p, l) {
			continue
		}
		on = true
		a, b := l[0], l[len(l)-1]
		if a.Eq(b) {
			continue // closed: no boundary
		}
		if p.Eq(a) {
			ends++
		}
		if p.Eq(b) {
			ends++
		}
	}
	if on {
		if ends%2 == 1 {
			return Boundary
		}
		return Interior
	}
	for _, q := range g.Points {
		if p.Eq(q) {
			return Interior
		}
	}
	return Exterior
}

// Segs lists every non-degenerate segment of the lineal and areal parts.
func (g *G) Segs() []Seg {
	var out []Seg
	add := func(l []Pt) {
		for i := 0; i+1 < len(l); i++ {
			if !l[i].Eq(l[i+1]) {
				out = append(out, Seg{l[i], l[i+1]})
			}
		}
	}
	for _, l := range g.Lines {
		add(l)
	}
	for _, y := range g.Polys {
		for _, r := range y.Rings {
			add(r)
		}
	}
	return out
}

// Dim is the topological dimension (-1 for empty).
func (g *G) Dim() int {
	if len(g.Polys) > 0 {
		return 2
	}
	if len(g.Lines) > 0 {
		return 1
	}
	if len(g.Points) > 0 {
		return 0
	}
	return -1
}

func (g *G) IsEmpty() bool { return g.Dim() < 0 }

// RingArea2 is twice the signed shoelace area of a closed ring.
func RingArea2(r []Pt) R {
	s := Int(0)
	for i := 0; i+1 < len(r); i++ {
		s = s.Add(Cross(r[i], r[i+1]))
	}
	return s
}

// SegInter classifies the intersection of closed segments ab and cd (both
// non-degenerate): 0 none, 1 a single point (returned), 2 a collinear overlap
// of positive length (its two end points returned).
func SegInter(a, b, c, d Pt) (kind int, p, q Pt) {
	o1, o2 := Orient(a, b, c), Orient(a, b, d)
	o3, o4 := Orient(c, d, a), Orient(c, d, b)
	if o1 == 0 && o2 == 0 {
		// collinear: project on the dominant axis via lexicographic order
		lo1, hi1 := a, b
		if hi1.Less(lo1) {
			lo1, hi1 = hi1, lo1
		}
		lo2, hi2 := c, d
		if hi2.Less(lo2) {
			lo2, hi2 = hi2, lo2
		}
		lo, hi := lo1, hi1
		if lo.Less(lo2) {
			lo = lo2
		}
		if hi2.Less(hi) {
			hi = hi2
		}
		if hi.Less(lo) {
			return 0, p, q
		}
		if lo.Eq(hi) {
			return 1, lo, lo
		}
		return 2, lo, hi
	}
	if o1*o2 > 0 || o3*o4 > 0 {
		return 0, p, q
	}
	// single point: solve a + t (b-a), t = cross(c-a, d-c)/cross(b-a, d-c)
	r, s := b.Sub(a), d.Sub(c)
	den := Cross(r, s)
	t := Cross(c.Sub(a), s).Div(den)
	x := a.Add(r.Scale(t))
	return 1, x, x
}

// DistPtSeg2 is the exact squared distance from p to the closed segment ab.
func DistPtSeg2(p, a, b Pt) R {
	ab := b.Sub(a)
	l2 := Dot(ab, ab)
	if l2.IsZero() {
		return Dist2(p, a)
	}
	t := Dot(p.Sub(a), ab)
	if t.Sign() <= 0 {
		return Dist2(p, a)
	}
	if t.Cmp(l2) >= 0 {
		return Dist2(p, b)
	}
	c := Cross(ab, p.Sub(a))
	return c.Mul(c).Div(l2)
}

// DistSegSeg2 is the exact squared distance between two closed segments.
func DistSegSeg2(a, b, c, d Pt) R {
	if !a.Eq(b) && !c.Eq(d) {
		if k, _, _ := SegInter(a, b, c, d); k != 0 {
			return Int(0)
		}
	} else if a.Eq(b) && c.Eq(d) {
		return Dist2(a, c)
	}
	m := DistPtSeg2(a, c, d)
	m = Min(m, DistPtSeg2(b, c, d))
	m = Min(m, DistPtSeg2(c, a, b))
	m = Min(m, DistPtSeg2(d, a, b))
	return m
}

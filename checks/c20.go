package checks

import (
	"encoding/json"
	"fmt"
	"math"
	"reflect"
	"sort"
	"strings"

	"github.com/peterstace/simplefeatures/geom"
	"verif/engine"
	"verif/oracle"
	"verif/universe"
)

// ---- argument pools ------------------------------------------------------------------

func emptyPool(xyOnly bool) []geom.Geometry {
	cts := allCT
	if xyOnly {
		cts = allCT[:1]
	}
	out := []geom.Geometry{{}, geom.Point{}.AsGeometry(), geom.LineString{}.AsGeometry(), geom.Polygon{}.AsGeometry(), geom.MultiPoint{}.AsGeometry(),
		geom.MultiLineString{}.AsGeometry(), geom.MultiPolygon{}.AsGeometry(), geom.GeometryCollection{}.AsGeometry()}
	for _, ct := range cts {
		ep, el, ey := geom.NewEmptyPoint(ct), geom.LineString{}.ForceCoordinatesType(ct), geom.Polygon{}.ForceCoordinatesType(ct)
		out = append(out, ep.AsGeometry(), el.AsGeometry(), ey.AsGeometry(),
			geom.MultiPoint{}.ForceCoordinatesType(ct).AsGeometry(), geom.MultiLineString{}.ForceCoordinatesType(ct).AsGeometry(),
			geom.MultiPolygon{}.ForceCoordinatesType(ct).AsGeometry(), geom.GeometryCollection{}.ForceCoordinatesType(ct).AsGeometry(),
			geom.NewMultiPoint([]geom.Point{ep}).AsGeometry(), geom.NewMultiPoint([]geom.Point{ep, ep, ep}).AsGeometry(),
			geom.NewMultiLineString([]geom.LineString{el, el}).AsGeometry(), geom.NewMultiPolygon([]geom.Polygon{ey}).AsGeometry(),
			geom.NewGeometryCollection([]geom.Geometry{ep.AsGeometry()}).AsGeometry(),
			geom.NewGeometryCollection([]geom.Geometry{ey.AsGeometry(), el.AsGeometry(), ep.AsGeometry()}).AsGeometry(),
			geom.NewGeometryCollection([]geom.Geometry{geom.NewGeometryCollection([]geom.Geometry{geom.NewMultiPoint([]geom.Point{ep}).AsGeometry()}).AsGeometry(), geom.GeometryCollection{}.ForceCoordinatesType(ct).AsGeometry()}).AsGeometry(),
		)
	}
	return out
}

// concrete returns g as its concrete type boxed in a reflect.Value.
func concrete(g geom.Geometry) reflect.Value {
	switch g.Type() {
	case geom.TypePoint:
		return reflect.ValueOf(g.MustAsPoint())
	case geom.TypeLineString:
		return reflect.ValueOf(g.MustAsLineString())
	case geom.TypePolygon:
		return reflect.ValueOf(g.MustAsPolygon())
	case geom.TypeMultiPoint:
		return reflect.ValueOf(g.MustAsMultiPoint())
	case geom.TypeMultiLineString:
		return reflect.ValueOf(g.MustAsMultiLineString())
	case geom.TypeMultiPolygon:
		return reflect.ValueOf(g.MustAsMultiPolygon())
	}
	return reflect.ValueOf(g.MustAsGeometryCollection())
}

var (
	tGeometry = reflect.TypeOf(geom.Geometry{})
	tXY       = reflect.TypeOf(geom.XY{})
	tCT       = reflect.TypeOf(geom.DimXY)
	tEnv      = reflect.TypeOf(geom.Envelope{})
	tXYFunc   = reflect.TypeOf(func(geom.XY) geom.XY { return geom.XY{} })
	tErr      = reflect.TypeOf((*error)(nil)).Elem()
)

// documented panics: (method name, condition) → allowed
func allowedPanic(typ, method string, args []reflect.Value, msg string) bool {
	switch method {
	case "PointN", "LineStringN", "PolygonN", "GeometryN", "InteriorRingN", "Get", "GetXY", "Slice":
		return true // index accessors panic when out of range; every index is out of range on an empty receiver
	case "MustAsPoint", "MustAsLineString", "MustAsPolygon", "MustAsMultiPoint", "MustAsMultiLineString", "MustAsMultiPolygon", "MustAsGeometryCollection":
		// documented: MustAsX panics when the Geometry holds another type (never when it holds X)
		return strings.Contains(msg, "called As") && !strings.Contains(msg, "containing "+strings.TrimPrefix(method, "MustAs")+"\x00") && !strings.HasSuffix(msg, "containing "+strings.TrimPrefix(method, "MustAs"))
	case "Densify":
		return len(args) > 0 && args[0].Kind() == reflect.Float64 && args[0].Float() <= 0
	}
	return false
}

// argsFor enumerates argument tuples for a method; ok=false if a parameter type has no pool.
func argsFor(mt reflect.Type, skipRecv bool, geoms []geom.Geometry) ([][]reflect.Value, bool) {
	start := 0
	if skipRecv {
		start = 1
	}
	n := mt.NumIn()
	var pools [][]reflect.Value
	for i := start; i < n; i++ {
		pt := mt.In(i)
		if mt.IsVariadic() && i == n-1 {
			// options: none (each option individually is exercised by the dedicated checks)
			pools = append(pools, []reflect.Value{{}})
			continue
		}
		var pool []reflect.Value
		switch {
		case pt == tGeometry:
			for _, g := range geoms {
				pool = append(pool, reflect.ValueOf(g))
			}
		case pt == tXY:
			pool = []reflect.Value{reflect.ValueOf(geom.XY{}), reflect.ValueOf(geom.XY{X: 1, Y: 2})}
		case pt == tCT:
			for _, ct := range allCT {
				pool = append(pool, reflect.ValueOf(ct))
			}
		case pt == tEnv:
			pool = []reflect.Value{reflect.ValueOf(geom.Envelope{}), reflect.ValueOf(geom.NewEnvelope(geom.XY{X: 0, Y: 0}, geom.XY{X: 1, Y: 1}))}
		case pt == tXYFunc:
			pool = []reflect.Value{reflect.ValueOf(func(p geom.XY) geom.XY { return p })}
		case pt.Kind() == reflect.Int:
			for _, v := range []int{-1, 0, 1, 2} {
				pool = append(pool, reflect.ValueOf(v))
			}
		case pt.Kind() == reflect.Float64:
			for _, v := range []float64{0, 0.5, 1} {
				pool = append(pool, reflect.ValueOf(v))
			}
		case pt.Kind() == reflect.Bool:
			pool = []reflect.Value{reflect.ValueOf(false), reflect.ValueOf(true)}
		case pt.Kind() == reflect.Slice && pt.Elem().Kind() == reflect.Uint8:
			pool = []reflect.Value{reflect.Zero(pt), reflect.ValueOf([]byte("x:"))}
		default:
			// same concrete geometry type as a parameter (e.g. Envelope.ExpandToIncludeEnvelope handled above)
			for _, g := range geoms {
				cv := concrete(g)
				if cv.Type() == pt {
					pool = append(pool, cv)
				}
			}
			if len(pool) == 0 {
				return nil, false
			}
		}
		pools = append(pools, pool)
	}
	out := [][]reflect.Value{{}}
	for _, pool := range pools {
		var next [][]reflect.Value
		for _, pre := range out {
			for _, v := range pool {
				if !v.IsValid() {
					next = append(next, pre) // variadic: nothing
					continue
				}
				next = append(next, append(append([]reflect.Value{}, pre...), v))
			}
		}
		out = next
	}
	return out, true
}

func show(v reflect.Value) string {
	if !v.IsValid() {
		return "<none>"
	}
	switch x := v.Interface().(type) {
	case geom.Geometry:
		return x.AsText()
	case geom.Point:
		return x.AsText()
	case geom.LineString:
		return x.AsText()
	case geom.Polygon:
		return x.AsText()
	case geom.MultiPoint:
		return x.AsText()
	case geom.MultiLineString:
		return x.AsText()
	case geom.MultiPolygon:
		return x.AsText()
	case geom.GeometryCollection:
		return x.AsText()
	case error:
		if x == nil {
			return "nil"
		}
		return "error:" + x.Error()
	case []byte:
		return fmt.Sprintf("%x", x)
	case float64:
		if math.IsNaN(x) {
			return "NaN"
		}
	}
	if v.Kind() == reflect.Func {
		return "func"
	}
	if v.Kind() == reflect.Interface && v.IsNil() {
		return "nil"
	}
	if v.Kind() == reflect.Slice {
		var parts []string
		for i := 0; i < v.Len(); i++ {
			parts = append(parts, show(v.Index(i)))
		}
		return "[" + strings.Join(parts, " ") + "]"
	}
	return fmt.Sprint(v.Interface())
}

type callCase struct {
	Recv   string   `json:"receiver"`
	Method string   `json:"method"`
	Args   []string `json:"args"`
}

// callAll invokes every exported method of recv with every argument tuple;
// returns a transcript (for the zero-value differential) keyed by method+args.
func callAll(r *engine.Run, recv reflect.Value, recvText string, geoms []geom.Geometry, transcript map[string]string) {
	t := recv.Type()
	for i := 0; i < t.NumMethod(); i++ {
		m := t.Method(i)
		switch m.Name {
		case "Scan", "UnmarshalJSON":
			continue // pointer-receiver decoders are C08's subject
		}
		tuples, ok := argsFor(m.Type, true, geoms)
		if !ok {
			unhandledParams.Store(t.Name()+"."+m.Name, true)
			continue
		}
		for _, args := range tuples {
			var as []string
			for _, a := range args {
				as = append(as, show(a))
			}
			c := callCase{recvText, t.Name() + "." + m.Name, as}
			var outs []reflect.Value
			r.Transitions.Add(1)
			r.Evaluations.Add(1)
			p := engine.SafeCall(func() { outs = m.Func.Call(append([]reflect.Value{recv}, args...)) })
			key := m.Name + "(" + strings.Join(as, ",") + ")"
			if p != nil {
				msg := fmt.Sprint(p)
				if transcript != nil {
					transcript[key] = "panic"
				}
				if !allowedPanic(t.Name(), m.Name, args, msg) {
					r.Violation("C20/panic:"+t.Name()+"."+m.Name, "call", c, msg)
				}
				continue
			}
			var os []string
			for _, o := range outs {
				os = append(os, show(o))
			}
			res := strings.Join(os, " | ")
			if transcript != nil {
				transcript[key] = res
			}
			r.Outcome(t.Name() + "." + m.Name)
			// neutral answers on empty receivers
			switch m.Name {
			case "IsEmpty":
				if res != "true" {
					r.Violation("C20/neutral.IsEmpty", "call", c, res)
				}
			case "Area", "Length":
				if res != "0" {
					r.Violation("C20/neutral."+m.Name, "call", c, res)
				}
			case "Centroid", "PointOnSurface":
				if !strings.Contains(res, "EMPTY") {
					r.Violation("C20/neutral."+m.Name, "call", c, res)
				}
			case "Envelope":
				if res != "ENVELOPE EMPTY" {
					r.Violation("C20/neutral.Envelope", "call", c, res)
				}
			case "ConvexHull", "Boundary":
				if !strings.Contains(res, "EMPTY") {
					r.Violation("C20/neutral."+m.Name, "call", c, res)
				}
			case "Validate":
				if res != "nil" {
					r.Violation("C20/neutral.Validate", "call", c, res)
				}
			case "AsText":
				if g, err := geom.UnmarshalWKT(res); err != nil || !g.IsEmpty() {
					r.Violation("C20/encoder.AsText.notRedecodable", "call", c, res)
				}
			case "AsBinary":
				if len(outs) == 1 {
					if g, err := geom.UnmarshalWKB(outs[0].Bytes()); err != nil || !g.IsEmpty() {
						r.Violation("C20/encoder.AsBinary.notRedecodable", "call", c, res)
					}
				}
			case "MarshalJSON":
				if len(outs) == 2 && outs[1].IsNil() {
					if g, err := geom.UnmarshalGeoJSON(outs[0].Bytes()); err != nil || !g.IsEmpty() {
						r.Violation("C20/encoder.MarshalJSON.notRedecodable", "call", c, res)
					}
				}
			}
		}
	}
}

var unhandledParams syncMap

type syncMap struct{ m map[string]bool }

func (s *syncMap) Store(k string, v bool) {
	if s.m == nil {
		s.m = map[string]bool{}
	}
	s.m[k] = v
}

// ---- free functions -------------------------------------------------------------------

type binFn struct {
	name string
	fn   func(a, b geom.Geometry) string
}

func fmtGE(g geom.Geometry, err error) string {
	if err != nil {
		return "error:" + err.Error()
	}
	return g.AsText()
}

func fmtBE(b bool, err error) string {
	if err != nil {
		return "error:" + err.Error()
	}
	return fmt.Sprint(b)
}

var c20Binary = []binFn{
	{"Union", func(a, b geom.Geometry) string { return fmtGE(geom.Union(a, b)) }},
	{"Intersection", func(a, b geom.Geometry) string { return fmtGE(geom.Intersection(a, b)) }},
	{"Difference", func(a, b geom.Geometry) string { return fmtGE(geom.Difference(a, b)) }},
	{"SymmetricDifference", func(a, b geom.Geometry) string { return fmtGE(geom.SymmetricDifference(a, b)) }},
	{"Relate", func(a, b geom.Geometry) string { s, err := geom.Relate(a, b); return s + fmt.Sprint(err) }},
	{"Equals", func(a, b geom.Geometry) string { return fmtBE(geom.Equals(a, b)) }},
	{"Disjoint", func(a, b geom.Geometry) string { return fmtBE(geom.Disjoint(a, b)) }},
	{"Touches", func(a, b geom.Geometry) string { return fmtBE(geom.Touches(a, b)) }},
	{"Contains", func(a, b geom.Geometry) string { return fmtBE(geom.Contains(a, b)) }},
	{"Covers", func(a, b geom.Geometry) string { return fmtBE(geom.Covers(a, b)) }},
	{"Within", func(a, b geom.Geometry) string { return fmtBE(geom.Within(a, b)) }},
	{"CoveredBy", func(a, b geom.Geometry) string { return fmtBE(geom.CoveredBy(a, b)) }},
	{"Crosses", func(a, b geom.Geometry) string { return fmtBE(geom.Crosses(a, b)) }},
	{"Overlaps", func(a, b geom.Geometry) string { return fmtBE(geom.Overlaps(a, b)) }},
	{"Intersects", func(a, b geom.Geometry) string { return fmt.Sprint(geom.Intersects(a, b)) }},
	{"Distance", func(a, b geom.Geometry) string { d, ok := geom.Distance(a, b); return fmt.Sprint(d, ok) }},
	{"ExactEquals", func(a, b geom.Geometry) string {
		return fmt.Sprint(geom.ExactEquals(a, b), geom.ExactEquals(a, b, geom.IgnoreOrder))
	}},
}

var c20Unary = []struct {
	name string
	fn   func(a geom.Geometry) string
}{
	{"UnaryUnion", func(a geom.Geometry) string { return fmtGE(geom.UnaryUnion(a)) }},
	{"UnionMany", func(a geom.Geometry) string { return fmtGE(geom.UnionMany([]geom.Geometry{a, a, {}})) }},
	{"RotatedMinimumAreaBoundingRectangle", func(a geom.Geometry) string { return geom.RotatedMinimumAreaBoundingRectangle(a).AsText() }},
	{"RotatedMinimumWidthBoundingRectangle", func(a geom.Geometry) string { return geom.RotatedMinimumWidthBoundingRectangle(a).AsText() }},
	{"MarshalTWKB", func(a geom.Geometry) string {
		b, err := geom.MarshalTWKB(a, 1, geom.TWKBSizeHeader(), geom.TWKBBoundingBoxHeader())
		if err != nil {
			return "error:" + err.Error()
		}
		g, err := geom.UnmarshalTWKB(b)
		return fmtGE(g, err)
	}},
	{"NewGeometryCollection", func(a geom.Geometry) string {
		return geom.NewGeometryCollection([]geom.Geometry{a, a}).AsText()
	}},
}

type pairTextCase struct {
	Fn string `json:"function"`
	A  string `json:"a"`
	B  string `json:"b,omitempty"`
}

// ---- transparency -----------------------------------------------------------------------

// withEmpties returns variants of g with an empty member of every type added at every position.
func withEmpties(g geom.Geometry) []geom.Geometry {
	var out []geom.Geometry
	empties := []geom.Geometry{geom.Point{}.AsGeometry(), geom.LineString{}.AsGeometry(), geom.Polygon{}.AsGeometry(), geom.MultiPoint{}.AsGeometry(),
		geom.MultiLineString{}.AsGeometry(), geom.MultiPolygon{}.AsGeometry(), geom.GeometryCollection{}.AsGeometry(), {},
		geom.NewGeometryCollection([]geom.Geometry{geom.Polygon{}.AsGeometry()}).AsGeometry(), geom.NewMultiPoint([]geom.Point{{}}).AsGeometry()}
	ins := func(ms []geom.Geometry, e geom.Geometry) {
		for pos := 0; pos <= len(ms); pos++ {
			v := append(append(append([]geom.Geometry{}, ms[:pos]...), e), ms[pos:]...)
			out = append(out, geom.NewGeometryCollection(v).AsGeometry())
		}
	}
	base := []geom.Geometry{g}
	if g.IsGeometryCollection() {
		base = oracle.Members(g)
	}
	for _, e := range empties {
		ins(base, e)
	}
	// nested: the empty member sits next to g one level down, and next to a nested copy of g
	for _, e := range empties[:5] {
		inner1 := geom.NewGeometryCollection([]geom.Geometry{g, e}).AsGeometry()
		inner2 := geom.NewGeometryCollection([]geom.Geometry{e, g}).AsGeometry()
		out = append(out, geom.NewGeometryCollection([]geom.Geometry{inner1}).AsGeometry(), geom.NewGeometryCollection([]geom.Geometry{inner2}).AsGeometry(),
			geom.NewGeometryCollection([]geom.Geometry{geom.NewGeometryCollection([]geom.Geometry{inner2}).AsGeometry(), e}).AsGeometry())
	}
	// an empty member inside a Multi* that is itself a member of the collection (first and last position)
	if g.IsGeometryCollection() {
		ms := oracle.Members(g)
		for i, m := range ms {
			var variants []geom.Geometry
			switch m.Type() {
			case geom.TypeMultiPoint:
				mp := m.MustAsMultiPoint()
				ps := mp.Dump()
				variants = append(variants, geom.NewMultiPoint(append([]geom.Point{{}}, ps...)).AsGeometry(), geom.NewMultiPoint(append(append([]geom.Point{}, ps...), geom.Point{})).AsGeometry())
			case geom.TypeMultiLineString:
				ls := m.MustAsMultiLineString().Dump()
				variants = append(variants, geom.NewMultiLineString(append([]geom.LineString{{}}, ls...)).AsGeometry(), geom.NewMultiLineString(append(append([]geom.LineString{}, ls...), geom.LineString{})).AsGeometry())
			case geom.TypeMultiPolygon:
				pg := m.MustAsMultiPolygon().Dump()
				variants = append(variants, geom.NewMultiPolygon(append([]geom.Polygon{{}}, pg...)).AsGeometry(), geom.NewMultiPolygon(append(append([]geom.Polygon{}, pg...), geom.Polygon{})).AsGeometry())
			}
			for _, v := range variants {
				vs := append([]geom.Geometry{}, ms...)
				vs[i] = v
				out = append(out, geom.NewGeometryCollection(vs).AsGeometry())
			}
		}
	}
	// same-typed Multi* with an empty member of its member type at every position
	switch g.Type() {
	case geom.TypeMultiPoint:
		m := g.MustAsMultiPoint()
		for pos := 0; pos <= m.NumPoints(); pos++ {
			var ps []geom.Point
			for i := 0; i < m.NumPoints(); i++ {
				if i == pos {
					ps = append(ps, geom.Point{})
				}
				ps = append(ps, m.PointN(i))
			}
			if pos == m.NumPoints() {
				ps = append(ps, geom.Point{})
			}
			out = append(out, geom.NewMultiPoint(ps).AsGeometry())
		}
	case geom.TypeMultiLineString:
		m := g.MustAsMultiLineString()
		for pos := 0; pos <= m.NumLineStrings(); pos++ {
			var ps []geom.LineString
			for i := 0; i < m.NumLineStrings(); i++ {
				if i == pos {
					ps = append(ps, geom.LineString{})
				}
				ps = append(ps, m.LineStringN(i))
			}
			if pos == m.NumLineStrings() {
				ps = append(ps, geom.LineString{})
			}
			out = append(out, geom.NewMultiLineString(ps).AsGeometry())
		}
	case geom.TypeMultiPolygon:
		m := g.MustAsMultiPolygon()
		for pos := 0; pos <= m.NumPolygons(); pos++ {
			var ps []geom.Polygon
			for i := 0; i < m.NumPolygons(); i++ {
				if i == pos {
					ps = append(ps, geom.Polygon{})
				}
				ps = append(ps, m.PolygonN(i))
			}
			if pos == m.NumPolygons() {
				ps = append(ps, geom.Polygon{})
			}
			out = append(out, geom.NewMultiPolygon(ps).AsGeometry())
		}
	case geom.TypePoint:
		out = append(out, geom.NewMultiPoint([]geom.Point{{}, g.MustAsPoint()}).AsGeometry(), geom.NewMultiPoint([]geom.Point{g.MustAsPoint(), {}}).AsGeometry())
	case geom.TypeLineString:
		out = append(out, geom.NewMultiLineString([]geom.LineString{{}, g.MustAsLineString()}).AsGeometry())
	case geom.TypePolygon:
		out = append(out, geom.NewMultiPolygon([]geom.Polygon{{}, g.MustAsPolygon()}).AsGeometry(), geom.NewMultiPolygon([]geom.Polygon{g.MustAsPolygon(), {}}).AsGeometry())
	}
	return out
}

// observe: everything that must not change when an empty member is added.
func observe(g geom.Geometry, others []Operand) (map[string]string, string) {
	obs := map[string]string{}
	var pnc string
	if p := engine.SafeCall(func() {
		obs["Area"] = fmt.Sprint(g.Area())
		obs["Length"] = fmt.Sprint(g.Length())
		obs["Centroid"] = g.Centroid().AsText()
		obs["Envelope"] = g.Envelope().String()
		obs["ConvexHull"] = g.ConvexHull().AsText()
		obs["IsEmpty"] = fmt.Sprint(g.IsEmpty())
		obs["Validate"] = fmt.Sprint(g.Validate())
		// every encoder accepts it and its output decodes again
		js, jerr := g.MarshalJSON()
		_, derr := geom.UnmarshalGeoJSON(js)
		obs["GeoJSON encodes and decodes"] = fmt.Sprint(jerr, derr)
		_, werr := geom.UnmarshalWKT(g.AsText())
		_, berr := geom.UnmarshalWKB(g.AsBinary())
		obs["WKT/WKB encode and decode"] = fmt.Sprint(werr, berr)
		// a point on the surface exists exactly when the geometry is not empty and lies on it
		pos := g.PointOnSurface()
		obs["PointOnSurface is empty / lies on g"] = fmt.Sprint(pos.IsEmpty(), geom.Intersects(pos.AsGeometry(), g))
		// every unary operation of the read API is total on it (its answer may legitimately mention the empty member)
		for _, u := range C10Unary {
			if p := engine.SafeCall(func() { u.Fn(g) }); p != nil {
				obs["total: "+u.Name] = fmt.Sprint("panic: ", p)
			} else {
				obs["total: "+u.Name] = "no panic"
			}
		}
		x := oracle.FromGeom(g)
		for i, o := range others {
			k := fmt.Sprint("#", i, " ", o.WKT, " ")
			m, err := geom.Relate(g, o.G)
			obs[k+"Relate"] = m + fmt.Sprint(err)
			m2, err := geom.Relate(o.G, g)
			obs[k+"Relate(rev)"] = m2 + fmt.Sprint(err)
			for _, pr := range c02Predicates {
				b, err := pr.fn(g, o.G)
				obs[k+pr.name] = fmt.Sprint(b, err)
				b, err = pr.fn(o.G, g)
				obs[k+pr.name+"(rev)"] = fmt.Sprint(b, err)
			}
			d, ok := geom.Distance(g, o.G)
			obs[k+"Distance"] = fmt.Sprint(d, ok)
			// point sets of set operations: compare through the exact oracle on the unchanged g
			p := oracle.NewPair(x, o.X)
			for _, op := range c01Ops[:7:7] {
				a, b := g, o.G
				if op.swap {
					a, b = b, a
				}
				res, err := op.fn(a, b)
				if err != nil {
					obs[k+op.name] = "error:" + err.Error()
					continue
				}
				// canonical description: area, length, point count and membership of every cell
				want := p.SetOp(op.op)
				fg := oracle.NewFG(oracle.FromGeom(res))
				sig := fmt.Sprintf("area=%.9g len=%.9g ", res.Area(), res.Length())
				okAll := true
				for f := range p.Arr.F {
					in, sure := fg.InArea(p.Arr.F[f].Probe, 1e-9)
					if sure && in != want.FSel[f] {
						okAll = false
					}
				}
				for e := range p.Arr.E {
					if (fg.Dist(p.Arr.E[e].Mid) <= 1e-9) != want.ESel[e] {
						okAll = false
					}
				}
				for v := range p.Arr.V {
					if (fg.Dist(p.Arr.V[v]) <= 1e-9) != want.VSel[v] {
						okAll = false
					}
				}
				obs[k+op.name] = sig + fmt.Sprint("pointSetMatchesExact=", okAll)
			}
		}
	}); p != nil {
		pnc = fmt.Sprint(p)
	}
	return obs, pnc
}

func c20Main(r *engine.Run) {
	r.Rule = "argument pools: zero value of Geometry and of every concrete type, typed empties in 4 coordinate types, Multi* and collections of 1..3 empties of mixed types, nested empty collections; callees: every exported method of the 8 geometry types, Envelope and Sequence (by reflection; all argument tuples from small pools) and a table of free functions over all ordered pairs; oracle: no panic outside the documented ones, neutral answers, re-decodable encodings, zero Geometry ≡ empty GeometryCollection on every callee; transparency: 30 non-empty geometries × an empty member of every type at every position — measures, envelope, hull, DE-9IM, predicates, distance and set-operation point sets unchanged. non-trivial = (geometry, inserted empty) pairs; outcomes = distinct methods reached"
	pool := emptyPool(false) // all four coordinate types in both tiers (the whole check takes seconds)
	r.States.Add(int64(len(pool)))
	// 1. every method on every empty receiver
	argGeoms := pool
	if len(argGeoms) > 24 {
		argGeoms = pool[:24]
	}
	var zeroTr, gcTr map[string]string
	for i, g := range pool {
		var tr map[string]string
		if i == 0 || i == 7 {
			tr = map[string]string{}
		}
		callAll(r, reflect.ValueOf(g), "Geometry:"+g.AsText(), argGeoms, tr)
		if i == 0 {
			zeroTr = tr
		}
		if i == 7 {
			gcTr = tr
		}
		if i < 8 || i%3 == 0 {
			callAll(r, concrete(g), fmt.Sprintf("%s:%s", concrete(g).Type().Name(), g.AsText()), argGeoms[:8], nil)
		}
	}
	callAll(r, reflect.ValueOf(geom.Envelope{}), "Envelope{}", argGeoms[:8], nil)
	for _, ct := range allCT {
		callAll(r, reflect.ValueOf(geom.NewSequence(nil, ct)), "Sequence(empty,"+ct.String()+")", argGeoms[:8], nil)
	}
	callAll(r, reflect.ValueOf(geom.Sequence{}), "Sequence{}", argGeoms[:8], nil)
	// zero Geometry ≡ GeometryCollection{}.AsGeometry() on every callee
	var keys []string
	for k := range zeroTr {
		keys = append(keys, k)
	}
	sort.Strings(keys)
	for _, k := range keys {
		if zeroTr[k] != gcTr[k] {
			r.Violation("C20/zeroGeometry.differsFromEmptyCollection", "call", callCase{"Geometry{} vs GeometryCollection{}.AsGeometry()", k, nil}, zeroTr[k]+" vs "+gcTr[k])
		}
	}
	r.Bound(fmt.Sprintf("every exported method × every argument tuple on %d empty receivers (Geometry and concrete types), Envelope{}, empty Sequences; %d (method, arguments) pairs compared between Geometry{} and GeometryCollection{}", len(pool), len(keys)))
	var un []string
	for k := range unhandledParams.m {
		un = append(un, k)
	}
	sort.Strings(un)
	r.Extra["methods_skipped_no_argument_pool"] = un
	r.Sample("call", callCase{"Geometry:GEOMETRYCOLLECTION EMPTY", "Geometry.Densify", []string{"1"}})
	// 2. free functions over all ordered pairs (empties × empties, empties × non-empty)
	alpha := BuildAlphabet(universe.Identity, 0)
	nonEmpty := []Operand{alpha.Points[4], alpha.Segs[3], alpha.Paths[5], alpha.Polys[7], alpha.Multis[2], alpha.Multis[len(alpha.Multis)-1], alpha.Multis[len(alpha.Multis)-3], alpha.GCs[3], alpha.GCs[len(alpha.GCs)-1]}
	var args []geom.Geometry
	args = append(args, pool...)
	for _, o := range nonEmpty {
		args = append(args, o.G)
	}
	n := len(args)
	if r.Parallel(n*n, func(k int) {
		a, b := args[k/n], args[k%n]
		if !a.IsEmpty() && !b.IsEmpty() {
			return
		}
		for _, f := range c20Binary {
			var res string
			r.Transitions.Add(1)
			r.Evaluations.Add(1)
			c := pairTextCase{f.name, a.AsText(), b.AsText()}
			if p := engine.SafeCall(func() { res = f.fn(a, b) }); p != nil {
				r.Violation("C20/panic:"+f.name, "fn", c, fmt.Sprint(p))
				continue
			}
			if strings.HasPrefix(res, "error:") {
				r.Violation("C20/error:"+f.name, "fn", c, res)
				continue
			}
			// neutral answers
			switch f.name {
			case "Intersection":
				if !strings.Contains(res, "EMPTY") {
					r.Violation("C20/neutral.Intersection", "fn", c, res)
				}
			case "Union", "SymmetricDifference":
				other := a
				if a.IsEmpty() {
					other = b
				}
				if want := fmtGE(geom.UnaryUnion(other)); res != want && !(a.IsEmpty() && b.IsEmpty() && strings.Contains(res, "EMPTY")) {
					r.Violation("C20/neutral."+f.name+".notSelfUnionOfOther", "fn", c, res+" vs "+want)
				}
			case "Difference":
				if a.IsEmpty() {
					if !strings.Contains(res, "EMPTY") {
						r.Violation("C20/neutral.Difference", "fn", c, res)
					}
				} else if want := fmtGE(geom.UnaryUnion(a)); res != want {
					r.Violation("C20/neutral.Difference.notSelfUnion", "fn", c, res+" vs "+want)
				}
			case "Distance":
				if res != "0 false" {
					r.Violation("C20/neutral.Distance", "fn", c, res)
				}
			case "Intersects":
				if res != "false" {
					r.Violation("C20/neutral.Intersects", "fn", c, res)
				}
			case "Relate":
				want := oracle.NewPair(oracle.FromGeom(a), oracle.FromGeom(b)).DE9IM() + "<nil>"
				if res != want {
					r.Violation("C20/neutral.Relate", "fn", c, res+" vs exact "+want)
				}
			case "Disjoint":
				if res != "true" {
					r.Violation("C20/neutral.Disjoint", "fn", c, res)
				}
			case "Equals":
				if (res == "true") != (a.IsEmpty() && b.IsEmpty()) {
					r.Violation("C20/neutral.Equals", "fn", c, res)
				}
			case "Touches", "Contains", "Covers", "Within", "CoveredBy", "Crosses", "Overlaps":
				if res != "false" {
					r.Violation("C20/neutral."+f.name, "fn", c, res)
				}
			}
		}
	}) {
		r.Bound(fmt.Sprintf("%d binary functions × all ordered pairs over %d arguments with at least one empty operand", len(c20Binary), n))
	}
	for _, a := range args {
		for _, f := range c20Unary {
			c := pairTextCase{f.name, a.AsText(), ""}
			var res string
			r.Transitions.Add(1)
			if p := engine.SafeCall(func() { res = f.fn(a) }); p != nil {
				r.Violation("C20/panic:"+f.name, "fn", c, fmt.Sprint(p))
			} else if a.IsEmpty() && f.name != "NewGeometryCollection" && !strings.Contains(res, "EMPTY") {
				r.Violation("C20/neutral."+f.name, "fn", c, res)
			}
		}
	}
	r.Sample("fn", pairTextCase{"Union", "POLYGON EMPTY", alpha.Polys[7].WKT})
	// 3. transparency of empty members
	// bases: every type, chosen so that each interacts (touches, crosses, contains) with the
	// other operands below — every type pair has its own Intersects/Distance routine
	id := universe.Identity
	L := func(p ...universe.LPt) []universe.LPt { return p }
	P := func(x, y int) universe.LPt { return universe.LPt{X: x, Y: y} }
	mp := func(ps ...universe.LPt) geom.Geometry {
		var o []geom.Point
		for _, p := range ps {
			o = append(o, id.Point(p))
		}
		return geom.NewMultiPoint(o).AsGeometry()
	}
	mls := func(ls ...[]universe.LPt) geom.Geometry {
		var o []geom.LineString
		for _, l := range ls {
			o = append(o, id.Line(l))
		}
		return geom.NewMultiLineString(o).AsGeometry()
	}
	sqr := func(x0, y0, x1, y1 int) []universe.LPt {
		return L(P(x0, y0), P(x1, y0), P(x1, y1), P(x0, y1), P(x0, y0))
	}
	baseGeoms := []geom.Geometry{
		id.Point(P(1, 1)).AsGeometry(), id.Point(P(0, 2)).AsGeometry(),
		id.Line(L(P(0, 0), P(2, 2))).AsGeometry(), id.Line(L(P(0, 2), P(2, 0), P(2, 2))).AsGeometry(), id.Line(L(P(0, 1), P(2, 1))).AsGeometry(),
		id.Polygon(sqr(0, 0, 2, 2)).AsGeometry(), id.Polygon(L(P(0, 0), P(2, 0), P(0, 2), P(0, 0))).AsGeometry(), id.Polygon(sqr(1, 1, 3, 3)).AsGeometry(),
		mp(P(1, 1), P(2, 0)), mp(P(0, 0), P(1, 1), P(5, 5)), mp(P(2, 2), P(1, 0)),
		mls(L(P(0, 0), P(2, 2)), L(P(0, 2), P(2, 0))), mls(L(P(0, 1), P(1, 1)), L(P(1, 1), P(1, 2)), L(P(4, 4), P(5, 4))),
		geom.NewMultiPolygon([]geom.Polygon{id.Polygon(sqr(0, 0, 1, 1)), id.Polygon(sqr(1, 1, 2, 2))}).AsGeometry(),
		geom.NewMultiPolygon([]geom.Polygon{id.Polygon(sqr(0, 0, 1, 2)), id.Polygon(sqr(3, 3, 4, 4))}).AsGeometry(),
		geom.NewGeometryCollection([]geom.Geometry{id.Point(P(1, 1)).AsGeometry(), id.Line(L(P(0, 2), P(2, 2))).AsGeometry()}).AsGeometry(),
		geom.NewGeometryCollection([]geom.Geometry{id.Polygon(sqr(0, 0, 1, 1)).AsGeometry(), id.Point(P(2, 2)).AsGeometry(), id.Line(L(P(1, 2), P(2, 1))).AsGeometry()}).AsGeometry(),
		geom.NewGeometryCollection([]geom.Geometry{geom.NewGeometryCollection([]geom.Geometry{mp(P(1, 1), P(0, 2))}).AsGeometry(), id.Polygon(sqr(3, 0, 4, 1)).AsGeometry()}).AsGeometry(),
	}
	hf := HolesFamily(universe.Identity)
	baseGeoms = append(baseGeoms, hf[0].G, hf[3].G)
	// many members, far from the origin (an empty member must not be read as a point at (0 0)),
	// and a loop drawn by three members (no boundary under the mod-2 rule)
	baseGeoms = append(baseGeoms,
		mls(L(P(10, 10), P(11, 10)), L(P(12, 10), P(13, 11)), L(P(14, 10), P(15, 10)), L(P(10, 12), P(11, 13)), L(P(12, 12), P(13, 12))),
		mp(P(10, 10), P(11, 11), P(12, 10), P(13, 13), P(14, 10)),
		mls(L(P(0, 0), P(2, 0)), L(P(2, 0), P(0, 2)), L(P(0, 2), P(0, 0))),
		// collections whose members are Multi* of one dimension plus a sibling elsewhere (weights per member)
		geom.NewGeometryCollection([]geom.Geometry{mp(P(0, 0)), id.Point(P(4, 0)).AsGeometry()}).AsGeometry(),
		geom.NewGeometryCollection([]geom.Geometry{mp(P(0, 0), P(0, 2)), mp(P(6, 0)), id.Point(P(3, 3)).AsGeometry()}).AsGeometry(),
		geom.NewGeometryCollection([]geom.Geometry{mls(L(P(0, 0), P(2, 0))), id.Line(L(P(5, 5), P(5, 9))).AsGeometry()}).AsGeometry(),
		geom.NewGeometryCollection([]geom.Geometry{geom.NewMultiPolygon([]geom.Polygon{id.Polygon(sqr(0, 0, 1, 1))}).AsGeometry(), id.Polygon(sqr(5, 5, 8, 8)).AsGeometry()}).AsGeometry())
	var bases []Operand
	for _, g := range baseGeoms {
		bases = append(bases, mkOp(g, "base"))
	}
	others := []Operand{mkOp(id.Point(P(1, 1)).AsGeometry(), "o"), mkOp(id.Line(L(P(0, 0), P(2, 2))).AsGeometry(), "o"), mkOp(id.Polygon(sqr(0, 0, 2, 2)).AsGeometry(), "o"),
		mkOp(mp(P(1, 1), P(0, 2)), "o"), mkOp(mls(L(P(0, 2), P(2, 0)), L(P(1, 0), P(1, 2))), "o"),
		mkOp(geom.NewMultiPolygon([]geom.Polygon{id.Polygon(sqr(0, 0, 1, 1)), id.Polygon(sqr(1, 1, 2, 2))}).AsGeometry(), "o"),
		mkOp(geom.NewGeometryCollection([]geom.Geometry{id.Point(P(0, 2)).AsGeometry(), id.Line(L(P(1, 1), P(2, 1))).AsGeometry()}).AsGeometry(), "o"), alpha.Empties[3]}
	if !r.Thorough() {
		others = []Operand{others[0], others[1], others[2], others[3], others[4]}
	}
	// operands that strictly contain every base (no boundary contact: routines that look at one
	// representative point of each member must not stop at an empty member), and one far away
	others = append(others,
		mkOp(id.Polygon(sqr(-3, -3, 9, 9)).AsGeometry(), "o"),
		mkOp(geom.NewMultiPolygon([]geom.Polygon{id.Polygon(sqr(20, 20, 21, 21)), id.Polygon(sqr(-3, -3, 9, 9), sqr(7, 7, 8, 8))}).AsGeometry(), "o"),
		mkOp(geom.NewGeometryCollection([]geom.Geometry{id.Point(P(30, 30)).AsGeometry(), id.Polygon(sqr(-4, -4, 10, 10)).AsGeometry()}).AsGeometry(), "o"),
		mkOp(id.Line(L(P(40, 40), P(41, 45))).AsGeometry(), "o"),
		// operands around the origin that none of the far bases meets
		mkOp(id.Polygon(sqr(-1, -1, 1, 1)).AsGeometry(), "o"),
		mkOp(geom.NewMultiPolygon([]geom.Polygon{id.Polygon(sqr(-2, -2, 0, 0)), id.Polygon(sqr(30, 30, 31, 31))}).AsGeometry(), "o"),
		mkOp(id.Line(L(P(-1, 1), P(1, -1))).AsGeometry(), "o"))
	if r.Parallel(len(bases), func(i int) {
		g := bases[i]
		ref, pnc := observe(g.G, others)
		if pnc != "" {
			r.Violation("C20/transparency.panicOnBase", "transparency", pairTextCase{"observe", g.WKT, ""}, pnc)
			return
		}
		for _, v := range withEmpties(g.G) {
			r.States.Add(1)
			got, pnc := observe(v, others)
			r.Evaluations.Add(1)
			r.Transitions.Add(int64(len(got)))
			c := pairTextCase{"transparency", g.WKT, v.AsText()}
			if pnc != "" {
				r.Violation("C20/transparency.panic", "transparency", c, pnc)
				continue
			}
			for k, want := range ref {
				if got[k] != want {
					name := k[strings.LastIndex(k, " ")+1:]
					r.Violation("C20/transparency."+name, "transparency", c, fmt.Sprintf("%s: %s with the empty member, %s without", k, got[k], want))
					break
				}
			}
			r.Nontrivial(g.WKT + "|" + v.AsText())
		}
	}) {
		r.Bound(fmt.Sprintf("transparency: %d non-empty geometries × an empty member of 10 kinds at every position (and same-typed Multi* variants) × %d other operands", len(bases), len(others)))
	}
	r.Sample("transparency", pairTextCase{"transparency", bases[0].WKT, withEmpties(bases[0].G)[0].AsText()})
}

func c20Replay(r *engine.Run, sub string, raw json.RawMessage) error {
	return fmt.Errorf("C20 cases are reflection call descriptions; re-run ./run.sh C20 quick (deterministic) to reproduce")
}

func init() {
	engine.Register(&engine.Check{ID: "C20", Main: c20Main, Replay: c20Replay})
}

package checks

import (
	"bytes"
	"encoding/json"
	"fmt"
	"math"
	"reflect"
	"strconv"
	"strings"

	"github.com/peterstace/simplefeatures/geom"
	"verif/engine"
	"verif/refcodec"
	"verif/universe"
)

// validSupplier: ordinates of points and lines come from the float alphabet,
// polygons are cell squares under a per-primitive scale/offset drawn from a
// list that keeps them valid in float arithmetic.
type validSupplier struct {
	fl  universe.FloatSupplier
	off int
}

var polyFrames = []struct{ s, ox, oy float64 }{
	{1, 0, 0}, {0.1, 0, 0}, {1.0 / 3, 1e6, -1e6}, {4.4942328371557893e307, 0, 0}, {5e-324, 0, 0}, {1, 9007199254740000, 0}, {123456.78901234567, -0.30000000000000004, 0.1}, {2.2250738585072014e-308, 0, 0},
}

func (v *validSupplier) Prim(idx int, kind byte, ring int, n int) []geom.Coordinates {
	if kind != 'R' {
		return v.fl.Prim(idx, kind, ring, n)
	}
	cs := (&universe.CellSupplier{}).Prim(idx, kind, ring, n)
	f := polyFrames[(idx+v.off)%len(polyFrames)]
	zm := v.fl.Prim(idx, 'L', 0, len(cs))
	for i := range cs {
		cs[i].X = f.ox + f.s*cs[i].X
		cs[i].Y = f.oy + f.s*cs[i].Y
		cs[i].Z, cs[i].M = zm[i].Z, zm[i].M
	}
	cs[len(cs)-1] = cs[0]
	return cs
}

// geojsonExpect applies the losses the format forces.
func geojsonExpect(n refcodec.Node) refcodec.Node {
	has := false
	var walk func(n refcodec.Node)
	walk = func(n refcodec.Node) {
		if len(n.Coords) > 0 {
			has = true
		}
		for _, k := range n.Kids {
			walk(k)
		}
	}
	walk(n)
	ct := geom.DimXY
	if n.CT.Is3D() && has {
		ct = geom.DimXYZ
	}
	var conv func(n refcodec.Node) refcodec.Node
	conv = func(n refcodec.Node) refcodec.Node {
		o := refcodec.Node{T: n.T, CT: ct, Empty: n.Empty}
		for _, c := range n.Coords {
			t := []float64{c[0], c[1]}
			if ct.Is3D() {
				t = append(t, c[2])
			}
			o.Coords = append(o.Coords, t)
		}
		for _, k := range n.Kids {
			if n.T == geom.TypeMultiPoint && k.Empty {
				continue
			}
			o.Kids = append(o.Kids, conv(k))
		}
		if n.T == geom.TypeMultiPoint {
			o.Empty = len(o.Kids) == 0
		}
		return o
	}
	return conv(n)
}

var gjDepth = map[string]int{"Point": 1, "LineString": 2, "MultiPoint": 2, "Polygon": 3, "MultiLineString": 3, "MultiPolygon": 4}
var gjName = map[geom.GeometryType]string{geom.TypePoint: "Point", geom.TypeLineString: "LineString", geom.TypePolygon: "Polygon", geom.TypeMultiPoint: "MultiPoint",
	geom.TypeMultiLineString: "MultiLineString", geom.TypeMultiPolygon: "MultiPolygon", geom.TypeGeometryCollection: "GeometryCollection"}

// rfcCheck validates a decoded JSON value against RFC 7946's geometry schema
// and collects the position numbers in document order.
func rfcCheck(v interface{}, nums *[]string) string {
	obj, ok := v.(map[string]interface{})
	if !ok {
		return "geometry is not an object"
	}
	t, _ := obj["type"].(string)
	if t == "GeometryCollection" {
		if len(obj) != 2 {
			return "GeometryCollection object has extra or missing members"
		}
		gs, ok := obj["geometries"].([]interface{})
		if !ok {
			return "geometries is not an array"
		}
		for _, g := range gs {
			if s := rfcCheck(g, nums); s != "" {
				return s
			}
		}
		return ""
	}
	depth, ok := gjDepth[t]
	if !ok {
		return "unknown type " + t
	}
	if len(obj) != 2 {
		return t + " object has extra or missing members"
	}
	var walk func(v interface{}, d int) string
	walk = func(v interface{}, d int) string {
		arr, ok := v.([]interface{})
		if !ok {
			return "coordinates nesting: expected array"
		}
		if d == 1 {
			if len(arr) != 2 && len(arr) != 3 && !(t == "Point" && len(arr) == 0) {
				return fmt.Sprintf("position with %d elements", len(arr))
			}
			for _, x := range arr {
				n, ok := x.(json.Number)
				if !ok {
					return "position element is not a number"
				}
				*nums = append(*nums, n.String())
			}
			return ""
		}
		for _, x := range arr {
			if s := walk(x, d-1); s != "" {
				return s
			}
		}
		return ""
	}
	return walk(obj["coordinates"], depth)
}

func expectedNums(n refcodec.Node, out *[]float64) {
	threeD := n.CT.Is3D()
	for _, c := range n.Coords {
		*out = append(*out, c[0], c[1])
		if threeD {
			*out = append(*out, c[2])
		}
	}
	for _, k := range n.Kids {
		if n.T == geom.TypeMultiPoint && k.Empty {
			continue
		}
		expectedNums(k, out)
	}
}

type unmarshaler interface{ UnmarshalJSON([]byte) error }

func c06Geom(r *engine.Run, g geom.Geometry, c shapeCase) {
	bad := func(k, d string) { r.Violation("C06/"+k, "shape", c, d) }
	n := refcodec.Describe(g)
	var js []byte
	var err error
	r.Transitions.Add(1)
	if p := engine.SafeCall(func() { js, err = g.MarshalJSON() }); p != nil || err != nil {
		bad("MarshalJSON.panicOrError", fmt.Sprint(p, err))
		return
	}
	dec := json.NewDecoder(bytes.NewReader(js))
	dec.UseNumber()
	var v interface{}
	if err := dec.Decode(&v); err != nil || dec.More() {
		bad("MarshalJSON.invalidJSON", fmt.Sprint(err, " in ", string(js)))
		return
	}
	var nums []string
	if s := rfcCheck(v, &nums); s != "" {
		bad("MarshalJSON.rfc7946", s+" in "+string(js))
		return
	}
	// numbers in the document are the XY(Z) ordinates, bit for bit, in order
	var wantNums []float64
	expectedNums(n, &wantNums)
	if len(nums) != len(wantNums) {
		bad("MarshalJSON.positions", fmt.Sprintf("%d numbers, expected %d in %s", len(nums), len(wantNums), js))
	} else {
		for i := range nums {
			f, err := strconv.ParseFloat(nums[i], 64)
			if err != nil || math.Float64bits(f) != math.Float64bits(wantNums[i]) && !(f == 0 && wantNums[i] == 0 && math.Signbit(f) == math.Signbit(wantNums[i])) {
				bad("MarshalJSON.ordinate", fmt.Sprintf("number %d is %s, expected %v", i, nums[i], wantNums[i]))
				break
			}
		}
	}
	want := geojsonExpect(n)
	var g2 geom.Geometry
	r.Transitions.Add(1)
	r.Evaluations.Add(1)
	if p := engine.SafeCall(func() { g2, err = geom.UnmarshalGeoJSON(js) }); p != nil || err != nil {
		bad("roundtrip.rejectsOwnOutput", fmt.Sprint(p, err, " in ", string(js)))
		return
	}
	if d := refcodec.Diff(want, refcodec.Describe(g2)); d != "" {
		bad("roundtrip.notIdentical", d+" in "+string(js))
	}
	// decoding into a concrete type succeeds iff the type matches
	dsts := []unmarshaler{new(geom.GeometryCollection), new(geom.Point), new(geom.LineString), new(geom.Polygon), new(geom.MultiPoint), new(geom.MultiLineString), new(geom.MultiPolygon)}
	for i, d := range dsts {
		r.Transitions.Add(1)
		err := d.UnmarshalJSON(js)
		if (err == nil) != (geom.GeometryType(i) == g.Type()) {
			bad("concreteDecode", fmt.Sprintf("into %T: %v", d, err))
		}
	}
	var viaStd geom.Geometry
	if err := json.Unmarshal(js, &viaStd); err != nil {
		bad("Geometry.UnmarshalJSON", err.Error())
	} else if d := refcodec.Diff(want, refcodec.Describe(viaStd)); d != "" {
		bad("Geometry.UnmarshalJSON.notIdentical", d)
	}
	// a receiver that already holds something else (decoding a stream into one variable):
	// the result is the decoded document, nothing of the previous value
	used := geom.NewGeometryCollection([]geom.Geometry{geom.NewPointXYZ(9, 9, 9).AsGeometry(), geom.NewLineStringXY(7, 7, 8, 8).AsGeometry()}).AsGeometry()
	if err := json.Unmarshal(js, &used); err != nil {
		bad("Geometry.UnmarshalJSON.reusedReceiver", err.Error())
	} else if d := refcodec.Diff(want, refcodec.Describe(used)); d != "" {
		bad("Geometry.UnmarshalJSON.reusedReceiver.notIdentical", d)
	}
	if g.Type() == geom.TypeMultiPoint {
		prev := geom.NewMultiPoint([]geom.Point{geom.NewPointXY(9, 9), geom.NewPointXY(8, 8), geom.NewPointXY(7, 7)})
		if err := prev.UnmarshalJSON(js); err != nil || refcodec.Diff(want, refcodec.Describe(prev.AsGeometry())) != "" {
			bad("MultiPoint.UnmarshalJSON.reusedReceiver", fmt.Sprint(err, prev.AsText()))
		}
	}
	if g.Type() == geom.TypeGeometryCollection {
		prev := geom.NewGeometryCollection([]geom.Geometry{geom.NewPointXY(9, 9).AsGeometry()})
		if err := prev.UnmarshalJSON(js); err != nil || refcodec.Diff(want, refcodec.Describe(prev.AsGeometry())) != "" {
			bad("GeometryCollection.UnmarshalJSON.reusedReceiver", fmt.Sprint(err, prev.AsText()))
		}
	}
}

// ---- documents from a grammar ----------------------------------------------------

type gjTemplate struct {
	typ  string
	path [][]int // index path of each position inside "coordinates"
	xy   [][2]float64
}

var gjTemplates = []gjTemplate{
	{"Point", [][]int{{}}, [][2]float64{{1, 2}}},
	{"LineString", [][]int{{0}, {1}, {2}}, [][2]float64{{0, 0}, {1, 1}, {2, 0}}},
	{"MultiPoint", [][]int{{0}, {1}}, [][2]float64{{3, 4}, {5, 6}}},
	{"Polygon", [][]int{{0, 0}, {0, 1}, {0, 2}, {0, 3}}, [][2]float64{{0, 0}, {3, 0}, {0, 3}, {0, 0}}},
	{"MultiLineString", [][]int{{0, 0}, {0, 1}, {1, 0}, {1, 1}}, [][2]float64{{0, 0}, {1, 1}, {5, 5}, {6, 7}}},
	{"MultiPolygon", [][]int{{0, 0, 0}, {0, 0, 1}, {0, 0, 2}, {0, 0, 3}}, [][2]float64{{0, 0}, {3, 0}, {0, 3}, {0, 0}}},
}

// render builds the coordinates JSON for a template with the given position
// lengths (lens[i] elements in position i; -1 = null in place of the position).
func (t gjTemplate) coords(lens []int) string {
	pos := func(i int) string {
		if lens[i] < 0 {
			return "null"
		}
		vals := []float64{t.xy[i][0], t.xy[i][1], float64(10 + i), float64(100 + i), float64(1000 + i), 6, 7, 8, 9, 10, 11, 12}
		// closing vertex of a ring must repeat the first one exactly
		if (t.typ == "Polygon" || t.typ == "MultiPolygon") && i == len(t.xy)-1 {
			vals = []float64{t.xy[0][0], t.xy[0][1], 10, 100, 1000, 6, 7, 8, 9, 10, 11, 12}
		}
		var parts []string
		for k := 0; k < lens[i]; k++ {
			parts = append(parts, strconv.FormatFloat(vals[k], 'f', -1, 64))
		}
		return "[" + strings.Join(parts, ",") + "]"
	}
	if t.typ == "Point" {
		return pos(0)
	}
	// group by path prefix
	var build func(prefix []int, depth int) string
	build = func(prefix []int, depth int) string {
		var parts []string
		seen := map[int]bool{}
		for i, p := range t.path {
			if len(p) <= len(prefix) || !hasPrefix(p, prefix) {
				continue
			}
			k := p[len(prefix)]
			if len(p) == len(prefix)+1 {
				parts = append(parts, pos(i))
			} else if !seen[k] {
				seen[k] = true
				parts = append(parts, build(append(append([]int{}, prefix...), k), depth+1))
			}
		}
		return "[" + strings.Join(parts, ",") + "]"
	}
	return build(nil, 0)
}

func hasPrefix(p, prefix []int) bool {
	for i := range prefix {
		if p[i] != prefix[i] {
			return false
		}
	}
	return true
}

// expected outcome of a coordinates document by the property's rules
func (t gjTemplate) expect(lens []int) (accept bool, threeD bool) {
	any2, any3 := false, false
	for _, l := range lens {
		switch {
		case l < 0:
			return false, false // null position: no claim (handled separately)
		case l == 0:
			if t.typ != "Point" {
				return false, false
			}
		case l == 1:
			return false, false
		case l == 2:
			any2 = true
		default:
			any3 = true
		}
	}
	return true, any3 && !any2
}

func (t gjTemplate) node(lens []int, threeD bool) refcodec.Node {
	ct := geom.DimXY
	if threeD {
		ct = geom.DimXYZ
	}
	tup := func(i int) []float64 {
		j := i
		z := float64(10 + i)
		if (t.typ == "Polygon" || t.typ == "MultiPolygon") && i == len(t.xy)-1 {
			j, z = 0, 10
		}
		if threeD {
			return []float64{t.xy[j][0], t.xy[j][1], z}
		}
		return []float64{t.xy[j][0], t.xy[j][1]}
	}
	ls := func(idx ...int) refcodec.Node {
		n := refcodec.Node{T: geom.TypeLineString, CT: ct}
		for _, i := range idx {
			n.Coords = append(n.Coords, tup(i))
		}
		return n
	}
	pt := func(i int) refcodec.Node {
		if lens[i] == 0 {
			return refcodec.Node{T: geom.TypePoint, CT: ct, Empty: true}
		}
		return refcodec.Node{T: geom.TypePoint, CT: ct, Coords: [][]float64{tup(i)}}
	}
	switch t.typ {
	case "Point":
		return pt(0)
	case "LineString":
		return ls(0, 1, 2)
	case "MultiPoint":
		return refcodec.Node{T: geom.TypeMultiPoint, CT: ct, Kids: []refcodec.Node{pt(0), pt(1)}}
	case "Polygon":
		return refcodec.Node{T: geom.TypePolygon, CT: ct, Kids: []refcodec.Node{ls(0, 1, 2, 3)}}
	case "MultiLineString":
		return refcodec.Node{T: geom.TypeMultiLineString, CT: ct, Kids: []refcodec.Node{ls(0, 1), ls(2, 3)}}
	default:
		return refcodec.Node{T: geom.TypeMultiPolygon, CT: ct, Kids: []refcodec.Node{{T: geom.TypePolygon, CT: ct, Kids: []refcodec.Node{ls(0, 1, 2, 3)}}}}
	}
}

func c06Doc(r *engine.Run, doc string, accept bool, want *refcodec.Node, note string) {
	c := map[string]string{"doc": doc, "note": note}
	var g geom.Geometry
	var err error
	r.Transitions.Add(1)
	r.Evaluations.Add(1)
	if p := engine.SafeCall(func() { g, err = geom.UnmarshalGeoJSON([]byte(doc)) }); p != nil {
		r.Violation("C06/doc.panic", "doc", c, fmt.Sprint(p))
		return
	}
	if (err == nil) != accept {
		k := "C06/doc.acceptsInvalid:"
		if accept {
			k = "C06/doc.rejectsValid:"
		}
		r.Violation(k+note, "doc", c, fmt.Sprint(err))
		return
	}
	if accept && want != nil {
		if d := refcodec.Diff(*want, refcodec.Describe(g)); d != "" {
			r.Violation("C06/doc.decodedValue:"+note, "doc", c, d)
		}
	}
	// the other entry points are the same decoder plus a type check: Geometry.UnmarshalJSON agrees
	// with UnmarshalGeoJSON, and a concrete destination accepts exactly the accepted documents of
	// its own type, with the same value
	var viaMethod geom.Geometry
	merr := viaMethod.UnmarshalJSON([]byte(doc))
	if (merr == nil) != accept {
		r.Violation("C06/doc.Geometry.UnmarshalJSON.verdictDiffers:"+note, "doc", c, fmt.Sprint(merr))
	} else if accept {
		if d := refcodec.Diff(refcodec.Describe(g), refcodec.Describe(viaMethod)); d != "" {
			r.Violation("C06/doc.Geometry.UnmarshalJSON.valueDiffers:"+note, "doc", c, d)
		}
	}
	dsts := []unmarshaler{new(geom.GeometryCollection), new(geom.Point), new(geom.LineString), new(geom.Polygon), new(geom.MultiPoint), new(geom.MultiLineString), new(geom.MultiPolygon)}
	for i, dst := range dsts {
		var derr error
		if p := engine.SafeCall(func() { derr = dst.UnmarshalJSON([]byte(doc)) }); p != nil {
			r.Violation("C06/doc.concrete.panic", "doc", c, fmt.Sprintf("%T: %v", dst, p))
			continue
		}
		wantOK := accept && g.Type() == geom.GeometryType(i)
		if (derr == nil) != wantOK {
			r.Violation("C06/doc.concrete.verdict:"+note, "doc", c, fmt.Sprintf("%T: %v (UnmarshalGeoJSON: %v)", dst, derr, err))
		} else if wantOK {
			if d := refcodec.Diff(refcodec.Describe(g), refcodec.Describe(asGeomJSON(dst))); d != "" {
				r.Violation("C06/doc.concrete.value:"+note, "doc", c, fmt.Sprintf("%T: %s", dst, d))
			}
		}
	}
}

func asGeomJSON(u unmarshaler) geom.Geometry {
	switch v := u.(type) {
	case *geom.GeometryCollection:
		return v.AsGeometry()
	case *geom.Point:
		return v.AsGeometry()
	case *geom.LineString:
		return v.AsGeometry()
	case *geom.Polygon:
		return v.AsGeometry()
	case *geom.MultiPoint:
		return v.AsGeometry()
	case *geom.MultiLineString:
		return v.AsGeometry()
	case *geom.MultiPolygon:
		return v.AsGeometry()
	}
	return geom.Geometry{}
}

func c06Documents(r *engine.Run) {
	n := 0
	// 8 and 9 elements: beyond any small fixed-width set a decoder might keep the seen lengths in
	lengths := []int{0, 1, 2, 3, 4, 5, 8, 9}
	for _, t := range gjTemplates {
		np := len(t.xy)
		lens := make([]int, np)
		var rec func(i int)
		rec = func(i int) {
			if i == np {
				acc, threeD := t.expect(lens)
				doc := fmt.Sprintf(`{"type":%q,"coordinates":%s}`, t.typ, t.coords(lens))
				var want *refcodec.Node
				if acc {
					w := t.node(lens, threeD)
					want = &w
				}
				note := "lengths"
				if acc && threeD {
					note = "3D"
				}
				c06Doc(r, doc, acc, want, note)
				n++
				if !acc {
					// a member that is refused alone is refused wherever it stands in a collection, whatever
					// its siblings have already established about the dimension
					p2, p3 := `{"type":"Point","coordinates":[7,8]}`, `{"type":"Point","coordinates":[7,8,9]}`
					ls23 := `{"type":"LineString","coordinates":[[0,0],[1,1,1]]}`
					for _, members := range [][]string{{p2, p3, doc}, {p3, p2, doc}, {ls23, doc}, {doc, p2, p3}, {p2, doc, p3}, {p3, doc}} {
						c06Doc(r, `{"type":"GeometryCollection","geometries":[`+strings.Join(members, ",")+`]}`, false, nil, "refused-member-among-mixed-siblings")
					}
				}
				if acc {
					r.Nontrivial(doc)
					// member order inside the object must not matter
					c06Doc(r, fmt.Sprintf(`{"coordinates":%s,"type":%q}`, t.coords(lens), t.typ), acc, want, "member-order")
					// wrapped in a collection next to a 2D / 3D sibling: dimension is decided document-wide
					for _, sib := range []struct {
						js string
						l  int
					}{{`{"type":"Point","coordinates":[7,8]}`, 2}, {`{"type":"Point","coordinates":[7,8,9]}`, 3}, {`{"type":"Point","coordinates":[]}`, 0}} {
						gcThree := (threeD || allZero(lens)) && sib.l != 2 && (sib.l == 3 || threeD)
						ct := geom.DimXY
						if gcThree {
							ct = geom.DimXYZ
						}
						member := t.node(lens, gcThree)
						sp := refcodec.Node{T: geom.TypePoint, CT: ct}
						switch sib.l {
						case 0:
							sp.Empty = true
						case 2:
							sp.Coords = [][]float64{{7, 8}}
						case 3:
							if gcThree {
								sp.Coords = [][]float64{{7, 8, 9}}
							} else {
								sp.Coords = [][]float64{{7, 8}}
							}
						}
						w := refcodec.Node{T: geom.TypeGeometryCollection, CT: ct, Kids: []refcodec.Node{member, sp}}
						c06Doc(r, fmt.Sprintf(`{"type":"GeometryCollection","geometries":[%s,%s]}`, doc, sib.js), true, &w, "collection-dimension")
					}
				}
				return
			}
			for _, l := range lengths {
				lens[i] = l
				rec(i + 1)
			}
		}
		rec(0)
		// structural deviations from a well-formed document (one at a time)
		good := make([]int, np)
		for i := range good {
			good[i] = 2
		}
		co := t.coords(good)
		for _, d := range []struct{ doc, note string }{
			{fmt.Sprintf(`{"type":%q}`, t.typ), "missing-coordinates"},
			{fmt.Sprintf(`{"coordinates":%s}`, co), "missing-type"},
			{fmt.Sprintf(`{"type":"Unknown","coordinates":%s}`, co), "unknown-type"},
			{fmt.Sprintf(`{"type":"Feature","coordinates":%s}`, co), "feature-as-geometry"},
			{fmt.Sprintf(`{"type":%q,"coordinates":"x"}`, t.typ), "string-coordinates"},
			{fmt.Sprintf(`{"type":%q,"coordinates":{"a":1}}`, t.typ), "object-coordinates"},
			{fmt.Sprintf(`{"type":%q,"coordinates":[[[[[1,2]]]]]}`, t.typ), "too-deep"},
			{fmt.Sprintf(`{"type":%q,"coordinates":%s`, t.typ, co), "truncated"},
			{fmt.Sprintf(`[{"type":%q,"coordinates":%s}]`, t.typ, co), "array-root"},
			{fmt.Sprintf(`{"type":%q,"coordinates":%s}`, t.typ, strings.Replace(co, ",", `,"9",`, 1)), "string-element"},
		} {
			c06Doc(r, d.doc, false, nil, d.note)
			n++
		}
		// well-formed documents whose geometry is invalid: refused by every entry point
		if t.typ == "Point" {
			for _, d := range []string{
				`{"type":"LineString","coordinates":[[1,2]]}`,
				`{"type":"LineString","coordinates":[[1,2],[1,2]]}`,
				`{"type":"Polygon","coordinates":[[[0,0],[3,0],[0,3]]]}`,
				`{"type":"Polygon","coordinates":[[[0,0],[3,0],[0,3],[1,1]]]}`,
				`{"type":"Polygon","coordinates":[[[0,0],[3,3],[3,0],[0,3],[0,0]]]}`,
				`{"type":"Polygon","coordinates":[[[0,0],[3,0],[0,3],[0,0]],[[5,5],[6,5],[5,6],[5,5]]]}`,
				`{"type":"MultiLineString","coordinates":[[[0,0],[1,1]],[[2,2]]]}`,
				`{"type":"MultiPolygon","coordinates":[[[[0,0],[3,0],[0,3],[0,0]]],[[[0,0],[2,0],[0,2],[0,0]]]]}`,
				`{"type":"MultiPolygon","coordinates":[[[[0,0],[3,0],[0,3]]]]}`,
				`{"type":"GeometryCollection","geometries":[{"type":"Point","coordinates":[1,2]},{"type":"LineString","coordinates":[[1,2]]}]}`,
				`{"type":"GeometryCollection","geometries":[{"type":"GeometryCollection","geometries":[{"type":"Polygon","coordinates":[[[0,0],[3,0],[0,3]]]}]}]}`,
			} {
				c06Doc(r, d, false, nil, "invalid-geometry")
				n++
			}
		}
		// a concrete destination of another type must reject a well-formed document
		doc := fmt.Sprintf(`{"type":%q,"coordinates":%s}`, t.typ, co)
		dsts := []unmarshaler{new(geom.GeometryCollection), new(geom.Point), new(geom.LineString), new(geom.Polygon), new(geom.MultiPoint), new(geom.MultiLineString), new(geom.MultiPolygon)}
		for i, dst := range dsts {
			err := dst.UnmarshalJSON([]byte(doc))
			if (err == nil) != (gjName[geom.GeometryType(i)] == t.typ) {
				r.Violation("C06/doc.concreteDecode", "doc", map[string]string{"doc": doc, "note": fmt.Sprintf("%T", dst)}, fmt.Sprint(err))
			}
		}
		// nulls in place of each position and of the whole member: must be total (error or valid geometry)
		for i := 0; i < np; i++ {
			ln := append([]int{}, good...)
			ln[i] = -1
			doc := fmt.Sprintf(`{"type":%q,"coordinates":%s}`, t.typ, t.coords(ln))
			var g geom.Geometry
			var err error
			if p := engine.SafeCall(func() { g, err = geom.UnmarshalGeoJSON([]byte(doc)) }); p != nil {
				r.Violation("C06/doc.panic", "doc", map[string]string{"doc": doc, "note": "null"}, fmt.Sprint(p))
			} else if err == nil && g.Validate() != nil {
				r.Violation("C06/doc.invalidAccepted", "doc", map[string]string{"doc": doc, "note": "null"}, g.AsText())
			}
			n++
		}
	}
	r.States.Add(int64(n))
	r.Bound(fmt.Sprintf("GeoJSON documents: 6 types × every assignment of position lengths 0..5 (%d documents incl. member order, collection siblings, 10 structural deviations, nulls)", n))
	r.Sample("doc", map[string]string{"doc": `{"type":"LineString","coordinates":[[0,0,10,100],[1,1],[2,0,12]]}`, "note": "lengths"})
}

func allZero(l []int) bool {
	for _, x := range l {
		if x != 0 {
			return false
		}
	}
	return true
}

// ---- features ---------------------------------------------------------------------

func jsonNorm(v interface{}) interface{} {
	b, err := json.Marshal(v)
	if err != nil {
		return fmt.Sprint("unmarshalable: ", err)
	}
	var out interface{}
	json.Unmarshal(b, &out)
	if m, ok := out.(map[string]interface{}); ok && len(m) == 0 {
		return nil
	}
	return out
}

func c06Features(r *engine.Run) {
	ids := []interface{}{nil, "a", 7, 1.5, "", -3, true, []interface{}{1, "x"}}
	props := []map[string]interface{}{nil, {}, {"k": []interface{}{1, map[string]interface{}{"x": nil}}}, {"name": "n", "n": 1e21, "neg": -0.5, "u": "é\"\\"},
		{"n": nil, "f": false, "z": 0.0, "s": "", "arr": []interface{}{}, "obj": map[string]interface{}{}}}
	foreign := []map[string]interface{}{nil, {}, {"bbox": []interface{}{0, 0, 1, 1}}, {"a": 1, "b": "t", "nested": map[string]interface{}{"c": []interface{}{}}},
		// names that differ from the reserved members only by letter case are ordinary foreign members
		{"ID": "other"}, {"Id": 7.0, "PROPERTIES": map[string]interface{}{"x": 1.0}}, {"Type": "t", "Geometry": "g"},
		// every JSON value class directly as a member value, the "absent-looking" ones included
		{"n": nil}, {"n": nil, "after": 1.0}, {"f": false, "z": 0.0, "s": "", "arr": []interface{}{}, "obj": map[string]interface{}{}}}
	geoms := []geom.Geometry{geom.NewPointXY(1, 2).AsGeometry(), {}, geom.NewLineStringXYZ(0, 0, 1, 1, 1, 2).AsGeometry(),
		geom.NewGeometryCollection([]geom.Geometry{geom.NewEmptyPoint(geom.DimXYZ).AsGeometry(), geom.NewPointXYZ(1, 2, 3).AsGeometry()}).AsGeometry()}
	var feats []geom.GeoJSONFeature
	n := 0
	check := func(f geom.GeoJSONFeature) {
		c := map[string]interface{}{"id": fmt.Sprint(f.ID), "properties": fmt.Sprint(f.Properties), "foreign": fmt.Sprint(f.ForeignMembers), "geometry": f.Geometry.AsText()}
		n++
		r.Evaluations.Add(1)
		r.Transitions.Add(2)
		var js []byte
		var err error
		if p := engine.SafeCall(func() { js, err = json.Marshal(f) }); p != nil || err != nil {
			r.Violation("C06/feature.marshal", "feature", c, fmt.Sprint(p, err))
			return
		}
		var top map[string]interface{}
		if err := json.Unmarshal(js, &top); err != nil {
			r.Violation("C06/feature.invalidJSON", "feature", c, err.Error()+" in "+string(js))
			return
		}
		if top["type"] != "Feature" || top["geometry"] == nil {
			r.Violation("C06/feature.members", "feature", c, string(js))
		}
		if _, ok := top["properties"]; !ok {
			r.Violation("C06/feature.propertiesMemberMissing", "feature", c, string(js))
		}
		var f2 geom.GeoJSONFeature
		if p := engine.SafeCall(func() { err = json.Unmarshal(js, &f2) }); p != nil || err != nil {
			r.Violation("C06/feature.unmarshalOwnOutput", "feature", c, fmt.Sprint(p, err, " in ", string(js)))
			return
		}
		if d := refcodec.Diff(geojsonExpect(refcodec.Describe(f.Geometry)), refcodec.Describe(f2.Geometry)); d != "" {
			r.Violation("C06/feature.geometry", "feature", c, d)
		}
		wantID := jsonNorm(f.ID)
		if !reflect.DeepEqual(wantID, jsonNorm(f2.ID)) {
			r.Violation("C06/feature.id", "feature", c, fmt.Sprintf("%v vs %v in %s", wantID, f2.ID, js))
		}
		if !reflect.DeepEqual(jsonNorm(f.Properties), jsonNorm(f2.Properties)) {
			r.Violation("C06/feature.properties", "feature", c, fmt.Sprintf("%v vs %v", f.Properties, f2.Properties))
		}
		if !reflect.DeepEqual(jsonNorm(f.ForeignMembers), jsonNorm(f2.ForeignMembers)) {
			r.Violation("C06/feature.foreignMembers", "feature", c, fmt.Sprintf("%v vs %v in %s", f.ForeignMembers, f2.ForeignMembers, js))
		}
		// the same document decoded into a feature that already holds another one
		f3 := geom.GeoJSONFeature{Geometry: geom.NewPointXY(9, 9).AsGeometry(), ID: "old", Properties: map[string]interface{}{"stale": 1.0, "k": "old"}, ForeignMembers: map[string]interface{}{"staleMember": true}}
		if p := engine.SafeCall(func() { err = json.Unmarshal(js, &f3) }); p != nil || err != nil {
			r.Violation("C06/feature.reusedReceiver.unmarshal", "feature", c, fmt.Sprint(p, err))
		} else if refcodec.Diff(refcodec.Describe(f2.Geometry), refcodec.Describe(f3.Geometry)) != "" || !reflect.DeepEqual(jsonNorm(f2.ID), jsonNorm(f3.ID)) ||
			!reflect.DeepEqual(jsonNorm(f2.Properties), jsonNorm(f3.Properties)) || !reflect.DeepEqual(jsonNorm(f2.ForeignMembers), jsonNorm(f3.ForeignMembers)) {
			r.Violation("C06/feature.reusedReceiver.differsFromFreshDecode", "feature", c, fmt.Sprintf("fresh %v / %v / %v, reused %v / %v / %v in %s", f2.ID, f2.Properties, f2.ForeignMembers, f3.ID, f3.Properties, f3.ForeignMembers, js))
		}
		if len(f.ForeignMembers) > 0 || f.ID != nil {
			r.Nontrivial(string(js))
		}
	}
	for _, g := range geoms {
		for _, id := range ids {
			for _, p := range props {
				for _, fm := range foreign {
					f := geom.GeoJSONFeature{Geometry: g, ID: id, Properties: p, ForeignMembers: fm}
					check(f)
					if len(feats) < 40 && (id != nil || fm != nil) {
						feats = append(feats, f)
					}
				}
			}
		}
	}
	r.Sample("feature", map[string]interface{}{"id": 7, "properties": "map[k:[1 map[x:<nil>]]]", "foreign": "map[bbox:[0 0 1 1]]", "geometry": "POINT(1 2)"})
	// collections of 0..2 features (all ordered pairs over the first 12 kept features)
	var none geom.GeoJSONFeatureCollection
	cols := []geom.GeoJSONFeatureCollection{none, {}}
	fs := feats
	if len(fs) > 12 {
		fs = fs[:12]
	}
	for _, a := range fs {
		cols = append(cols, geom.GeoJSONFeatureCollection{a})
		for _, b := range fs {
			cols = append(cols, geom.GeoJSONFeatureCollection{a, b})
		}
	}
	for _, col := range cols {
		n++
		r.Evaluations.Add(1)
		js, err := json.Marshal(col)
		c := map[string]interface{}{"collection": string(js)}
		if err != nil {
			r.Violation("C06/featureCollection.marshal", "fc", c, err.Error())
			continue
		}
		var top map[string]interface{}
		if err := json.Unmarshal(js, &top); err != nil || top["type"] != "FeatureCollection" {
			r.Violation("C06/featureCollection.json", "fc", c, fmt.Sprint(err))
			continue
		}
		if _, ok := top["features"].([]interface{}); !ok {
			r.Violation("C06/featureCollection.featuresNotArray", "fc", c, string(js))
		}
		var col2 geom.GeoJSONFeatureCollection
		if err := json.Unmarshal(js, &col2); err != nil {
			r.Violation("C06/featureCollection.unmarshal", "fc", c, err.Error())
			continue
		}
		if len(col2) != len(col) {
			r.Violation("C06/featureCollection.length", "fc", c, fmt.Sprint(len(col2)))
			continue
		}
		col3 := geom.GeoJSONFeatureCollection{{Geometry: geom.NewPointXY(9, 9).AsGeometry(), ID: "old", Properties: map[string]interface{}{"stale": 1.0}}, {Geometry: geom.NewPointXY(8, 8).AsGeometry()}, {Geometry: geom.NewPointXY(7, 7).AsGeometry()}}
		if err := json.Unmarshal(js, &col3); err != nil || len(col3) != len(col2) {
			r.Violation("C06/featureCollection.reusedReceiver", "fc", c, fmt.Sprint(err, len(col3)))
		} else {
			for i := range col2 {
				if !reflect.DeepEqual(jsonNorm(col2[i].ID), jsonNorm(col3[i].ID)) || !reflect.DeepEqual(jsonNorm(col2[i].Properties), jsonNorm(col3[i].Properties)) ||
					!reflect.DeepEqual(jsonNorm(col2[i].ForeignMembers), jsonNorm(col3[i].ForeignMembers)) || refcodec.Diff(refcodec.Describe(col2[i].Geometry), refcodec.Describe(col3[i].Geometry)) != "" {
					r.Violation("C06/featureCollection.reusedReceiver.member", "fc", c, fmt.Sprint(i, col3[i].ID, col3[i].Properties))
				}
			}
		}
		for i := range col {
			if !reflect.DeepEqual(jsonNorm(col[i].ForeignMembers), jsonNorm(col2[i].ForeignMembers)) || !reflect.DeepEqual(jsonNorm(col[i].Properties), jsonNorm(col2[i].Properties)) ||
				refcodec.Diff(geojsonExpect(refcodec.Describe(col[i].Geometry)), refcodec.Describe(col2[i].Geometry)) != "" {
				r.Violation("C06/featureCollection.member", "fc", c, fmt.Sprint(i))
			}
		}
	}
	// malformed features / collections
	for _, d := range []struct{ doc, note string }{
		{`{"geometry":{"type":"Point","coordinates":[1,2]},"properties":{}}`, "missing-type"},
		{`{"type":"Feature","properties":{}}`, "missing-geometry"},
		{`{"type":"Point","coordinates":[1,2]}`, "geometry-as-feature"},
		{`{"type":"Feature","geometry":{"type":"Point","coordinates":[1]},"properties":{}}`, "bad-geometry"},
		{`{"type":"Feature","geometry":{"type":"Point","coordinates":[1,2]},"properties":[]}`, "properties-array"},
	} {
		var f geom.GeoJSONFeature
		if err := json.Unmarshal([]byte(d.doc), &f); err == nil {
			r.Violation("C06/feature.acceptsMalformed:"+d.note, "featuredoc", map[string]string{"doc": d.doc}, "")
		}
		n++
	}
	for _, d := range []struct{ doc, note string }{
		{`{"features":[]}`, "missing-type"},
		{`{"type":"Feature","features":[]}`, "wrong-type"},
		{`{"type":"FeatureCollection","features":[{"type":"Feature"}]}`, "bad-member"},
	} {
		var fc geom.GeoJSONFeatureCollection
		if err := json.Unmarshal([]byte(d.doc), &fc); err == nil {
			r.Violation("C06/featureCollection.acceptsMalformed:"+d.note, "featuredoc", map[string]string{"doc": d.doc}, "")
		}
		n++
	}
	r.States.Add(int64(n))
	r.Bound(fmt.Sprintf("features: %d geometries × %d ids × %d properties × %d foreign-member sets; feature collections of 0..2 features (%d); malformed features/collections", len(geoms), len(ids), len(props), len(foreign), len(cols)))
}

func c06Main(r *engine.Run) {
	r.Rule = "valid geometries: structural shapes S(d,w) × 4 coordinate types × finite float classes (polygons as cell squares under 8 float frames) — output parsed by encoding/json and walked against the RFC 7946 schema with bit-exact ordinates, round trip compared with a 30-line loss model; documents: every assignment of position lengths {0..5, 8, 9} for 6 types, member order, collection siblings, structural deviations, nulls; features: id × properties × foreign members × geometry and collections of 0..2. non-trivial = geometries with a forced loss or an empty member, accepted documents, features with id/foreign members"
	d, w := 2, 2
	offs := []int{0, 3, 9}
	if r.Thorough() {
		d, w = 3, 2
		offs = nil
		for o := 0; o < len(floatFinite); o++ {
			offs = append(offs, o)
		}
	}
	shapes := universe.Shapes(d, w)
	r.States.Add(int64(len(shapes)))
	var skipped int64
	done := r.Parallel(len(shapes), func(i int) {
		s := shapes[i]
		for _, ct := range allCT {
			for _, o := range offs {
				c := shapeCase{D: d, W: w, Idx: i, Shape: s.String(), CT: int(ct), Sup: "validfloat", Off: o}
				g := universe.Build(s, ct, &validSupplier{fl: universe.FloatSupplier{XYAlpha: floatFinite, ZMAlpha: floatFinite, Off: o}, off: o})
				if g.Validate() != nil {
					skipped++
					continue
				}
				if p := engine.SafeCall(func() { c06Geom(r, g, c) }); p != nil {
					r.Violation("C06/panic", "shape", c, fmt.Sprint(p))
				}
				if i%131 == 0 && ct == geom.DimXYZM && o == offs[0] {
					r.Sample("shape", c)
				}
			}
			if s.HasEmptyMember() || ct.IsMeasured() {
				r.Nontrivial(fmt.Sprint(s.String(), ct))
			}
		}
	})
	r.Extra["invalid_instantiations_skipped"] = skipped
	if done {
		r.Bound(fmt.Sprintf("S(%d,%d) = %d shapes × 4 ctypes × %d float rotations (valid instantiations)", d, w, len(shapes), len(offs)))
	}
	for _, ct := range allCT {
		for i, g := range wideGeoms(ct) {
			c := shapeCase{Idx: i, Shape: fmt.Sprintf("wide #%d (%s)", i, g.Type()), CT: int(ct), Sup: "wide"}
			if g.Validate() != nil {
				continue
			}
			if p := engine.SafeCall(func() { c06Geom(r, g, c) }); p != nil {
				r.Violation("C06/panic", "shape", c, fmt.Sprint(p))
			}
		}
	}
	r.Bound("wide collections (33..500 direct members, 40-member Multi*, collection of collections) × 4 ctypes")
	// numeral classes: values one ulp from a short decimal, float32-exact values, large integers —
	// a writer that takes a shortcut for "nice" numbers must still produce the same float64
	{
		var nums []float64
		for _, base := range []float64{2.899818, 152.599902, 0.3, 1234.5, 7.5e8, 1e-3, 9.999999, 5e5 + 0.25, 6378137, 0.1} {
			nums = append(nums, base, math.Nextafter(base, math.Inf(1)), math.Nextafter(base, math.Inf(-1)))
		}
		nums = append(nums, 1<<60, 9007199254740994, float64(float32(0.1)), 134217728, float64(float32(151.2093)), 1e21, 1e22, 1e-7, math.MaxFloat32, 9.5e18)
		for i := 0; i+2 < len(nums); i++ {
			for gi, g := range []geom.Geometry{geom.NewPointXYZ(nums[i], -nums[i+1], nums[i+2]).AsGeometry(), geom.NewLineStringXY(nums[i], nums[i+1], -nums[i+2], nums[i]).AsGeometry()} {
				c := shapeCase{Idx: -100 - 2*i - gi, Note: fmt.Sprintf("numeral classes %v %v %v", nums[i], nums[i+1], nums[i+2]), Sup: "numerals"}
				if p := engine.SafeCall(func() { c06Geom(r, g, c) }); p != nil {
					r.Violation("C06/panic", "shape", c, fmt.Sprint(p))
				}
			}
		}
		r.Bound(fmt.Sprintf("numeral classes: %d special values (short decimals and their two float64 neighbours, float32-exact values, large integers) as Point Z / LineString ordinates", len(nums)))
	}
	c06Documents(r)
	c06Features(r)
}

func c06Replay(r *engine.Run, sub string, raw json.RawMessage) error {
	switch sub {
	case "shape":
		var c shapeCase
		if err := json.Unmarshal(raw, &c); err != nil {
			return err
		}
		if c.Sup == "wide" {
			g, err := c.build()
			if err != nil {
				return err
			}
			c06Geom(r, g, c)
			return nil
		}
		if c.Sup == "numerals" {
			return fmt.Errorf("numeral-class cases are replayed by re-running the check (%s)", c.Note)
		}
		shapes := universe.Shapes(c.D, c.W)
		g := universe.Build(shapes[c.Idx], geom.CoordinatesType(c.CT), &validSupplier{fl: universe.FloatSupplier{XYAlpha: floatFinite, ZMAlpha: floatFinite, Off: c.Off}, off: c.Off})
		c06Geom(r, g, c)
		return nil
	case "doc":
		var c map[string]string
		if err := json.Unmarshal(raw, &c); err != nil {
			return err
		}
		_, err := geom.UnmarshalGeoJSON([]byte(c["doc"]))
		fmt.Println("decode of recorded document:", err, "(re-run the check for the verdict; the expectation depends on the generator)")
		return nil
	}
	return fmt.Errorf("sub %q has no single-case replay; re-run the check", sub)
}

func init() {
	engine.Register(&engine.Check{ID: "C06", Main: c06Main, Replay: c06Replay})
}

package checks

import (
	"encoding/hex"
	"encoding/json"
	"fmt"
	"math"
	"math/big"
	"sync/atomic"

	"github.com/peterstace/simplefeatures/geom"
	"verif/engine"
	"verif/oracle"
	"verif/refcodec"
	"verif/universe"
)

// frames turn cell lattice coordinates into ordinates k/10^q that sit on
// grids, on rounding ties and in between for various precisions.
var twkbFrames = []struct{ s, o float64 }{
	{1, 0}, {0.5, 0}, {0.05, 0.1}, {1.5, -7.5}, {123.456, 1000.001}, {100000, 250000}, {0.0015, 0}, {0.1, 0.3}, {12500000, -50000000},
}

type twkbSupplier struct {
	frame int
	cell  universe.CellSupplier
	// distinctClose: the closing vertex of every ring repeats the first vertex's XY but carries
	// its own Z/M (legal: rings are closed in XY). TWKB stores rings open unless TWKBCloseRings is
	// given, so without that option the closing Z/M cannot survive; with it, it must.
	distinctClose bool
}

func (t *twkbSupplier) Prim(idx int, kind byte, ring int, n int) []geom.Coordinates {
	cs := t.cell.Prim(idx, kind, ring, n)
	f := twkbFrames[t.frame]
	for i := range cs {
		cs[i].X = cs[i].X*f.s + f.o
		cs[i].Y = cs[i].Y*f.s + f.o
		cs[i].Z = (cs[i].Z-1000)*f.s + f.o
		cs[i].M = (cs[i].M-2000)*f.s - f.o
	}
	if kind == 'R' {
		last := cs[len(cs)-1]
		cs[len(cs)-1] = cs[0]
		if t.distinctClose {
			cs[len(cs)-1].Z, cs[len(cs)-1].M = last.Z+77*f.s, last.M-33*f.s
		}
	}
	return cs
}

type twkbCase struct {
	D, W, Idx     int
	Shape         string
	CT            int
	Frame         int
	PrecXY        int
	PrecZ, PrecM  int
	Size, BBox    bool
	Close         bool
	IDs           []int64
	DistinctClose bool
	Wide          bool   `json:"wide,omitempty"`  // Idx addresses wideGeoms(CT) instead of a structural shape
	Delta         *int64 `json:"delta,omitempty"` // Idx addresses deltaGeoms(*Delta, PrecXY) instead of a structural shape
	Hex           string `json:"hex,omitempty"`
}

var roundingCollapsed atomic.Int64

func pow10Rat(p int) *big.Rat {
	r := new(big.Rat).SetInt64(1)
	ten := new(big.Rat).SetInt64(10)
	for i := 0; i < p; i++ {
		r.Mul(r, ten)
	}
	for i := 0; i > p; i-- {
		r.Quo(r, ten)
	}
	return r
}

// roundedOK: d is the float nearest to m/10^p for an integer m with
// |m − x·10^p| ≤ ½ (+ 2^-50 relative slack for the float product the encoder forms).
func roundedOK(x, d float64, p int) bool {
	if math.IsNaN(d) || math.IsInf(d, 0) {
		return false
	}
	S := pow10Rat(p)
	t := new(big.Rat).Mul(new(big.Rat).SetFloat64(x), S)
	fl := new(big.Int).Div(t.Num(), t.Denom()) // floor for positive denominators
	half := big.NewRat(1, 2)
	slack := new(big.Rat).Abs(t)
	if slack.Cmp(big.NewRat(1, 1)) < 0 {
		slack.SetInt64(1)
	}
	slack.Mul(slack, new(big.Rat).SetFrac(big.NewInt(1), new(big.Int).Lsh(big.NewInt(1), 50)))
	lim := new(big.Rat).Add(half, slack)
	for _, dm := range []int64{0, 1} {
		m := new(big.Int).Add(fl, big.NewInt(dm))
		diff := new(big.Rat).Sub(new(big.Rat).SetInt(m), t)
		if diff.Abs(diff).Cmp(lim) > 0 {
			continue
		}
		want, _ := new(big.Rat).Quo(new(big.Rat).SetInt(m), S).Float64()
		if want == d {
			return true
		}
	}
	return false
}

func hasOrdinates(n refcodec.Node) bool {
	if len(n.Coords) > 0 {
		return true
	}
	for _, k := range n.Kids {
		if hasOrdinates(k) {
			return true
		}
	}
	return false
}

// normEmpty replaces every sub-geometry without ordinates by the plain empty
// geometry of its type (the structure of something that has no ordinate cannot
// be carried by the format). dropEmptyPts removes empty Points from MultiPoints.
func normEmpty(n refcodec.Node) refcodec.Node {
	if !hasOrdinates(n) {
		return refcodec.Node{T: n.T, CT: n.CT, Empty: true}
	}
	o := n
	o.Kids = nil
	for _, k := range n.Kids {
		if n.T == geom.TypeMultiPoint && k.Empty {
			continue
		}
		o.Kids = append(o.Kids, normEmpty(k))
	}
	return o
}

func hasEmptyPointInMultiPoint(n refcodec.Node) bool {
	if n.T == geom.TypeMultiPoint && hasOrdinates(n) {
		for _, k := range n.Kids {
			if k.Empty {
				return true
			}
		}
	}
	for _, k := range n.Kids {
		if hasEmptyPointInMultiPoint(k) {
			return true
		}
	}
	return false
}

// compareRounded walks expected (original) and decoded nodes.
func compareRounded(a, b refcodec.Node, pxy, pz, pm int, path string, openRings, isRing bool) string {
	if a.T != b.T {
		return fmt.Sprintf("%s: type %v vs %v", path, a.T, b.T)
	}
	if a.CT != b.CT {
		return fmt.Sprintf("%s: coordinates type %v decoded as %v", path, a.CT, b.CT)
	}
	if a.Empty != b.Empty {
		return fmt.Sprintf("%s: empty %v vs %v", path, a.Empty, b.Empty)
	}
	if len(a.Coords) != len(b.Coords) {
		return fmt.Sprintf("%s: %d points decoded as %d", path, len(a.Coords), len(b.Coords))
	}
	for i := range a.Coords {
		for j := range a.Coords[i] {
			p := pxy
			if j >= 2 {
				if a.CT == geom.DimXYM || (a.CT == geom.DimXYZM && j == 3) {
					p = pm
				} else {
					p = pz
				}
			}
			if openRings && isRing && j >= 2 && i == len(a.Coords)-1 && roundedOK(a.Coords[0][j], b.Coords[i][j], p) {
				continue // ring stored open: the closing vertex comes back as a copy of the first
			}
			if !roundedOK(a.Coords[i][j], b.Coords[i][j], p) {
				return fmt.Sprintf("%s: point %d ordinate %d: %v decoded as %v at %d places", path, i, j, a.Coords[i][j], b.Coords[i][j], p)
			}
		}
	}
	if len(a.Kids) != len(b.Kids) {
		return fmt.Sprintf("%s: %d members decoded as %d", path, len(a.Kids), len(b.Kids))
	}
	for i := range a.Kids {
		if d := compareRounded(a.Kids[i], b.Kids[i], pxy, pz, pm, fmt.Sprintf("%s/%d", path, i), openRings, a.T == geom.TypePolygon); d != "" {
			return d
		}
	}
	return ""
}

func ranges(n refcodec.Node, lo, hi []float64, seen *bool) {
	for _, c := range n.Coords {
		for j, v := range c {
			if !*seen || v < lo[j] {
				lo[j] = v
			}
			if !*seen || v > hi[j] {
				hi[j] = v
			}
		}
		*seen = true
	}
	for _, k := range n.Kids {
		ranges(k, lo, hi, seen)
	}
}

func numMembers(g geom.Geometry) (int, bool) {
	switch g.Type() {
	case geom.TypeMultiPoint, geom.TypeMultiLineString, geom.TypeMultiPolygon, geom.TypeGeometryCollection:
		return len(members(g)), true
	}
	return 0, false
}

func c07One(r *engine.Run, g geom.Geometry, c twkbCase) {
	bad := func(k, d string) { r.Violation("C07/"+k, "twkb", c, d) }
	n := refcodec.Describe(g)
	opts := []geom.TWKBWriterOption{geom.TWKBPrecisionZ(c.PrecZ), geom.TWKBPrecisionM(c.PrecM)}
	if c.Size {
		opts = append(opts, geom.TWKBSizeHeader())
	}
	if c.BBox {
		opts = append(opts, geom.TWKBBoundingBoxHeader())
	}
	if c.Close {
		opts = append(opts, geom.TWKBCloseRings())
	}
	if c.IDs != nil {
		opts = append(opts, geom.TWKBIDList(c.IDs))
	}
	var enc []byte
	var err error
	r.Transitions.Add(1)
	r.Evaluations.Add(1)
	if p := engine.SafeCall(func() { enc, err = geom.MarshalTWKB(g, c.PrecXY, opts...) }); p != nil {
		bad("marshal.panic", fmt.Sprint(p))
		return
	}
	ct := g.CoordinatesType()
	precOK := c.PrecXY >= -8 && c.PrecXY <= 7 && (!ct.Is3D() || (c.PrecZ >= 0 && c.PrecZ <= 7)) && (!ct.IsMeasured() || (c.PrecM >= 0 && c.PrecM <= 7))
	if !precOK {
		if err == nil {
			bad("marshal.acceptsOutOfRangePrecision", hex.EncodeToString(enc))
		}
		return
	}
	nm, multi := numMembers(g)
	idsOK := len(c.IDs) == 0 || (multi && len(c.IDs) == nm)
	if idsOK && len(c.IDs) > 0 && !hasOrdinates(n) {
		// e.g. MULTILINESTRING(EMPTY) with one ID: the count matches but the
		// empty encoding cannot carry the list; refusing and dropping are both
		// within the tolerated loss for a geometry without ordinates.
		if err != nil {
			return
		}
	}
	if !idsOK {
		if err == nil {
			kind := "onTypeWithoutMembers"
			if multi {
				kind = "wrongCount"
				if nm == 0 || !hasOrdinates(n) {
					kind = "onEmptyCollection"
				}
			}
			bad("marshal.acceptsMismatchedIDList:"+kind, hex.EncodeToString(enc))
		}
		return
	}
	emptyPt := hasEmptyPointInMultiPoint(n)
	if err != nil {
		if emptyPt {
			return // refusing what the format cannot express is allowed
		}
		bad("marshal.error", err.Error())
		return
	}
	c.Hex = hex.EncodeToString(enc)
	var g2 geom.Geometry
	r.Transitions.Add(1)
	if p := engine.SafeCall(func() { g2, err = geom.UnmarshalTWKB(enc) }); p != nil {
		bad("unmarshal.panic", fmt.Sprint(p))
		return
	}
	if err != nil {
		// Rounding may collapse a valid geometry into an invalid one (e.g. all
		// vertices of a line onto one grid point); then the validating decode
		// must fail and the comparison is made on the unvalidated decode.
		var g3 geom.Geometry
		g3, err3 := geom.UnmarshalTWKB(enc, geom.NoValidate{})
		if err3 != nil {
			bad("unmarshal.rejectsOwnOutput", err.Error())
			return
		}
		if ok, _ := oracle.Valid(g3); ok {
			bad("unmarshal.rejectsOwnOutput(validGeometry)", err.Error())
			return
		}
		// a precision that destroys the validity of g is not an admissible
		// one for g; nothing further is claimed about this case
		roundingCollapsed.Add(1)
		return
	}
	n2 := refcodec.Describe(g2)
	if s := refcodec.Consistent(n2); s != "" {
		bad("decoded.inconsistentCoordinatesType", s)
		return
	}
	want, got := normEmpty(n), normEmpty(n2)
	if !hasOrdinates(n) {
		// nothing but structure: may come back as the plain empty geometry of the same type
		if got.T != want.T || !got.Empty {
			bad("roundtrip.emptyGeometry", got.String())
		}
	} else if d := compareRounded(want, got, c.PrecXY, c.PrecZ, c.PrecM, "root", !c.Close, false); d != "" {
		k := "roundtrip"
		if emptyPt {
			k = "roundtrip.emptyPointInMultiPoint"
		}
		bad(k, d)
		return
	}
	// ---- headers, read by the independent varint-level reader ----
	ref, rerr := refcodec.ReadTWKB(enc)
	if rerr != nil {
		bad("reference.cannotRead", rerr.Error())
		return
	}
	if ref.End != len(enc) && hasOrdinates(n) {
		bad("encoding.trailingBytes", fmt.Sprintf("geometry ends at %d of %d bytes", ref.End, len(enc)))
	}
	var chkSize func(t refcodec.TWKBGeom, path string)
	chkSize = func(t refcodec.TWKBGeom, path string) {
		if t.IsEmpty {
			return
		}
		if t.HasSize != c.Size {
			bad("header.sizeFlag", path)
		} else if t.HasSize && int(t.Size) != t.End-t.SizeEnd {
			bad("header.size", fmt.Sprintf("%s: size %d but %d bytes follow", path, t.Size, t.End-t.SizeEnd))
		}
		for i, k := range t.Kids {
			chkSize(k, fmt.Sprintf("%s/%d", path, i))
		}
	}
	chkSize(ref, "root")
	sz, hasSz, serr := geom.UnmarshalTWKBSize(enc)
	if serr != nil || hasSz != ref.HasSize || (hasSz && sz != len(enc)) {
		bad("UnmarshalTWKBSize", fmt.Sprint(sz, hasSz, serr))
	}
	ids, hasIDs, ierr := geom.UnmarshalTWKBIDList(enc)
	wantIDs := len(c.IDs) > 0 && hasOrdinates(n)
	if ierr != nil || hasIDs != wantIDs || hasIDs != ref.HasIDs {
		bad("UnmarshalTWKBIDList.presence", fmt.Sprint(ids, hasIDs, ierr))
	} else if hasIDs {
		if fmt.Sprint(ids) != fmt.Sprint(c.IDs) || fmt.Sprint(ref.IDs) != fmt.Sprint(c.IDs) {
			bad("idList.notVerbatim", fmt.Sprint(ids, ref.IDs))
		}
	}
	ext, hasEnv, eerr := geom.UnmarshalTWKBEnvelope(enc)
	if eerr != nil {
		bad("UnmarshalTWKBEnvelope.error", eerr.Error())
		return
	}
	if hasOrdinates(n) {
		if hasEnv != c.BBox || ref.HasBBox != c.BBox {
			bad("header.bboxFlag", fmt.Sprint(hasEnv, ref.HasBBox))
		} else if c.BBox {
			dims := ct.Dimension()
			lo, hi := make([]float64, dims), make([]float64, dims)
			seen := false
			ranges(n2, lo, hi, &seen)
			precs := []int{c.PrecXY, c.PrecXY}
			if ct.Is3D() {
				precs = append(precs, c.PrecZ)
			}
			if ct.IsMeasured() {
				precs = append(precs, c.PrecM)
			}
			for d := 0; d < dims; d++ {
				S := pow10Rat(precs[d])
				bmin, _ := new(big.Rat).Quo(new(big.Rat).SetInt64(ref.BBox[2*d]), S).Float64()
				bmax, _ := new(big.Rat).Quo(new(big.Rat).SetInt64(ref.BBox[2*d]+ref.BBox[2*d+1]), S).Float64()
				if bmin != lo[d] || bmax != hi[d] {
					bad("header.bbox", fmt.Sprintf("dimension %d: header [%v, %v], decoded geometry [%v, %v]", d, bmin, bmax, lo[d], hi[d]))
					break
				}
			}
			mn, mx, ok := ext.XYEnvelope.MinMaxXYs()
			if !ok || mn.X != lo[0] || mn.Y != lo[1] || mx.X != hi[0] || mx.Y != hi[1] {
				bad("UnmarshalTWKBEnvelope.xy", ext.XYEnvelope.String())
			}
			zi := 2
			if ct.Is3D() {
				a, b, ok := ext.ZRange.MinMax()
				if !ok || a != lo[zi] || b != hi[zi] {
					bad("UnmarshalTWKBEnvelope.z", fmt.Sprint(a, b, ok))
				}
				zi++
			}
			if ct.IsMeasured() {
				a, b, ok := ext.MRange.MinMax()
				if !ok || a != lo[zi] || b != hi[zi] {
					bad("UnmarshalTWKBEnvelope.m", fmt.Sprint(a, b, ok))
				}
			}
		}
	}
}

func c07Main(r *engine.Run) {
	r.Rule = "valid geometries: structural shapes S(d,w) × 4 coordinate types × 9 ordinate frames (k/10^q on grids, on rounding ties, in between, negative, large) × XY precision × Z/M precision × every subset of {size, bbox, close rings} × ID lists (exact length, off by one, on types without members); round trip compared with exact rational rounding, headers read by an independent varint-level reader and compared with the decoded geometry and with the header-only readers. non-trivial = cases with a header option and (a collection, an empty member or a tie ordinate)"
	d, w := 1, 2
	precXY := []int{-2, 0, 3}
	precZM := [][2]int{{0, 0}, {2, 5}}
	frames := []int{0, 1, 3, 5, 7} // 7: tenths (not dyadic: sums and differences of descaled values round)
	if r.Thorough() {
		d, w = 2, 2
		precXY = []int{-9, -8, -5, -2, -1, 0, 1, 2, 3, 5, 7, 8}
		precZM = [][2]int{{0, 0}, {2, 5}, {7, 3}, {-1, 0}, {0, 8}, {3, 7}}
		frames = []int{0, 1, 2, 3, 4, 5, 6, 7, 8}
	}
	shapes := universe.Shapes(d, w)
	r.States.Add(int64(len(shapes)))
	done := r.Parallel(len(shapes), func(i int) {
		s := shapes[i]
		for _, ct := range allCT {
			for _, fr := range frames {
				for _, dc := range []bool{false, true} {
					if dc && (!ct.Is3D() && !ct.IsMeasured() || fr > 1) {
						continue
					}
					g := universe.Build(s, ct, &twkbSupplier{frame: fr, distinctClose: dc})
					if g.Validate() != nil {
						continue
					}
					nm, multi := numMembers(g)
					idsets := [][]int64{nil}
					if multi {
						ids := make([]int64, nm)
						for k := range ids {
							ids[k] = int64(k*k*1000003-7) * int64(1-2*(k%2))
						}
						idsets = append(idsets, ids, append(append([]int64{}, ids...), 99))
						if nm > 0 {
							idsets = append(idsets, ids[:nm-1])
						}
					} else {
						idsets = append(idsets, []int64{5})
					}
					for _, pxy := range precXY {
						// keep |x·10^p| below 2^50 (int64 deltas and exact float products are outside the domain beyond)
						if math.Abs(twkbFrames[fr].s*64+math.Abs(twkbFrames[fr].o))*math.Pow10(pxy) > 1<<50 {
							continue
						}
						for pi, pzm := range precZM {
							if math.Abs(twkbFrames[fr].s*64+math.Abs(twkbFrames[fr].o))*math.Pow10(maxInt(pzm[0], pzm[1])) > 1<<50 {
								continue
							}
							for mask := 0; mask < 8; mask++ {
								if pi >= 2 && mask != 0 && mask != 7 {
									continue // further Z/M precision pairs × {no options, all options}
								}
								for ii, ids := range idsets {
									if ii > 0 && mask != 0 && mask != 7 {
										continue // ID lists × {no options, all options}
									}
									c := twkbCase{D: d, W: w, Idx: i, Shape: s.String(), CT: int(ct), Frame: fr, PrecXY: pxy, PrecZ: pzm[0], PrecM: pzm[1],
										Size: mask&1 != 0, BBox: mask&2 != 0, Close: mask&4 != 0, IDs: ids, DistinctClose: dc}
									if p := engine.SafeCall(func() { c07One(r, g, c) }); p != nil {
										r.Violation("C07/panic", "twkb", c, fmt.Sprint(p))
									}
								}
							}
						}
					}
				}
			}
			if s.HasEmptyMember() || s.Depth() >= 1 {
				r.Nontrivial(fmt.Sprint(s.String(), ct))
			}
		}
		if i%97 == 0 {
			r.Sample("twkb", twkbCase{D: d, W: w, Idx: i, Shape: s.String(), CT: 3, Frame: 1, PrecXY: 0, PrecZ: 2, PrecM: 5, Size: true, BBox: true})
		}
	})
	// wide collections (33..500 direct members): counts, ID lists and sizes beyond one varint byte
	for _, ct := range allCT {
		for i, g := range wideGeoms(ct) {
			nm, _ := numMembers(g)
			ids := make([]int64, nm)
			for k := range ids {
				ids[k] = int64(k*37 - 1000)
			}
			for _, pxy := range []int{0, 2} {
				for mask := 0; mask < 8; mask += 7 {
					for _, idl := range [][]int64{nil, ids} {
						c := twkbCase{Idx: i, Shape: fmt.Sprintf("wide #%d (%s, %d members)", i, g.Type(), nm), CT: int(ct), PrecXY: pxy, PrecZ: 1, PrecM: 1,
							Size: mask&1 != 0, BBox: mask&2 != 0, Close: mask&4 != 0, IDs: idl, Wide: true}
						if p := engine.SafeCall(func() { c07One(r, g, c) }); p != nil {
							r.Violation("C07/panic", "twkb", c, fmt.Sprint(p))
						}
					}
				}
			}
		}
	}
	r.Bound("wide collections (33..500 direct members) × 4 ctypes × precisions {0,2} × {no options, all options} × {no IDs, full ID list}")
	// varint boundaries: every scaled-integer delta in -300..300 and within ±2 of ±2^(7k-1), k = 1..6 (where
	// the zigzag varint grows by a byte), as the first value (relative to 0), as a step up and as a step
	// down, in X, Y, Z and M at once with different signs
	ds := deltaValues(r.Thorough())
	if r.Parallel(len(ds), func(i int) {
		d := ds[i]
		for _, p := range []int{0, 1} {
			for gi, g := range deltaGeoms(d, p) {
				for mask := 0; mask < 8; mask += 7 {
					dd := d
					c := twkbCase{Idx: gi, Shape: fmt.Sprintf("delta %d #%d", d, gi), CT: int(geom.DimXYZM), PrecXY: p, PrecZ: p, PrecM: p,
						Size: mask&1 != 0, BBox: mask&2 != 0, Close: mask&4 != 0, Delta: &dd}
					if pn := engine.SafeCall(func() { c07One(r, g, c) }); pn != nil {
						r.Violation("C07/panic", "twkb", c, fmt.Sprint(pn))
					}
				}
			}
		}
	}) {
		r.Bound(fmt.Sprintf("varint boundaries: %d scaled deltas (all of -300..300, ±2 around ±2^6, 2^13, 2^20, 2^27, 2^34, 2^41) × {Point, LineString, Polygon, MultiPoint, collection} ZM × precision {0,1} × {no options, all options}", len(ds)))
	}
	r.Extra["cases_where_rounding_made_the_geometry_invalid"] = roundingCollapsed.Load()
	if done {
		r.Bound(fmt.Sprintf("S(%d,%d) = %d shapes × 4 ctypes × %d frames × precXY %v × precZ/M %v × 8 option subsets × ID lists", d, w, len(shapes), len(frames), precXY, precZM))
	}
}

func deltaValues(thorough bool) []int64 {
	var ds []int64
	lim := int64(300)
	if thorough {
		lim = 20000 // past the two-to-three byte boundary at ±8192
	}
	for d := -lim; d <= lim; d++ {
		ds = append(ds, d)
	}
	for _, k := range []uint{6, 13, 20, 27, 34, 41} {
		for e := int64(-2); e <= 2; e++ {
			ds = append(ds, (1<<k)+e, -(1<<k)+e)
		}
	}
	return ds
}

// deltaGeoms: ZM geometries whose consecutive scaled ordinates differ by exactly d (X), -d (Y), d+1 (Z)
// and 1-d (M), the first point being d away from 0; ordinates are k/10^p.
func deltaGeoms(d int64, p int) []geom.Geometry {
	sc := math.Pow10(p)
	pt := func(kx, ky, kz, km int64) geom.Coordinates {
		return geom.Coordinates{XY: geom.XY{X: float64(kx) / sc, Y: float64(ky) / sc}, Z: float64(kz) / sc, M: float64(km) / sc, Type: geom.DimXYZM}
	}
	p0 := pt(d, -d, d+1, 1-d)
	p1 := pt(2*d, -2*d, 2*d+2, 2-2*d)
	p2 := pt(d, -3*d, 3*d+3, 2-2*d)
	seq := func(cs ...geom.Coordinates) geom.Sequence {
		var fs []float64
		for _, c := range cs {
			fs = append(fs, c.X, c.Y, c.Z, c.M)
		}
		return geom.NewSequence(fs, geom.DimXYZM)
	}
	out := []geom.Geometry{geom.NewPoint(p0).AsGeometry()}
	if d != 0 {
		ls := geom.NewLineString(seq(p0, p1, p2))
		out = append(out, ls.AsGeometry(),
			geom.NewPolygon([]geom.LineString{geom.NewLineString(seq(p0, p1, p2, p0))}).AsGeometry(),
			geom.NewMultiPoint([]geom.Point{geom.NewPoint(p0), geom.NewPoint(p1), geom.NewPoint(p2)}).AsGeometry(),
			geom.NewGeometryCollection([]geom.Geometry{geom.NewPoint(p1).AsGeometry(), ls.AsGeometry()}).AsGeometry())
	}
	return out
}

func maxInt(a, b int) int {
	if a > b {
		return a
	}
	return b
}

func c07Replay(r *engine.Run, sub string, raw json.RawMessage) error {
	var c twkbCase
	if err := json.Unmarshal(raw, &c); err != nil {
		return err
	}
	var g geom.Geometry
	if c.Delta != nil {
		g = deltaGeoms(*c.Delta, c.PrecXY)[c.Idx]
	} else if c.Wide {
		g = wideGeoms(geom.CoordinatesType(c.CT))[c.Idx]
	} else {
		shapes := universe.Shapes(c.D, c.W)
		g = universe.Build(shapes[c.Idx], geom.CoordinatesType(c.CT), &twkbSupplier{frame: c.Frame, distinctClose: c.DistinctClose})
	}
	c.Hex = ""
	c07One(r, g, c)
	return nil
}

func init() {
	engine.Register(&engine.Check{ID: "C07", Main: c07Main, Replay: c07Replay})
}

package checks

import (
	"encoding/json"
	"fmt"
	"math"
	"regexp"
	"strings"
	"sync/atomic"

	"github.com/peterstace/simplefeatures/geom"
	"verif/engine"
	"verif/exact"
	"verif/oracle"
	"verif/universe"
)

var digitsRE = regexp.MustCompile(`[0-9]+`)

func stripDigits(s string) string { return digitsRE.ReplaceAllString(s, "#") }

type wktCase struct {
	WKT  string `json:"wkt"`
	Note string `json:"note,omitempty"`
}

func libValid(g geom.Geometry) (ok bool, msg string, pnc interface{}) {
	pnc = engine.SafeCall(func() {
		if err := g.Validate(); err != nil {
			msg = err.Error()
		} else {
			ok = true
		}
	})
	return
}

// c03Compare compares the library's verdict with the definitional one and
// returns the oracle verdict.
func c03Compare(r *engine.Run, g geom.Geometry, sub, note string) (bool, string) {
	r.Evaluations.Add(1)
	r.Transitions.Add(1)
	want, why := oracle.Valid(g)
	got, msg, pnc := libValid(g)
	if pnc != nil {
		r.Violation("C03/validate.panic", sub, wktCase{g.AsText(), note}, fmt.Sprint(pnc))
		return want, why
	}
	if got != want {
		if want {
			r.Violation("C03/rejects-valid:"+g.Type().String(), sub, wktCase{g.AsText(), note}, "library: "+msg)
		} else {
			r.Violation("C03/accepts-invalid:"+stripDigits(why), sub, wktCase{g.AsText(), note}, "oracle: "+why)
		}
	}
	return want, why
}

func lpts(ps []universe.LPt) []exact.Pt {
	out := make([]exact.Pt, len(ps))
	for i, p := range ps {
		out[i] = p.E()
	}
	return out
}

// c03Decoders: every decoder gates on validation — error iff invalid.
func c03Decoders(r *engine.Run, g geom.Geometry, want bool, sub string) {
	c := wktCase{WKT: g.AsText()}
	chk := func(name string, err error) {
		r.Transitions.Add(1)
		if (err == nil) != want {
			r.Violation("C03/decoder."+name+fmt.Sprintf(".valid=%v", want), sub, c, fmt.Sprint(err))
		}
	}
	_, err := geom.UnmarshalWKT(c.WKT)
	chk("wkt", err)
	_, err = geom.UnmarshalWKB(g.AsBinary())
	chk("wkb", err)
	if js, e := g.MarshalJSON(); e == nil {
		_, err = geom.UnmarshalGeoJSON(js)
		chk("geojson", err)
	}
	if tw, e := geom.MarshalTWKB(g, 0); e == nil {
		_, err = geom.UnmarshalTWKB(tw)
		chk("twkb", err)
	}
}

// ---- representation group ----------------------------------------------------

func rotateRing(r []universe.LPt, k int, rev bool) []universe.LPt {
	n := len(r) - 1
	out := make([]universe.LPt, 0, n+1)
	for i := 0; i < n; i++ {
		out = append(out, r[(i+k)%n])
	}
	if rev {
		for i, j := 0, len(out)-1; i < j; i, j = i+1, j-1 {
			out[i], out[j] = out[j], out[i]
		}
	}
	return append(out, out[0])
}

var c03Affines = []universe.Affine{
	{A: 1, D: 1, TX: -5, TY: 7, Name: "t(-5,7)"},
	{A: 1, D: 1, TX: 1000, TY: -1000, Name: "t(1000,-1000)"},
	{A: -1, D: 1, Name: "x->-x"},
	{A: 1, D: -1, Name: "y->-y"},
}

// c03PolyOrbit checks that the library's verdict on shell+holes is the same
// (and right) for: every start vertex and direction of every hole (full
// product over holes), every start/direction of the shell, every hole order,
// the translations and reflections.
func c03PolyOrbit(r *engine.Run, rings [][]universe.LPt, want bool, sub string) {
	id := universe.Identity
	check := func(rs [][]universe.LPt, t universe.Affine, note string) {
		g := t.Polygon(rs...).AsGeometry()
		got, msg, pnc := libValid(g)
		r.Transitions.Add(1)
		r.Evaluations.Add(1)
		if pnc != nil || got != want {
			kind := "rejects-valid"
			if !want {
				kind = "accepts-invalid"
			}
			r.Violation("C03/representation."+kind+":"+note, sub, wktCase{g.AsText(), note}, fmt.Sprint(msg, pnc))
		}
	}
	holes := rings[1:]
	// product over holes of (start × direction)
	var rec func(i int, cur [][]universe.LPt)
	rec = func(i int, cur [][]universe.LPt) {
		if i == len(holes) {
			check(append([][]universe.LPt{rings[0]}, cur...), id, "hole-start/direction")
			return
		}
		n := len(holes[i]) - 1
		for k := 0; k < n; k++ {
			for _, rev := range []bool{false, true} {
				rec(i+1, append(cur[:i:i], rotateRing(holes[i], k, rev)))
			}
		}
	}
	rec(0, nil)
	for k := 0; k < len(rings[0])-1; k++ {
		for _, rev := range []bool{false, true} {
			check(append([][]universe.LPt{rotateRing(rings[0], k, rev)}, holes...), id, "shell-start/direction")
		}
	}
	if len(holes) == 2 {
		check([][]universe.LPt{rings[0], holes[1], holes[0]}, id, "hole-order")
	}
	for _, t := range c03Affines {
		check(rings, t, "affine "+t.Name)
	}
}

// ---- universes ---------------------------------------------------------------

// all vertex sequences of length n over pts (repeats allowed)
func allSeqs(pts []universe.LPt, n int, f func([]universe.LPt)) {
	cur := make([]universe.LPt, n)
	var rec func(i int)
	rec = func(i int) {
		if i == n {
			f(cur)
			return
		}
		for _, p := range pts {
			cur[i] = p
			rec(i + 1)
		}
	}
	rec(0)
}

func c03Lines(r *engine.Run) {
	pts := universe.LatticePoints(3)
	maxLen := 4
	if r.Thorough() {
		maxLen = 5
	}
	id := universe.Identity
	count := 0
	for n := 1; n <= maxLen; n++ {
		allSeqs(pts, n, func(s []universe.LPt) {
			count++
			ls := id.Line(s)
			g := ls.AsGeometry()
			r.States.Add(1)
			want, _ := c03Compare(r, g, "wkt", "linestring")
			e := lpts(s)
			c := wktCase{WKT: g.AsText()}
			if want {
				// IsSimple / IsClosed / IsRing are point-set properties
				simple := oracle.LineSimple(e)
				closed := e[0].Eq(e[len(e)-1])
				if ls.IsSimple() != simple {
					r.Violation("C03/IsSimple", "wkt", c, fmt.Sprint(ls.IsSimple()))
				}
				if ls.IsClosed() != closed {
					r.Violation("C03/IsClosed", "wkt", c, fmt.Sprint(ls.IsClosed()))
				}
				if ls.IsRing() != (simple && closed) {
					r.Violation("C03/IsRing", "wkt", c, fmt.Sprint(ls.IsRing()))
				}
				// direction and translation / reflection invariance
				rv := make([]universe.LPt, len(s))
				for i := range s {
					rv[i] = s[len(s)-1-i]
				}
				for _, t := range append([]universe.Affine{id}, c03Affines...) {
					for _, v := range [][]universe.LPt{s, rv} {
						l2 := t.Line(v)
						r.Transitions.Add(1)
						if l2.IsSimple() != simple || l2.IsClosed() != closed || l2.Validate() != nil {
							r.Violation("C03/representation.linestring", "wkt", wktCase{l2.AsText(), t.Name}, "")
						}
					}
				}
				if !simple {
					r.Nontrivial("ls " + c.WKT)
				}
			}
			if count%7 == 0 {
				c03Decoders(r, g, want, "wkt")
			}
			// validity depends on the XY point set only: Z/M payloads (all different) must not change the verdict
			for _, ct := range []geom.CoordinatesType{geom.DimXYZ, geom.DimXYZM} {
				z := withZM(g, ct)
				r.Transitions.Add(1)
				if ok, msg, pnc := libValid(z); pnc != nil || ok != want {
					r.Violation("C03/zm.verdictDiffersFromXY:linestring", "wkt", wktCase{z.AsText(), "Z/M variant"}, fmt.Sprint(msg, pnc))
				}
			}
		})
	}
	r.Bound(fmt.Sprintf("LineStrings: all %d vertex sequences of length 1..%d on 3×3 (repeats allowed) × reversal × 4 affine maps", count, maxLen))
}

func c03Rings(r *engine.Run) {
	// every closed vertex sequence (and its unclosed variant) as a one-ring polygon
	type cfg struct{ grid, free int }
	cfgs := []cfg{{3, 5}, {4, 4}}
	if r.Thorough() {
		cfgs = []cfg{{3, 6}, {4, 5}}
	}
	id := universe.Identity
	for _, cf := range cfgs {
		pts := universe.LatticePoints(cf.grid)
		np := len(pts)
		for n := 1; n <= cf.free; n++ {
			total := 1
			for i := 0; i < n; i++ {
				total *= np
			}
			done := r.Parallel(total, func(idx int) {
				s := make([]universe.LPt, n+1)
				x := idx
				for i := 0; i < n; i++ {
					s[i] = pts[x%np]
					x /= np
				}
				s[n] = s[0]
				r.States.Add(1)
				g := id.Polygon(s).AsGeometry()
				want, why := c03Compare(r, g, "wkt", "ring")
				if idx%101 == 0 {
					c03Decoders(r, g, want, "wkt")
				}
				if idx%7 == 0 || n <= 3 {
					z := withZM(g, geom.DimXYZM)
					r.Transitions.Add(1)
					if ok, msg, pnc := libValid(z); pnc != nil || ok != want {
						r.Violation("C03/zm.verdictDiffersFromXY:ring", "wkt", wktCase{z.AsText(), "ZM variant"}, fmt.Sprint(msg, pnc))
					}
				}
				if want || strings.Contains(why, "not simple") {
					// verdict must not depend on start vertex / direction / affine map.
					// (restricted to closed sequences without the duplicate closing vertex inside)
					if want {
						r.Nontrivial("ring " + g.AsText())
					}
					if idx%5 == 0 || want {
						c03PolyOrbit(r, [][]universe.LPt{s}, want, "wkt")
					}
				}
				if n >= 2 && idx%(np) == 0 {
					// unclosed variant: drop the closing vertex (invalid unless it happens to be closed)
					u := id.Polygon(s[:n]).AsGeometry()
					c03Compare(r, u, "wkt", "unclosed ring")
				}
			})
			if !done {
				return
			}
		}
		r.Bound(fmt.Sprintf("single-ring polygons: every closed vertex sequence with ≤%d free vertices on %d×%d", cf.free, cf.grid, cf.grid))
	}
	r.Sample("wkt", wktCase{WKT: "POLYGON((0 0,2 0,1 1,2 2,0 2,1 1,0 0))", Note: "ring"})
}

// interesting: rings touch or one has a probe inside the other
func ringsInteract(a, b []exact.Pt) bool {
	if n, _ := oracleRingsMeet(a, b); n > 0 {
		return true
	}
	return exact.InRing(a[0], b) == exact.Interior || exact.InRing(b[0], a) == exact.Interior
}

func oracleRingsMeet(a, b []exact.Pt) (int, exact.Pt) {
	n := 0
	var at exact.Pt
	for i := 0; i+1 < len(a); i++ {
		for j := 0; j+1 < len(b); j++ {
			if k, p, _ := exact.SegInter(a[i], a[i+1], b[j], b[j+1]); k != 0 {
				n++
				at = p
			}
		}
	}
	return n, at
}

func c03Holes(r *engine.Run) {
	id := universe.Identity
	type shellCfg struct {
		grid  int
		shell []universe.LPt
		maxV  int // hole vertices
		pairs bool
	}
	sq := func(n int) []universe.LPt {
		return []universe.LPt{{0, 0}, {n, 0}, {n, n}, {0, n}, {0, 0}}
	}
	cfgs := []shellCfg{
		{4, sq(3), 4, false},
		{4, sq(3), 3, true},
		{4, []universe.LPt{{0, 0}, {3, 0}, {3, 3}, {2, 3}, {2, 1}, {0, 1}, {0, 0}}, 3, false}, // L-shape
	}
	if r.Thorough() {
		cfgs = []shellCfg{
			{5, sq(4), 4, false},
			{5, sq(4), 3, true},
			{4, sq(3), 4, true},
			{5, []universe.LPt{{0, 0}, {4, 0}, {4, 4}, {2, 4}, {2, 2}, {0, 2}, {0, 0}}, 4, false},
			{5, []universe.LPt{{0, 0}, {2, 0}, {4, 0}, {4, 4}, {0, 4}, {0, 0}}, 3, true}, // collinear shell vertex
			{5, []universe.LPt{{0, 0}, {4, 0}, {2, 2}, {4, 4}, {0, 4}, {0, 0}}, 3, true}, // concave
			{5, []universe.LPt{{2, 0}, {4, 2}, {2, 4}, {0, 2}, {2, 0}}, 3, true},         // diamond
		}
	}
	for ci, cf := range cfgs {
		holes := universe.SimplePolygons(cf.grid, cf.maxV)
		c03HolePairs(r, fmt.Sprintf("#%d", ci), cf.shell, holes, holes, cf.pairs, true, cf.grid, cf.maxV)
		if r.Expired() {
			return
		}
	}
	// room for nesting: shell 0..5, both holes drawn from the inner 4×4 sub-grid
	// [1,4]² (no contact with the shell): first hole every simple ≤4-gon, second
	// hole every triangle (thorough: every ≤4-gon).
	shift := func(in [][]universe.LPt) [][]universe.LPt {
		out := make([][]universe.LPt, len(in))
		for i, r := range in {
			for _, p := range r {
				out[i] = append(out[i], universe.LPt{X: p.X + 1, Y: p.Y + 1})
			}
		}
		return out
	}
	a := shift(universe.SimplePolygons(4, 4))
	b := shift(universe.SimplePolygons(4, 3))
	if r.Thorough() {
		b = a
	}
	c03HolePairs(r, "nest", sq(5), a, b, true, false, 4, 4)
	if r.Expired() {
		return
	}
	// three-hole touch cycles (the touch-graph cycle test needs ≥ 3 rings to close a cycle without the shell)
	shell := sq(6)
	tri := [][]universe.LPt{
		{{1, 1}, {3, 1}, {2, 3}, {1, 1}},
		{{3, 1}, {5, 1}, {4, 3}, {3, 1}},
		{{2, 3}, {4, 3}, {3, 5}, {2, 3}},
		{{2, 3}, {3, 2}, {4, 3}, {2, 3}},
	}
	for mask := 1; mask < 16; mask++ {
		rings := [][]universe.LPt{shell}
		for b := 0; b < 4; b++ {
			if mask&(1<<b) != 0 {
				rings = append(rings, tri[b])
			}
		}
		g := id.Polygon(rings...).AsGeometry()
		r.States.Add(1)
		want, _ := c03Compare(r, g, "wkt", "touch-cycle family")
		if len(rings) <= 3 {
			c03PolyOrbit(r, rings, want, "wkt")
		}
		r.Nontrivial("cycle " + g.AsText())
	}
	r.Sample("wkt", wktCase{WKT: "POLYGON((0 0,3 0,3 3,0 3,0 0),(1 1,2 1,1 2,1 1),(1 1,2 2,1 2,1 1))", Note: "shell+2holes"})
}

// c03HolePairs checks shell+a for every a in A (when single) and shell+a+b for
// every a in A, b in B (unordered when A and B are the same list).
func c03HolePairs(r *engine.Run, tag string, shell []universe.LPt, A, B [][]universe.LPt, pairs, single bool, grid, maxV int) {
	id := universe.Identity
	ea := make([][]exact.Pt, len(A))
	for i, h := range A {
		ea[i] = lpts(h)
	}
	eb := make([][]exact.Pt, len(B))
	for i, h := range B {
		eb[i] = lpts(h)
	}
	same := len(A) == len(B) && (len(A) == 0 || &A[0] == &B[0])
	es := lpts(shell)
	if single {
		done := r.Parallel(len(A), func(i int) {
			rings := [][]universe.LPt{shell, A[i]}
			g := id.Polygon(rings...).AsGeometry()
			r.States.Add(1)
			want, _ := c03Compare(r, g, "wkt", "shell+hole")
			if ringsInteract(es, ea[i]) {
				r.Nontrivial("1hole " + g.AsText())
				c03PolyOrbit(r, rings, want, "wkt")
				c03Decoders(r, g, want, "wkt")
			}
		})
		if !done {
			return
		}
	}
	if pairs {
		n, m := len(A), len(B)
		done := r.Parallel(n*m, func(k int) {
			i, j := k/m, k%m
			if same && i >= j {
				return
			}
			inter := ringsInteract(ea[i], eb[j])
			rings := [][]universe.LPt{shell, A[i], B[j]}
			g := id.Polygon(rings...).AsGeometry()
			r.States.Add(1)
			want, why := c03Compare(r, g, "wkt", "shell+2holes")
			if inter && (want || strings.Contains(why, "another hole") || strings.Contains(why, "components")) {
				r.Nontrivial("2holes " + g.AsText())
				c03PolyOrbit(r, rings, want, "wkt")
				if k%13 == 0 {
					c03Decoders(r, g, want, "wkt")
				}
			}
		})
		if !done {
			return
		}
	}
	r.Bound(fmt.Sprintf("polygons with holes %s: shell %v × %d first holes (simple ≤%d-gons on a %d×%d grid)%s, full representation orbit on interacting configurations",
		tag, shell, len(A), maxV, grid, grid, map[bool]string{true: fmt.Sprintf(" × %d second holes", len(B)), false: ""}[pairs]))
}

// c03ManyHoles: polygons with 4..5 (thorough 6) holes drawn from a pool in
// which some pairs nest, cross, share an edge or close a touch cycle; every
// subset × every hole order. (Validation builds an R-tree over the rings, whose
// bulk load reorders its items once there are more than four.)
func c03ManyHoles(r *engine.Run) {
	id := universe.Identity
	shell := []universe.LPt{{0, 0}, {12, 0}, {12, 12}, {0, 12}, {0, 0}}
	pool := [][]universe.LPt{
		{{1, 1}, {3, 1}, {3, 3}, {1, 3}, {1, 1}},      // A
		{{2, 2}, {4, 2}, {4, 4}, {2, 4}, {2, 2}},      // B crosses A
		{{6, 1}, {10, 1}, {10, 5}, {6, 5}, {6, 1}},    // C
		{{7, 2}, {9, 2}, {8, 4}, {7, 2}},              // D nested in C
		{{10, 5}, {11, 6}, {10, 7}, {10, 5}},          // E touches C at a vertex
		{{1, 6}, {3, 6}, {2, 8}, {1, 6}},              // F
		{{3, 6}, {5, 6}, {4, 8}, {3, 6}},              // G touches F
		{{2, 8}, {4, 8}, {3, 10}, {2, 8}},             // H touches F and G: cycle
		{{6, 7}, {8, 7}, {8, 9}, {6, 9}, {6, 7}},      // I
		{{8, 7}, {9, 7}, {9, 9}, {8, 9}, {8, 7}},      // J shares an edge with I
		{{6, 10}, {7, 10}, {7, 11}, {6, 11}, {6, 10}}, // K independent
	}
	maxK := 5
	if r.Thorough() {
		maxK = 6
	}
	type job struct{ idx []int }
	var jobs []job
	var rec func(start int, cur []int)
	rec = func(start int, cur []int) {
		if len(cur) >= 4 {
			jobs = append(jobs, job{append([]int{}, cur...)})
		}
		if len(cur) == maxK {
			return
		}
		for i := start; i < len(pool); i++ {
			rec(i+1, append(cur, i))
		}
	}
	rec(0, nil)
	done := r.Parallel(len(jobs), func(ji int) {
		sub := jobs[ji].idx
		rings := [][]universe.LPt{shell}
		for _, i := range sub {
			rings = append(rings, pool[i])
		}
		want, why := oracle.PolyValid(func() [][]exact.Pt {
			var o [][]exact.Pt
			for _, rg := range rings {
				o = append(o, lpts(rg))
			}
			return o
		}())
		r.States.Add(1)
		// every order of the holes (Heap's algorithm)
		perm := append([]int{}, sub...)
		var gen func(k int)
		gen = func(k int) {
			if k == 1 {
				rs := [][]universe.LPt{shell}
				for _, i := range perm {
					rs = append(rs, pool[i])
				}
				for ti, t := range []universe.Affine{id, c03Affines[2]} {
					g := t.Polygon(rs...).AsGeometry()
					got, msg, pnc := libValid(g)
					r.Transitions.Add(1)
					r.Evaluations.Add(1)
					if pnc != nil || got != want {
						kind := "rejects-valid"
						if !want {
							kind = "accepts-invalid:" + stripDigits(why)
						}
						r.Violation("C03/manyholes."+kind, "wkt", wktCase{g.AsText(), fmt.Sprint("hole order ", perm, " affine ", ti)}, fmt.Sprint(msg, pnc))
					}
				}
				return
			}
			gen(k - 1)
			for i := 0; i < k-1; i++ {
				if k%2 == 0 {
					perm[i], perm[k-1] = perm[k-1], perm[i]
				} else {
					perm[0], perm[k-1] = perm[k-1], perm[0]
				}
				gen(k - 1)
			}
		}
		gen(len(perm))
		r.Nontrivial(fmt.Sprint("manyholes ", sub))
	})
	if done {
		r.Bound(fmt.Sprintf("polygons with 4..%d holes: every subset of an 11-hole pool (nesting, crossing, edge-sharing, touch cycle, vertex touch) × every hole order × reflection (%d subsets)", maxK, len(jobs)))
	}
}

func c03Multi(r *engine.Run) {
	id := universe.Identity
	polys := universe.SimplePolygons(3, 9)
	if !r.Thorough() {
		var small [][]universe.LPt
		for _, p := range polys {
			if len(p)-1 <= 5 {
				small = append(small, p)
			}
		}
		polys = small
	}
	n := len(polys)
	done := r.Parallel(n*n, func(k int) {
		i, j := k/n, k%n
		if i > j {
			return
		}
		mp := geom.NewMultiPolygon([]geom.Polygon{id.Polygon(polys[i]), id.Polygon(polys[j])})
		g := mp.AsGeometry()
		r.States.Add(1)
		want, why := c03Compare(r, g, "wkt", "multipolygon pair")
		if why != "" && !strings.Contains(why, "interiors") {
			r.Nontrivial("mp " + g.AsText())
		}
		if want {
			// member order, ring start/direction of one member, affine maps
			variants := []geom.Geometry{geom.NewMultiPolygon([]geom.Polygon{id.Polygon(polys[j]), id.Polygon(polys[i])}).AsGeometry()}
			for _, t := range c03Affines {
				variants = append(variants, geom.NewMultiPolygon([]geom.Polygon{t.Polygon(polys[i]), t.Polygon(polys[j])}).AsGeometry())
			}
			for s := 1; s < len(polys[i])-1; s++ {
				variants = append(variants, geom.NewMultiPolygon([]geom.Polygon{id.Polygon(rotateRing(polys[i], s, s%2 == 1)), id.Polygon(polys[j])}).AsGeometry())
			}
			for _, v := range variants {
				r.Transitions.Add(1)
				if ok, msg, _ := libValid(v); !ok {
					r.Violation("C03/representation.multipolygon.rejects-valid", "wkt", wktCase{v.AsText(), "variant of " + g.AsText()}, msg)
				}
			}
		} else if k%3 == 0 {
			v := geom.NewMultiPolygon([]geom.Polygon{id.Polygon(rotateRing(polys[j], 1, true)), id.Polygon(rotateRing(polys[i], 2%(len(polys[i])-1), false))}).AsGeometry()
			r.Transitions.Add(1)
			if ok, _, _ := libValid(v); ok {
				r.Violation("C03/representation.multipolygon.accepts-invalid", "wkt", wktCase{v.AsText(), "variant of " + g.AsText()}, why)
			}
		}
		// an EMPTY member at any position does not change the verdict; neither does a Z payload
		if k%5 == 0 || !want {
			pi, pj := id.Polygon(polys[i]), id.Polygon(polys[j])
			for vi, ms := range [][]geom.Polygon{{{}, pi, pj}, {pi, {}, pj}, {pi, pj, {}}, {pj, {}, pi}, {{}, pj, {}, pi}} {
				v := geom.NewMultiPolygon(ms).AsGeometry()
				r.Transitions.Add(1)
				if ok, msg, pnc := libValid(v); pnc != nil || ok != want {
					r.Violation("C03/multipolygon.emptyMemberChangesVerdict", "wkt", wktCase{v.AsText(), fmt.Sprint("empty member variant ", vi)}, fmt.Sprint(msg, pnc))
				}
			}
			if k%15 == 0 {
				z := withZM(g, geom.DimXYZ)
				if ok, msg, pnc := libValid(z); pnc != nil || ok != want {
					r.Violation("C03/zm.verdictDiffersFromXY:multipolygon", "wkt", wktCase{z.AsText(), "Z variant"}, fmt.Sprint(msg, pnc))
				}
			}
		}
		if k%37 == 0 {
			c03Decoders(r, g, want, "wkt")
			// wrapping in a collection keeps the verdict
			gc := geom.NewGeometryCollection([]geom.Geometry{geom.NewPointXY(9, 9).AsGeometry(), g}).AsGeometry()
			c03Compare(r, gc, "wkt", "gc wrapper")
		}
	})
	if done {
		r.Bound(fmt.Sprintf("MultiPolygons: every unordered pair of the %d simple 3×3 polygons (quick: ≤5 vertices), valid ones × member order × ring starts × 4 affine maps", n))
	}
	r.Sample("wkt", wktCase{WKT: "MULTIPOLYGON(((0 0,1 0,0 1,0 0)),((1 0,1 1,0 1,1 0)))", Note: "multipolygon pair"})
}

// c03MultiMany: MultiPolygons of 3..k members drawn from a pool with every kind of pairwise
// relation (nested in a hole, touching at points, sharing an edge, overlapping, containing),
// under every member order. The oracle verdict is computed once per subset (it cannot depend on
// the order); the library must give it for every permutation.
func c03MultiMany(r *engine.Run) {
	id := universe.Identity
	sq := func(x0, y0, x1, y1 int) []universe.LPt {
		return []universe.LPt{{X: x0, Y: y0}, {X: x1, Y: y0}, {X: x1, Y: y1}, {X: x0, Y: y1}, {X: x0, Y: y0}}
	}
	ring := func(c ...int) []universe.LPt {
		var out []universe.LPt
		for i := 0; i+1 < len(c); i += 2 {
			out = append(out, universe.LPt{X: c[i], Y: c[i+1]})
		}
		return append(out, out[0])
	}
	pool := []geom.Polygon{
		id.Polygon(sq(0, 0, 8, 8), sq(2, 2, 6, 6)),         // A: frame
		id.Polygon(ring(4, 2, 6, 4, 4, 6, 2, 4)),           // B: diamond in A's hole touching it at 4 points
		id.Polygon(sq(3, 3, 5, 5)),                         // C: inside the hole; corners on B's edges, inside B
		id.Polygon(sq(8, 0, 12, 4)),                        // D: shares part of an edge with A
		id.Polygon(sq(8, 8, 10, 10)),                       // E: touches A at a corner
		id.Polygon(ring(8, 4, 12, 4, 10, 8)),               // F: shares an edge with D, touches A at a point on A's edge
		id.Polygon(sq(0, 0, 1, 1)),                         // G: inside A's body
		id.Polygon(sq(20, 20, 22, 22)),                     // H: far away, inside O's hole
		id.Polygon(sq(7, 7, 9, 9)),                         // J: overlaps A and E
		id.Polygon(sq(12, 0, 14, 2)),                       // L: shares an edge with D
		id.Polygon(ring(12, 4, 14, 4, 13, 6)),              // M: touches D and F at one corner
		id.Polygon(sq(18, 18, 24, 24), sq(19, 19, 23, 23)), // O: frame around H
		id.Polygon(ring(10, 8, 12, 10, 10, 12)),            // P: touches F's apex and E's corner (10,8)? (E corner is (10,8))
	}
	maxK := 4
	if r.Thorough() {
		maxK = 6
	}
	type job struct{ idx []int }
	var jobs []job
	var rec func(start int, cur []int)
	rec = func(start int, cur []int) {
		if len(cur) >= 3 {
			jobs = append(jobs, job{append([]int(nil), cur...)})
		}
		if len(cur) == maxK {
			return
		}
		for i := start; i < len(pool); i++ {
			rec(i+1, append(cur, i))
		}
	}
	rec(0, nil)
	var perms, validSubsets atomic.Int64
	done := r.Parallel(len(jobs), func(k int) {
		idx := jobs[k].idx
		ms := make([]geom.Polygon, len(idx))
		for i, v := range idx {
			ms[i] = pool[v]
		}
		g := geom.NewMultiPolygon(ms).AsGeometry()
		r.States.Add(1)
		want, why := c03Compare(r, g, "wkt", "multipolygon subset of the relation pool")
		if want {
			validSubsets.Add(1)
			r.Nontrivial("mpN " + g.AsText())
		}
		// every permutation (Heap's algorithm)
		n := len(ms)
		c := make([]int, n)
		cur := append([]geom.Polygon(nil), ms...)
		check := func() {
			perms.Add(1)
			r.Transitions.Add(1)
			v := geom.NewMultiPolygon(cur).AsGeometry()
			if ok, msg, pnc := libValid(v); pnc != nil || ok != want {
				key := "C03/multipolygon.memberOrderChangesVerdict.accepts-invalid"
				if want {
					key = "C03/multipolygon.memberOrderChangesVerdict.rejects-valid"
				}
				r.Violation(key, "wkt", wktCase{v.AsText(), "permutation of " + g.AsText()}, fmt.Sprint(msg, pnc, " oracle: ", why))
			}
		}
		for i := 0; i < n; {
			if c[i] < i {
				if i%2 == 0 {
					cur[0], cur[i] = cur[i], cur[0]
				} else {
					cur[c[i]], cur[i] = cur[i], cur[c[i]]
				}
				check()
				c[i]++
				i = 0
			} else {
				c[i] = 0
				i++
			}
		}
	})
	if done {
		r.Bound(fmt.Sprintf("MultiPolygons of 3..%d members: every subset of a %d-polygon relation pool × every member order (%d subsets, %d valid, %d permutations)", maxK, len(pool), len(jobs), validSubsets.Load(), perms.Load()))
	}
}

// c03BigRings: rings with 12..16 vertices and a plate with 6 holes (the segment index of the
// simplicity and ring-interaction tests is several levels deep), and every variant in which one
// vertex is moved to one of its 8 lattice neighbours (valid, touching, crossing: the oracle decides),
// each under every ring start for the first ring.
func c03BigRings(r *engine.Run) {
	id := universe.Identity
	disc := []universe.LPt{{2, 0}, {4, 0}, {5, 1}, {6, 2}, {6, 4}, {5, 5}, {4, 6}, {2, 6}, {1, 5}, {0, 4}, {0, 2}, {1, 1}, {2, 0}}
	spiral := []universe.LPt{{0, 0}, {7, 0}, {7, 7}, {0, 7}, {0, 2}, {5, 2}, {5, 5}, {2, 5}, {2, 4}, {4, 4}, {4, 3}, {1, 3}, {1, 6}, {6, 6}, {6, 1}, {0, 1}, {0, 0}}
	var stair []universe.LPt
	for i := 0; i <= 6; i++ {
		stair = append(stair, universe.LPt{X: i, Y: i}, universe.LPt{X: i + 1, Y: i})
	}
	stair = append(stair, universe.LPt{X: 7, Y: 7}, universe.LPt{X: 0, Y: 7}, universe.LPt{X: 0, Y: 0})
	plate := [][]universe.LPt{{{0, 0}, {7, 0}, {7, 5}, {0, 5}, {0, 0}}}
	for i := 0; i < 3; i++ {
		for j := 0; j < 2; j++ {
			x, y := 1+2*i, 1+2*j
			plate = append(plate, []universe.LPt{{x, y}, {x, y + 1}, {x + 1, y + 1}, {x + 1, y}, {x, y}})
		}
	}
	type job struct{ rings [][]universe.LPt }
	var jobs []job
	for _, base := range [][][]universe.LPt{{disc}, {spiral}, {stair}, plate} {
		jobs = append(jobs, job{base})
		for ri := range base {
			for vi := 0; vi+1 < len(base[ri]); vi++ {
				for dx := -1; dx <= 1; dx++ {
					for dy := -1; dy <= 1; dy++ {
						if dx == 0 && dy == 0 {
							continue
						}
						v := make([][]universe.LPt, len(base))
						for k := range base {
							v[k] = append([]universe.LPt{}, base[k]...)
						}
						v[ri][vi].X += dx
						v[ri][vi].Y += dy
						if vi == 0 {
							v[ri][len(v[ri])-1] = v[ri][vi]
						}
						jobs = append(jobs, job{v})
					}
				}
			}
		}
	}
	// an inner ring that lies OUTSIDE the shell and touches it in exactly one point, written from
	// every start vertex, with that vertex repeated 0..2 times (the containment probe must get past
	// control points that sit on the shell's boundary)
	sq4 := []universe.LPt{{0, 0}, {4, 0}, {4, 4}, {0, 4}, {0, 0}}
	for _, out := range [][]universe.LPt{{{4, 2}, {6, 1}, {6, 3}, {4, 2}}, {{2, 4}, {3, 6}, {1, 6}, {2, 4}}, {{4, 4}, {6, 4}, {6, 6}, {4, 4}}, {{2, 0}, {1, -2}, {3, -2}, {2, 0}}} {
		m := len(out) - 1
		for k := 0; k < m; k++ {
			for _, rev := range []bool{false, true} {
				rot := rotateRing(out, k, rev)
				for rep := 0; rep <= 2; rep++ {
					ring := append([]universe.LPt{}, rot[0])
					for q := 0; q < rep; q++ {
						ring = append(ring, rot[0])
					}
					ring = append(ring, rot[1:]...)
					jobs = append(jobs, job{[][]universe.LPt{sq4, ring}})
				}
			}
		}
	}
	var valid atomic.Int64
	done := r.Parallel(len(jobs), func(i int) {
		rings := jobs[i].rings
		g := id.Polygon(rings...).AsGeometry()
		r.States.Add(1)
		want, _ := c03Compare(r, g, "wkt", "many-vertex ring, one vertex moved")
		if want {
			valid.Add(1)
		}
		// ring start / direction of the first ring must not matter
		m := len(rings[0]) - 1
		for s := 1; s < m; s += 3 {
			v := append([][]universe.LPt{rotateRing(rings[0], s, s%2 == 1)}, rings[1:]...)
			r.Transitions.Add(1)
			if ok, msg, pnc := libValid(id.Polygon(v...).AsGeometry()); pnc != nil || ok != want {
				r.Violation("C03/representation.bigRing", "wkt", wktCase{id.Polygon(v...).AsGeometry().AsText(), "rotation of " + g.AsText()}, fmt.Sprint(msg, pnc))
			}
		}
		r.Nontrivial("big " + g.AsText())
	})
	if done {
		r.Bound(fmt.Sprintf("many-vertex rings (12-vertex disc, 16-vertex spiral, 16-vertex staircase, plate with 6 holes) and every one-vertex move to a lattice neighbour: %d polygons (%d valid), each under every third ring start", len(jobs), valid.Load()))
	}
}

// c03TJunctions: a hole (or a second member) whose apex lies on an edge of another ring at every
// integer position of long edges (lengths 22, 26, 49: the position along the edge is p/L, not a
// dyadic ratio, so a touch point that is recomputed instead of taken from the vertex comes out an
// ulp off). Touching at one point is valid; every ring start and direction must agree.
func c03TJunctions(r *engine.Run) {
	sizes := []int{22, 26}
	if r.Thorough() {
		sizes = append(sizes, 49)
	}
	n := 0
	type job struct {
		rings [][]universe.LPt
		multi bool
	}
	var jobs []job
	for _, S := range sizes {
		shell := []universe.LPt{{0, 0}, {S, 0}, {S, S}, {0, S}, {0, 0}}
		for p := 2; p <= S-2; p++ {
			// apex on each of the four shell edges, the hole inside
			jobs = append(jobs,
				job{[][]universe.LPt{shell, {{p, 0}, {p + 1, 3}, {p - 1, 3}, {p, 0}}}, false},
				job{[][]universe.LPt{shell, {{S, p}, {S - 3, p + 1}, {S - 3, p - 1}, {S, p}}}, false},
				job{[][]universe.LPt{shell, {{p, S}, {p - 1, S - 3}, {p + 1, S - 3}, {p, S}}}, false},
				job{[][]universe.LPt{shell, {{0, p}, {3, p - 1}, {3, p + 1}, {0, p}}}, false},
				// a second member outside, its apex on the bottom / right edge
				job{[][]universe.LPt{shell, {{p, 0}, {p - 1, -3}, {p + 1, -3}, {p, 0}}}, true},
				job{[][]universe.LPt{shell, {{S, p}, {S + 3, p - 1}, {S + 3, p + 1}, {S, p}}}, true})
		}
	}
	id := universe.Identity
	done := r.Parallel(len(jobs), func(i int) {
		j := jobs[i]
		if !j.multi {
			g := id.Polygon(j.rings...).AsGeometry()
			r.States.Add(1)
			want, _ := c03Compare(r, g, "wkt", "hole apex on a long shell edge")
			c03PolyOrbit(r, j.rings, want, "wkt")
			return
		}
		for _, sr := range []bool{false, true} {
			for _, hr := range []bool{false, true} {
				for _, swap := range []bool{false, true} {
					a, b := id.Polygon(rotateRing(j.rings[0], 1, sr)), id.Polygon(rotateRing(j.rings[1], 0, hr))
					if swap {
						a, b = b, a
					}
					g := geom.NewMultiPolygon([]geom.Polygon{a, b}).AsGeometry()
					r.States.Add(1)
					c03Compare(r, g, "wkt", "member apex on a long edge of another member")
				}
			}
		}
	})
	n = len(jobs)
	if done {
		r.Bound(fmt.Sprintf("T-junctions on long edges: %d configurations (hole apex on each shell edge at every position of edges of length %v; a second member's apex on an edge) × every ring start and direction", n, sizes))
	}
}

func c03NonFinite(r *engine.Run) {
	shapes := universe.Shapes(1, 2)
	bads := []float64{math.NaN(), math.Inf(1), math.Inf(-1)}
	n := 0
	for _, s := range shapes {
		for _, ct := range allCT {
			base := universe.Build(s, ct, &universe.CellSupplier{})
			dc := base.DumpCoordinates()
			dim := ct.Dimension()
			total := dc.Length() * dim
			for pos := 0; pos < total; pos++ {
				for _, bad := range bads {
					k := 0
					g := base.TransformXY(func(xy geom.XY) geom.XY { return xy }) // copy
					// rebuild with one ordinate replaced: walk via a supplier that counts ordinates
					g = universe.Build(s, ct, &poisonSupplier{inner: &universe.CellSupplier{}, ct: ct, pos: pos, bad: bad, k: &k})
					isXY := pos%dim < 2
					r.States.Add(1)
					r.Evaluations.Add(1)
					r.Transitions.Add(1)
					n++
					ok, msg, pnc := libValid(g)
					c := map[string]interface{}{"shape": s.String(), "ctype": ct.String(), "ordinate": pos, "value": fmt.Sprint(bad)}
					if pnc != nil {
						r.Violation("C03/nonfinite.panic", "nonfinite", c, fmt.Sprint(pnc))
					} else if isXY && ok {
						r.Violation("C03/nonfinite.acceptsXY", "nonfinite", c, "")
					} else if !isXY && !ok {
						r.Violation("C03/nonfinite.rejectsZM", "nonfinite", c, msg)
					}
					if n == 500 {
						r.Sample("nonfinite", c)
					}
					if isXY {
						r.Nontrivial(fmt.Sprint("nf ", s.String(), ct, pos, bad))
					}
				}
			}
		}
	}
	r.Bound(fmt.Sprintf("NaN/+Inf/-Inf in every ordinate position of every S(1,2) shape × 4 ctypes (%d cases): X/Y must be rejected, Z/M must not", n))
	// both ordinates of one control point special at once: every (X,Y) over non-finite values and
	// extreme finite ones. Rejected iff X or Y is non-finite; for point types the extreme finite
	// combinations must be accepted (lines and rings there are outside the float domain, §9.14)
	vals := []float64{math.NaN(), math.Inf(1), math.Inf(-1), math.MaxFloat64, -math.MaxFloat64, 1e308, -1e308, 5e-324, 0}
	m := 0
	for _, s := range shapes {
		for _, ct := range []geom.CoordinatesType{geom.DimXY, geom.DimXYZM} {
			base := universe.Build(s, ct, &universe.CellSupplier{})
			dim := ct.Dimension()
			npts := base.DumpCoordinates().Length()
			pointy := base.Dimension() == 0
			for pt := 0; pt < npts; pt++ {
				for _, vx := range vals {
					for _, vy := range vals {
						k := 0
						g := universe.Build(s, ct, &poisonSupplier{inner: &universe.CellSupplier{}, ct: ct, pos: pt * dim, bad: vx, pos2: pt*dim + 1, bad2: vy, two: true, k: &k})
						finite := !math.IsNaN(vx) && !math.IsInf(vx, 0) && !math.IsNaN(vy) && !math.IsInf(vy, 0)
						r.States.Add(1)
						r.Evaluations.Add(1)
						r.Transitions.Add(1)
						m++
						ok, msg, pnc := libValid(g)
						c := map[string]interface{}{"shape": s.String(), "ctype": ct.String(), "point": pt, "x": fmt.Sprint(vx), "y": fmt.Sprint(vy)}
						if pnc != nil {
							r.Violation("C03/nonfinite.pair.panic", "nonfinite2", c, fmt.Sprint(pnc))
						} else if !finite && ok {
							r.Violation("C03/nonfinite.pair.acceptsXY", "nonfinite2", c, "")
						} else if finite && pointy && !ok {
							r.Violation("C03/nonfinite.pair.rejectsFiniteXY", "nonfinite2", c, msg)
						}
					}
				}
			}
		}
	}
	r.Bound(fmt.Sprintf("every (X,Y) over {NaN,±Inf,±MaxFloat64,±1e308,5e-324,0}² at every control point of every S(1,2) shape × {XY,XYZM} (%d cases)", m))
}

// poisonSupplier replaces the pos-th ordinate (counted in ct's layout over the
// coordinates handed out; the duplicate closing vertex of a ring counts) with bad.
type poisonSupplier struct {
	inner universe.Supplier
	ct    geom.CoordinatesType
	pos   int
	bad   float64
	k     *int
	two   bool
	pos2  int
	bad2  float64
}

func (p *poisonSupplier) Prim(idx int, kind byte, ring int, n int) []geom.Coordinates {
	cs := p.inner.Prim(idx, kind, ring, n)
	dim := p.ct.Dimension()
	for i := range cs {
		for d := 0; d < dim; d++ {
			if p.two && *p.k == p.pos2 {
				if d == 1 {
					cs[i].Y = p.bad2
				}
			}
			if *p.k == p.pos {
				switch {
				case d == 0:
					cs[i].X = p.bad
				case d == 1:
					cs[i].Y = p.bad
				case d == 2 && p.ct.Is3D():
					cs[i].Z = p.bad
				default:
					cs[i].M = p.bad
				}
			}
			*p.k++
		}
	}
	return cs
}

func c03Main(r *engine.Run) {
	r.Rule = "geometries built without validation on dense lattices: every LineString vertex sequence, every closed vertex sequence as a ring, every shell × every simple hole (pairs of holes), every pair of simple polygons as MultiPolygon, NaN/Inf at every ordinate; verdict compared with a definitional oracle (exact arithmetic + arrangement faces) and across the representation orbit (ring start, direction, hole/member order, translations, reflections). non-trivial = valid rings, interacting ring pairs, non-simple lines, touching multipolygon members"
	c03NonFinite(r)
	c03Lines(r)
	c03Holes(r)
	c03ManyHoles(r)
	c03Multi(r)
	c03MultiMany(r)
	c03BigRings(r)
	c03TJunctions(r)
	c03Rings(r)
}

func c03Replay(r *engine.Run, sub string, raw json.RawMessage) error {
	if sub != "wkt" {
		return fmt.Errorf("replay of sub %q: re-run the check (the case is described in the replay file)", sub)
	}
	var c wktCase
	if err := json.Unmarshal(raw, &c); err != nil {
		return err
	}
	g, err := geom.UnmarshalWKT(c.WKT, geom.NoValidate{})
	if err != nil {
		return err
	}
	want, _ := c03Compare(r, g, "wkt", c.Note)
	c03Decoders(r, g, want, "wkt")
	return nil
}

func init() {
	engine.Register(&engine.Check{ID: "C03", Main: c03Main, Replay: c03Replay})
}

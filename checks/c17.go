package checks

import (
	"encoding/json"
	"fmt"
	"math"
	"math/big"

	"github.com/peterstace/simplefeatures/geom"
	"verif/engine"
	"verif/exact"
	"verif/oracle"
	"verif/refcodec"
	"verif/universe"
)

type c17Case struct {
	WKT  string  `json:"wkt"`
	Op   string  `json:"op"`
	Arg  float64 `json:"arg"`
	ArgI int     `json:"argInt,omitempty"`
}

func lineNodes(n refcodec.Node, out *[]refcodec.Node) {
	if n.T == geom.TypeLineString {
		*out = append(*out, n)
		return
	}
	for _, k := range n.Kids {
		lineNodes(k, out)
	}
}

// lineNodesMeta flattens like lineNodes and records, for every hole, the index of its polygon's
// exterior ring in the flattened list (-1 for exterior rings and plain lines).
func lineNodesMeta(n refcodec.Node, out *[]refcodec.Node, ext *[]int) {
	switch n.T {
	case geom.TypeLineString:
		*out = append(*out, n)
		*ext = append(*ext, -1)
	case geom.TypePolygon:
		e := len(*out)
		for i, k := range n.Kids {
			*out = append(*out, k)
			if i == 0 {
				*ext = append(*ext, -1)
			} else {
				*ext = append(*ext, e)
			}
		}
	default:
		for _, k := range n.Kids {
			lineNodesMeta(k, out, ext)
		}
	}
}

// canVanish: a line may be absent from the simplified result only if it is closed and some collapsed
// subsequence of it (p0,p0 or p0,pk,p0) drops no vertex farther than t from the line through the
// retained vertices that bracket it.
func canVanish(in [][]float64, t float64) bool {
	n := len(in)
	if n < 2 {
		return true
	}
	if in[0][0] != in[n-1][0] || in[0][1] != in[n-1][1] {
		return false
	}
	within := func(a, b exact.Pt) bool {
		for m := 1; m < n-1; m++ {
			if d := distToLine(ptOf(in[m]), a, b); d > t*(1+1e-12)+1e-14*math.Max(math.Abs(in[m][0]), math.Abs(in[m][1]))+1e-300 {
				return false
			}
		}
		return true
	}
	p0 := ptOf(in[0])
	if within(p0, p0) {
		return true
	}
	for k := 1; k < n-1; k++ {
		if pk := ptOf(in[k]); !pk.Eq(p0) && within(p0, pk) {
			return true
		}
	}
	return false
}

func ptOf(c []float64) exact.Pt { return exact.PF(c[0], c[1]) }

func sameTuple(a, b []float64) bool {
	if len(a) != len(b) {
		return false
	}
	for i := range a {
		if math.Float64bits(a[i]) != math.Float64bits(b[i]) && !(a[i] == 0 && b[i] == 0) {
			return false
		}
	}
	return true
}

// ---- Densify -----------------------------------------------------------------------

func c17Densify(r *engine.Run, g geom.Geometry, d float64) {
	c := c17Case{WKT: g.AsText(), Op: "Densify", Arg: d}
	bad := func(k, s string) { r.Violation("C17/Densify."+k, "op", c, s) }
	var h geom.Geometry
	r.Transitions.Add(1)
	r.Evaluations.Add(1)
	if p := engine.SafeCall(func() { h = g.Densify(d) }); p != nil {
		bad("panic", fmt.Sprint(p))
		return
	}
	var a, b []refcodec.Node
	gn, hn := refcodec.Describe(g), refcodec.Describe(h)
	lineNodes(gn, &a)
	lineNodes(hn, &b)
	if hn.CT != gn.CT || hn.T != gn.T || len(a) != len(b) {
		bad("structure", h.AsText())
		return
	}
	mag := magnitude(oracle.FromGeom(g))
	for li := range a {
		oc, dc := a[li].Coords, b[li].Coords
		j := 0
		for i := 0; i < len(oc); i++ {
			// the original vertex i must appear at or after j
			start := j
			for j < len(dc) && !sameTuple(dc[j], oc[i]) {
				j++
			}
			if j == len(dc) {
				bad("originalVertexLost", fmt.Sprintf("line %d vertex %d %v not found in order in %v", li, i, oc[i], dc))
				return
			}
			if i > 0 {
				// everything strictly between the previous original and this one lies on the original segment
				p0, p1 := ptOf(oc[i-1]), ptOf(oc[i])
				prev := dc[start-1]
				for k := start; k <= j; k++ {
					q := ptOf(dc[k])
					if k < j {
						if d2 := exact.DistPtSeg2(q, p0, p1); exact.SqrtFloat(d2) > 8*2.3e-16*mag {
							bad("insertedPointOffSegment", fmt.Sprintf("%v is %g from segment %v-%v", dc[k], exact.SqrtFloat(d2), oc[i-1], oc[i]))
							return
						}
					}
					if gap := math.Hypot(dc[k][0]-prev[0], dc[k][1]-prev[1]); gap > d*(1+1e-12)+64*2.3e-16*mag {
						bad("gapTooLong", fmt.Sprintf("gap %g > %g between %v and %v", gap, d, prev, dc[k]))
						return
					}
					prev = dc[k]
				}
			} else if j != 0 {
				bad("pointBeforeFirstVertex", fmt.Sprint(dc[:j]))
				return
			}
			j++
		}
		if j != len(dc) {
			bad("pointsAfterLastVertex", fmt.Sprint(dc[j:]))
		}
	}
}

// ---- Simplify ----------------------------------------------------------------------

func distToLine(p, a, b exact.Pt) float64 {
	if a.Eq(b) {
		return exact.SqrtFloat(exact.Dist2(p, a))
	}
	cr := exact.Cross(b.Sub(a), p.Sub(a))
	return exact.SqrtFloat(cr.Mul(cr).Div(exact.Dist2(a, b)))
}

func c17Simplify(r *engine.Run, g geom.Geometry, t float64) {
	c := c17Case{WKT: g.AsText(), Op: "Simplify", Arg: t}
	bad := func(k, s string) { r.Violation("C17/Simplify."+k, "op", c, s) }
	var h geom.Geometry
	var err error
	r.Transitions.Add(1)
	r.Evaluations.Add(1)
	if p := engine.SafeCall(func() { h, err = g.Simplify(t) }); p != nil {
		bad("panic", fmt.Sprint(p))
		return
	}
	if err != nil {
		return // an error instead of an invalid geometry is allowed
	}
	if verr := h.Validate(); verr != nil {
		bad("invalidWithoutError", verr.Error()+": "+h.AsText())
		return
	}
	gn, hn := refcodec.Describe(g), refcodec.Describe(h)
	if hn.CT != gn.CT || hn.T != gn.T {
		bad("typeOrCoordinatesType", h.AsText())
		return
	}
	var a, b []refcodec.Node
	var ext []int
	lineNodesMeta(gn, &a, &ext)
	lineNodes(hn, &b)
	// every output line is a subsequence (same ends) of some input line, in order; lines may collapse to
	// nothing, but only when the threshold allows it (checked below for every input line left unmatched)
	matchedIn := make([]bool, len(a))
	defer func() {
		for i := range a {
			if matchedIn[i] || len(a[i].Coords) == 0 || (ext[i] >= 0 && !matchedIn[ext[i]]) {
				continue // kept, empty already, or a hole of a polygon whose shell collapsed
			}
			if !canVanish(a[i].Coords, t) {
				bad("lineVanished", fmt.Sprintf("input line/ring #%d %v is absent from the result although it cannot collapse at threshold %g; result %s", i, a[i].Coords, t, h.AsText()))
				return
			}
		}
	}()
	ai := 0
	for _, out := range b {
		if len(out.Coords) == 0 {
			continue
		}
		matched := false
		for ; ai < len(a) && !matched; ai++ {
			in := a[ai].Coords
			if len(in) == 0 || !sameTuple(in[0], out.Coords[0]) || !sameTuple(in[len(in)-1], out.Coords[len(out.Coords)-1]) {
				continue
			}
			// subsequence with bracket check
			j := 0
			ok := true
			var kept []int
			for _, oc := range out.Coords {
				for j < len(in) && !sameTuple(in[j], oc) {
					j++
				}
				if j == len(in) {
					ok = false
					break
				}
				kept = append(kept, j)
				j++
			}
			if !ok || kept[0] != 0 {
				continue
			}
			// the last output vertex must be the last input vertex (not an earlier equal one)
			kept[len(kept)-1] = len(in) - 1
			matched = true
			matchedIn[ai] = true
			for k := 0; k+1 < len(kept); k++ {
				pa, pb := ptOf(in[kept[k]]), ptOf(in[kept[k+1]])
				for m := kept[k] + 1; m < kept[k+1]; m++ {
					if d := distToLine(ptOf(in[m]), pa, pb); d > t*(1+1e-12)+1e-14*math.Max(math.Abs(in[m][0]), math.Abs(in[m][1]))+1e-300 {
						bad("droppedVertexTooFar", fmt.Sprintf("vertex %v dropped although %g from the line through %v and %v (threshold %g); result %s", in[m], d, in[kept[k]], in[kept[k+1]], t, h.AsText()))
						return
					}
				}
			}
		}
		if !matched {
			bad("notASubsequenceWithSameEnds", h.AsText())
			return
		}
	}
}

// ---- Interpolate -------------------------------------------------------------------

func bigf(f float64) *big.Float { return new(big.Float).SetPrec(200).SetFloat64(f) }

// exactInterp: point at arc fraction f (already clamped) of the polyline cs (XY[ZM] tuples).
func exactInterp(cs [][]float64, f float64) []float64 {
	n := len(cs)
	lens := make([]*big.Float, n-1)
	total := bigf(0)
	for i := 0; i+1 < n; i++ {
		lens[i] = exact.SqrtBig(exact.Dist2(ptOf(cs[i]), ptOf(cs[i+1])))
		total.Add(total, lens[i])
	}
	if total.Sign() == 0 {
		return cs[0]
	}
	target := new(big.Float).SetPrec(200).Mul(bigf(f), total)
	acc := bigf(0)
	for i := 0; i+1 < n; i++ {
		next := new(big.Float).SetPrec(200).Add(acc, lens[i])
		if lens[i].Sign() > 0 && (target.Cmp(next) <= 0 || i == n-2) {
			t := new(big.Float).SetPrec(200).Sub(target, acc)
			t.Quo(t, lens[i])
			out := make([]float64, len(cs[i]))
			for k := range out {
				d := new(big.Float).SetPrec(200).Sub(bigf(cs[i+1][k]), bigf(cs[i][k]))
				d.Mul(d, t)
				d.Add(d, bigf(cs[i][k]))
				out[k], _ = d.Float64()
			}
			return out
		}
		acc = next
	}
	return cs[n-1]
}

func c17Interpolate(r *engine.Run, ls geom.LineString) {
	g := ls.AsGeometry()
	n := refcodec.Describe(g)
	cs := n.Coords
	mag := magnitude(oracle.FromGeom(g))
	tol := 1e-11 * mag
	var fracs []float64
	for _, f := range []float64{-1, -0.0, 0, 1, 2, 0.5, math.Inf(1), math.Inf(-1)} {
		fracs = append(fracs, f)
	}
	for k := 0; k <= 8; k++ {
		fracs = append(fracs, float64(k)/8)
	}
	// cumulative-length breakpoints ± 1 ulp
	var cum, total float64
	for i := 0; i+1 < len(cs); i++ {
		total += math.Hypot(cs[i+1][0]-cs[i][0], cs[i+1][1]-cs[i][1])
	}
	for i := 0; i+1 < len(cs) && total > 0; i++ {
		cum += math.Hypot(cs[i+1][0]-cs[i][0], cs[i+1][1]-cs[i][1])
		f := cum / total
		fracs = append(fracs, f, math.Nextafter(f, 0), math.Nextafter(f, 2))
	}
	for _, f := range fracs {
		c := c17Case{WKT: g.AsText(), Op: "InterpolatePoint", Arg: f}
		var p geom.Point
		r.Transitions.Add(1)
		r.Evaluations.Add(1)
		if pn := engine.SafeCall(func() { p = ls.InterpolatePoint(f) }); pn != nil {
			r.Violation("C17/InterpolatePoint.panic", "op", c, fmt.Sprint(pn))
			continue
		}
		co, ok := p.Coordinates()
		if !ok {
			r.Violation("C17/InterpolatePoint.empty", "op", c, "")
			continue
		}
		got := []float64{co.X, co.Y}
		if n.CT.Is3D() {
			got = append(got, co.Z)
		}
		if n.CT.IsMeasured() {
			got = append(got, co.M)
		}
		if p.CoordinatesType() != n.CT {
			r.Violation("C17/InterpolatePoint.coordinatesType", "op", c, p.AsText())
			continue
		}
		finite := true
		for _, v := range got {
			if math.IsNaN(v) || math.IsInf(v, 0) {
				finite = false
			}
		}
		if !finite {
			r.Violation("C17/InterpolatePoint.notFinite", "op", c, p.AsText())
			continue
		}
		cf := math.Max(0, math.Min(1, f))
		want := exactInterp(cs, cf)
		// XY within tolerance of the exact point. At a vertex shared by segments the Z/M
		// payload is two-valued when a repeated vertex carries different Z/M; accept either side.
		if math.Hypot(got[0]-want[0], got[1]-want[1]) > tol {
			r.Violation("C17/InterpolatePoint.position", "op", c, fmt.Sprintf("%v, exact %v", got, want))
			continue
		}
		okZM := true
		for k := 2; k < len(got); k++ {
			if math.Abs(got[k]-want[k]) > 1e-9*math.Max(1, math.Abs(want[k])) {
				okZM = false
			}
		}
		if !okZM {
			// tolerate if the point coincides with an original vertex whose payload it carries
			hit := false
			for _, v := range cs {
				if math.Hypot(v[0]-got[0], v[1]-got[1]) <= tol {
					same := true
					for k := 2; k < len(got); k++ {
						if math.Abs(v[k]-got[k]) > 1e-9*math.Max(1, math.Abs(v[k])) {
							same = false
						}
					}
					hit = hit || same
				}
			}
			if !hit {
				r.Violation("C17/InterpolatePoint.payload", "op", c, fmt.Sprintf("%v, exact %v", got, want))
			}
		}
	}
	for cnt := -1; cnt <= 50; cnt++ {
		c := c17Case{WKT: g.AsText(), Op: "InterpolateEvenlySpacedPoints", ArgI: cnt}
		var mp geom.MultiPoint
		r.Transitions.Add(1)
		r.Evaluations.Add(1)
		if pn := engine.SafeCall(func() { mp = ls.InterpolateEvenlySpacedPoints(cnt) }); pn != nil {
			r.Violation("C17/InterpolateEvenlySpacedPoints.panic", "op", c, fmt.Sprint(pn))
			continue
		}
		wantN := cnt
		if wantN < 0 {
			wantN = 0
		}
		if mp.NumPoints() != wantN || mp.CoordinatesType() != n.CT {
			r.Violation("C17/InterpolateEvenlySpacedPoints.count", "op", c, mp.AsText())
			continue
		}
		for i := 0; i < wantN; i++ {
			f := 0.5
			if wantN > 1 {
				f = float64(i) / float64(wantN-1)
			}
			want := exactInterp(cs, f)
			xy, ok := mp.PointN(i).XY()
			if !ok || math.IsNaN(xy.X) || math.IsNaN(xy.Y) || math.Hypot(xy.X-want[0], xy.Y-want[1]) > tol {
				r.Violation("C17/InterpolateEvenlySpacedPoints.position", "op", c, fmt.Sprintf("point %d is %s, exact %v", i, mp.PointN(i).AsText(), want))
				break
			}
		}
	}
}

// ---- SnapToGrid --------------------------------------------------------------------

func c17Snap(r *engine.Run) {
	// the second row holds exact rounding ties at other grids than 1 (half a step of 10, 100, 1000, 0.1, 0.01)
	ords := []float64{0, 0.5, 1, 1.5, 2.5, 123.456, 1e15, 1e300, 5e-324, 9007199254740992, 0.15, 1e-7, 33333.333333333336, 4503599627370497.5,
		5, 15, 25, 150, 4500, 0.25, 0.125, 0.375}
	n := 0
	for dp := -320; dp <= 320; dp++ {
		for _, a := range ords {
			for _, x := range []float64{a, -a} {
				n++
				c := c17Case{WKT: fmt.Sprintf("POINT(%v %v)", x, -x), Op: "SnapToGrid", Arg: x, ArgI: dp}
				var p geom.Geometry
				r.Transitions.Add(1)
				r.Evaluations.Add(1)
				if pn := engine.SafeCall(func() { p = geom.NewPointXY(x, -x).AsGeometry().SnapToGrid(dp) }); pn != nil {
					r.Violation("C17/SnapToGrid.panic", "snap", c, fmt.Sprint(pn))
					continue
				}
				xy, _ := p.MustAsPoint().XY()
				s := xy.X
				if math.IsNaN(s) || math.IsInf(s, 0) || math.IsNaN(xy.Y) || math.IsInf(xy.Y, 0) {
					r.Violation("C17/SnapToGrid.nonFiniteFromFinite", "snap", c, p.AsText())
					continue
				}
				if xy.Y != -s {
					r.Violation("C17/SnapToGrid.notOdd", "snap", c, p.AsText())
				}
				// |Δ| ≤ ½·10^-dp (+ rounding): exact with rationals when 10^-dp is representable as a rational of sane size
				if dp >= -320 && dp <= 320 {
					step := pow10Rat(-dp) // 10^-dp
					diff := new(big.Rat).Sub(new(big.Rat).SetFloat64(s), new(big.Rat).SetFloat64(x))
					diff.Abs(diff)
					lim := new(big.Rat).Mul(step, big.NewRat(1, 2))
					slack := new(big.Rat).Abs(new(big.Rat).SetFloat64(x))
					slack.Mul(slack, new(big.Rat).SetFrac(big.NewInt(1), new(big.Int).Lsh(big.NewInt(1), 50)))
					lim.Add(lim, slack)
					lim.Add(lim, new(big.Rat).SetFloat64(5e-324))
					if diff.Cmp(lim) > 0 {
						r.Violation("C17/SnapToGrid.movedMoreThanHalfStep", "snap", c, fmt.Sprintf("%v → %v", x, s))
					}
				}
				if math.Abs(x)*math.Pow10(dp) < 1<<40 {
					var q geom.Geometry
					engine.SafeCall(func() { q = p.SnapToGrid(dp) })
					if qxy, _ := q.MustAsPoint().XY(); qxy != xy {
						r.Violation("C17/SnapToGrid.notIdempotent", "snap", c, p.AsText()+" → "+q.AsText())
					}
				}
				if s != x {
					r.Nontrivial(fmt.Sprint("snap", x, dp))
				}
			}
		}
	}
	r.States.Add(int64(n))
	r.Bound(fmt.Sprintf("SnapToGrid: decimal places -320..320 × %d ordinates × sign (%d cases)", len(ords), n))
	r.Sample("snap", c17Case{WKT: "POINT(-1e+300 1e+300)", Op: "SnapToGrid", Arg: -1e300, ArgI: 20})
}

// ---- Reverse / ForceCW / ForceCCW -------------------------------------------------------

func c17Orient(r *engine.Run, g geom.Geometry) {
	c := c17Case{WKT: g.AsText(), Op: "Reverse/ForceCW/ForceCCW"}
	bad := func(k, s string) { r.Violation("C17/"+k, "op", c, s) }
	n := refcodec.Describe(g)
	r.Transitions.Add(6)
	r.Evaluations.Add(1)
	var rv, rr, cw, ccw geom.Geometry
	if p := engine.SafeCall(func() { rv = g.Reverse(); rr = rv.Reverse(); cw = g.ForceCW(); ccw = g.ForceCCW() }); p != nil {
		bad("orient.panic", fmt.Sprint(p))
		return
	}
	if d := refcodec.Diff(n, refcodec.Describe(rr)); d != "" {
		bad("Reverse.notInvolution", d)
	}
	if (g.Validate() == nil) != (rv.Validate() == nil) {
		bad("Reverse.changesValidity", rv.AsText())
	}
	x := oracle.FromGeom(g)
	for name, h := range map[string]geom.Geometry{"Reverse": rv, "ForceCW": cw, "ForceCCW": ccw} {
		p := oracle.NewPair(x, oracle.FromGeom(h))
		same := true
		for _, in := range p.VIn {
			same = same && in[0] == in[1]
		}
		for _, in := range p.EIn {
			same = same && in[0] == in[1]
		}
		for _, in := range p.FIn {
			same = same && in[0] == in[1]
		}
		if !same {
			bad(name+".pointSetChanged", h.AsText())
		}
		if fmt.Sprint(tuples(refcodec.Describe(h))) != fmt.Sprint(tuples(n)) {
			bad(name+".vertexMultisetChanged", h.AsText())
		}
	}
	if !cw.IsCW() {
		bad("ForceCW.notIsCW", cw.AsText())
	}
	if !ccw.IsCCW() {
		bad("ForceCCW.notIsCCW", ccw.AsText())
	}
	// independent of IsCW/IsCCW: the exact signed area of every ring of the forced geometries
	// (shells clockwise and holes counter-clockwise after ForceCW, the reverse after ForceCCW)
	exactWinding := func(n refcodec.Node, shellSign int) string {
		var walk func(n refcodec.Node) string
		walk = func(n refcodec.Node) string {
			if n.T == geom.TypePolygon {
				for i, ring := range n.Kids {
					var pts []exact.Pt
					for _, c := range ring.Coords {
						pts = append(pts, ptOf(c))
					}
					a, _, _ := ringMoments(pts)
					want := shellSign
					if i > 0 {
						want = -shellSign
					}
					if a.Sign() != want {
						return fmt.Sprintf("ring %d %v has exact signed area of sign %d, want %d", i, ring.Coords, a.Sign(), want)
					}
				}
				return ""
			}
			for _, k := range n.Kids {
				if n.T == geom.TypeLineString {
					break
				}
				if d := walk(k); d != "" {
					return d
				}
			}
			return ""
		}
		return walk(n)
	}
	if d := exactWinding(refcodec.Describe(cw), -1); d != "" {
		bad("ForceCW.exactWinding", d)
	}
	if d := exactWinding(refcodec.Describe(ccw), 1); d != "" {
		bad("ForceCCW.exactWinding", d)
	}
	if d := refcodec.Diff(refcodec.Describe(cw), refcodec.Describe(cw.ForceCW())); d != "" {
		bad("ForceCW.notIdempotent", d)
	}
	if d := refcodec.Diff(refcodec.Describe(ccw), refcodec.Describe(ccw.ForceCCW())); d != "" {
		bad("ForceCCW.notIdempotent", d)
	}
	if d := refcodec.Diff(refcodec.Describe(ccw), refcodec.Describe(cw.ForceCCW())); d != "" {
		bad("ForceCCW.afterForceCW", d)
	}
	// the same through the concrete types' own methods (they have their own already-oriented shortcut)
	var ccw2, cw2 geom.Geometry
	switch g.Type() {
	case geom.TypePolygon:
		cw2, ccw2 = g.MustAsPolygon().ForceCW().AsGeometry(), g.MustAsPolygon().ForceCCW().AsGeometry()
	case geom.TypeMultiPolygon:
		cw2, ccw2 = g.MustAsMultiPolygon().ForceCW().AsGeometry(), g.MustAsMultiPolygon().ForceCCW().AsGeometry()
	case geom.TypeGeometryCollection:
		cw2, ccw2 = g.MustAsGeometryCollection().ForceCW().AsGeometry(), g.MustAsGeometryCollection().ForceCCW().AsGeometry()
	default:
		return
	}
	if d := refcodec.Diff(refcodec.Describe(cw), refcodec.Describe(cw2)); d != "" {
		bad("ForceCW.concreteTypeDiffersFromGeometry", d)
	}
	if d := refcodec.Diff(refcodec.Describe(ccw), refcodec.Describe(ccw2)); d != "" {
		bad("ForceCCW.concreteTypeDiffersFromGeometry", d)
	}
}

func c17Main(r *engine.Run) {
	r.Rule = "valid lineal/areal lattice geometries (every vertex sequence of length ≤4 on 3×3 with ≥2 distinct points incl. repeated consecutive vertices at start/middle/end, closed rings, simple polygons, polygons with holes and mixed ring windings, multis and collections, 4 coordinate types with tagged Z/M, affine images) × parameters: Densify d ∈ diam×{1e-3 (≤3 vertices),0.1,0.5,1,√2,10}; Simplify t ∈ {0, every vertex-to-chord distance ±1 ulp, diam}; InterpolatePoint f ∈ {−1,0,1,2,±Inf,k/8, every cumulative-length breakpoint ±1 ulp}; InterpolateEvenlySpacedPoints n ∈ −1..50; SnapToGrid places −320..320 × 14 ordinates × sign; Reverse/ForceCW/ForceCCW. Oracles use exact rationals and 200-bit floats. non-trivial = lines with a repeated vertex, snaps that move the ordinate, polygons with mixed winding"
	c17Snap(r)
	id := universe.Identity
	pts := universe.LatticePoints(3)
	type lineItem struct {
		ls   geom.LineString
		note string
	}
	var lines []lineItem
	for n := 2; n <= 4; n++ {
		allSeqs(pts, n, func(s []universe.LPt) {
			distinct := false
			for _, p := range s {
				distinct = distinct || p != s[0]
			}
			if !distinct {
				return
			}
			if !r.Thorough() && n == 4 && (s[0].X*7+s[1].Y*3+s[2].X+s[3].Y)%5 != 0 {
				return
			}
			lines = append(lines, lineItem{id.Line(s), "lattice line"})
		})
	}
	// Z/M tagged and float-image variants of a stride
	co, si := 0.955336489125606, 0.29552020666133955
	base := len(lines)
	for i := 0; i < base; i += 11 {
		s := lines[i].ls.Coordinates()
		var fl []float64
		for k := 0; k < s.Length(); k++ {
			xy := s.GetXY(k)
			fl = append(fl, xy.X, xy.Y, float64(1000+k*k), float64(2000-3*k))
		}
		lines = append(lines, lineItem{geom.NewLineString(geom.NewSequence(fl, geom.DimXYZM)), "ZM tagged"})
		var rot []float64
		for k := 0; k < s.Length(); k++ {
			xy := s.GetXY(k)
			rot = append(rot, 1e3*(co*xy.X-si*xy.Y)+1e6, 1e3*(si*xy.X+co*xy.Y))
		}
		lines = append(lines, lineItem{geom.NewLineString(geom.NewSequence(rot, geom.DimXY)), "float image"})
		if i%33 == 0 {
			// far from unit magnitude: lengths, fractions and thresholds must scale with the input
			for _, sc := range []float64{1e-100, 1e100, 0.07} { // 0.07: segment lengths and distances below 1 (squares smaller than the values)
				var im []float64
				for k := 0; k < s.Length(); k++ {
					xy := s.GetXY(k)
					im = append(im, sc*(co*xy.X-si*xy.Y), sc*(si*xy.X+co*xy.Y))
				}
				lines = append(lines, lineItem{geom.NewLineString(geom.NewSequence(im, geom.DimXY)), fmt.Sprintf("float image at scale %g", sc)})
			}
		}
	}
	// long lines (8..12 segments of unequal lengths, turning at every vertex): evenly spaced samples
	// skip whole segments, land on vertices, and walk around a ring more than once
	{
		mkLine := func(lens []int) []universe.LPt {
			p := universe.LPt{}
			out := []universe.LPt{p}
			for i, l := range lens {
				switch i % 4 {
				case 0:
					p.X += l
				case 1:
					p.Y += l
				case 2:
					p.X += l
				default:
					p.Y -= l
				}
				out = append(out, p)
			}
			return out
		}
		for _, lens := range [][]int{{1, 1, 1, 1, 1, 1, 1, 1}, {3, 1, 1, 4, 1, 2, 1, 1}, {1, 5, 1, 1, 1, 1, 7, 1, 1, 2}, {2, 1, 2, 1, 2, 1, 2, 1, 2, 1, 2, 1}, {9, 1, 1, 1, 1, 1, 1, 1, 1}} {
			pts := mkLine(lens)
			lines = append(lines, lineItem{id.Line(pts), "long line"}, lineItem{id.Line(rotateRing(append(append([]universe.LPt{}, pts...), pts[0]), 0, true)[:len(pts)]), "long line reversed"})
		}
		lap := []universe.LPt{{0, 0}, {3, 0}, {3, 1}, {0, 1}, {0, 0}, {3, 0}, {3, 1}, {0, 1}, {0, 0}}
		lines = append(lines, lineItem{id.Line(lap), "two laps of a rectangle"})
	}
	r.States.Add(int64(len(lines)))
	if r.Parallel(len(lines), func(i int) {
		ls := lines[i].ls
		g := ls.AsGeometry()
		cs := refcodec.Describe(g).Coords
		diam := 0.0
		repeated := false
		for a := range cs {
			if a > 0 && cs[a][0] == cs[a-1][0] && cs[a][1] == cs[a-1][1] {
				repeated = true
			}
			for b := range cs {
				diam = math.Max(diam, math.Hypot(cs[a][0]-cs[b][0], cs[a][1]-cs[b][1]))
			}
		}
		ds := []float64{0.1, 0.5, 1, math.Sqrt2, 10}
		if len(cs) <= 3 {
			ds = append(ds, 1e-3)
		}
		for _, d := range ds {
			c17Densify(r, g, d*diam)
		}
		ts := []float64{0, diam, diam / 2}
		for a := range cs {
			for b := a + 2; b < len(cs); b++ {
				for m := a + 1; m < b; m++ {
					d := distToLine(ptOf(cs[m]), ptOf(cs[a]), ptOf(cs[b]))
					ts = append(ts, d, math.Nextafter(d, 0), math.Nextafter(d, math.Inf(1)))
				}
			}
		}
		for _, t := range ts {
			c17Simplify(r, g, t)
		}
		c17Interpolate(r, ls)
		c17Orient(r, g)
		if repeated {
			r.Nontrivial(g.AsText())
		}
		if i%499 == 0 {
			r.Sample("op", c17Case{WKT: g.AsText(), Op: "Simplify", Arg: ts[len(ts)-1]})
		}
	}) {
		r.Bound(fmt.Sprintf("%d lines × (Densify × 5-6 distances, Simplify × all chord distances ±1 ulp, InterpolatePoint × ~25 fractions, InterpolateEvenlySpacedPoints × 52 counts, Reverse/ForceCW/ForceCCW)", len(lines)))
	}
	// areal / collection geometries
	var areal []geom.Geometry
	for i, p := range universe.SimplePolygons(3, 9) {
		if r.Thorough() || i%3 == 0 {
			areal = append(areal, id.Polygon(p).AsGeometry(), id.Polygon(rotateRing(p, 1, true)).AsGeometry())
		}
	}
	for _, o := range HolesFamily(id) {
		areal = append(areal, o.G)
	}
	// mixed ring windings (neither CW nor CCW as a whole)
	sq := func(x0, y0, x1, y1 int) []universe.LPt {
		return []universe.LPt{{x0, y0}, {x1, y0}, {x1, y1}, {x0, y1}, {x0, y0}}
	}
	rv := func(p []universe.LPt) []universe.LPt { return rotateRing(p, 0, true) }
	for _, rings := range [][][]universe.LPt{
		{sq(0, 0, 5, 5), sq(1, 1, 2, 2)}, {rv(sq(0, 0, 5, 5)), rv(sq(1, 1, 2, 2))}, {sq(0, 0, 5, 5), rv(sq(1, 1, 2, 2)), sq(3, 3, 4, 4)}, {rv(sq(0, 0, 5, 5)), sq(1, 1, 2, 2), rv(sq(3, 3, 4, 4))},
	} {
		p := id.Polygon(rings...)
		areal = append(areal, p.AsGeometry(),
			geom.NewMultiPolygon([]geom.Polygon{p, id.Polygon(sq(7, 0, 9, 2))}).AsGeometry(),
			geom.NewMultiPolygon([]geom.Polygon{id.Polygon(rv(sq(7, 0, 9, 2))), p}).AsGeometry(),
			geom.NewGeometryCollection([]geom.Geometry{p.AsGeometry(), id.Line([]universe.LPt{{0, 7}, {3, 7}}).AsGeometry(), geom.Polygon{}.AsGeometry()}).AsGeometry())
	}
	for _, o := range BuildAlphabet(id, 0).Multis {
		areal = append(areal, o.G)
	}
	for _, o := range BuildAlphabet(id, 0).GCs {
		areal = append(areal, o.G)
	}
	// simplification that would make the result invalid must be reported, not returned:
	// (a) a MultiPolygon whose second member's tip sits inside a V-notch of the first (dropping the
	// notch apex makes the members overlap); (b) a polygon whose hole sits inside an outward bump
	// of the shell (dropping the bump apex leaves the hole outside). Every notch depth × tip depth,
	// both member orders, inside a collection, and with Z.
	var fragile []geom.Geometry
	for _, d := range []int{10, 15, 25} {
		for _, e := range []int{2, 5, 8} {
			notched := id.Polygon([]universe.LPt{{0, 0}, {50, 0}, {50, 50}, {30, 50}, {25, 50 - d}, {20, 50}, {0, 50}, {0, 0}})
			tooth := id.Polygon([]universe.LPt{{25, 50 - d + e}, {27, 60}, {55, 90}, {-5, 90}, {23, 60}, {25, 50 - d + e}})
			// the hole starts at its top vertex so that Douglas-Peucker keeps it up to thresholds beyond d
			bumped := id.Polygon([]universe.LPt{{0, 0}, {50, 0}, {50, 50}, {45, 50}, {25, 50 + d}, {5, 50}, {0, 50}, {0, 0}},
				[]universe.LPt{{25, 50 + d - e}, {10, 51}, {40, 51}, {25, 50 + d - e}})
			for _, g := range []geom.Geometry{
				geom.NewMultiPolygon([]geom.Polygon{notched, tooth}).AsGeometry(),
				geom.NewMultiPolygon([]geom.Polygon{tooth, notched}).AsGeometry(),
				geom.NewGeometryCollection([]geom.Geometry{geom.NewMultiPolygon([]geom.Polygon{notched, tooth}).AsGeometry(), id.Point(universe.LPt{X: 99, Y: 99}).AsGeometry()}).AsGeometry(),
				bumped.AsGeometry(),
				geom.NewMultiPolygon([]geom.Polygon{bumped}).AsGeometry(),
			} {
				if g.Validate() != nil {
					panic("c17: fragile family member invalid: " + g.AsText())
				}
				fragile = append(fragile, g, withZM(g, geom.DimXYZ))
			}
		}
	}
	// several holes of different sizes in every order: at thresholds between their sizes some collapse
	// and the others must stay (a ring may only vanish when the threshold lets it collapse)
	{
		holes := [][]universe.LPt{
			{{2, 2}, {3, 2}, {2, 3}, {2, 2}},              // collapses from t ≈ 0.71
			{{10, 2}, {14, 2}, {14, 6}, {10, 6}, {10, 2}}, // from t ≈ 2.83
			{{2, 10}, {4, 10}, {4, 12}, {2, 12}, {2, 10}}, // from t ≈ 1.41
			{{10, 10}, {17, 10}, {17, 17}, {10, 17}, {10, 10}},
		}
		shell := sq(0, 0, 20, 20)
		var multi []geom.Geometry
		var rec func(used []int)
		rec = func(used []int) {
			if len(used) >= 2 {
				rings := [][]universe.LPt{shell}
				for _, k := range used {
					rings = append(rings, holes[k])
				}
				p := id.Polygon(rings...)
				multi = append(multi, p.AsGeometry(), geom.NewMultiPolygon([]geom.Polygon{id.Polygon(sq(30, 0, 31, 1)), p}).AsGeometry())
			}
			for k := range holes {
				dup := false
				for _, u := range used {
					dup = dup || u == k
				}
				if !dup {
					rec(append(append([]int{}, used...), k))
				}
			}
		}
		rec(nil)
		for _, g := range multi {
			if g.Validate() != nil {
				panic("c17: multi-hole family member invalid: " + g.AsText())
			}
		}
		r.States.Add(int64(len(multi)))
		if r.Parallel(len(multi), func(i int) {
			for _, t := range []float64{0, 0.5, 0.8, 1.2, 1.5, 2, 3, 4, 6, 15} {
				c17Simplify(r, multi[i], t)
			}
		}) {
			r.Bound(fmt.Sprintf("%d polygons with 2..4 holes of four sizes in every order (alone and as a MultiPolygon member) × 10 thresholds between the sizes: no ring vanishes unless it can collapse", len(multi)))
		}
	}
	// rings of one polygon with very different segment lengths: a finely sampled shell around coarse
	// holes and the reverse (each ring has its own gaps; none may be judged by another ring's)
	{
		fine := func(x0, y0, w, step int) []universe.LPt {
			var ring []universe.LPt
			for x := x0; x < x0+w; x += step {
				ring = append(ring, universe.LPt{X: x, Y: y0})
			}
			for y := y0; y < y0+w; y += step {
				ring = append(ring, universe.LPt{X: x0 + w, Y: y})
			}
			for x := x0 + w; x > x0; x -= step {
				ring = append(ring, universe.LPt{X: x, Y: y0 + w})
			}
			for y := y0 + w; y > y0; y -= step {
				ring = append(ring, universe.LPt{X: x0, Y: y})
			}
			return append(ring, ring[0])
		}
		tri := []universe.LPt{{1, 1}, {7, 1}, {1, 7}, {1, 1}}
		polys := []geom.Polygon{
			id.Polygon(fine(0, 0, 8, 2), tri),                                                   // fine shell, coarse hole
			id.Polygon(sq(0, 0, 8, 8), fine(2, 2, 4, 1)),                                        // coarse shell, fine hole
			id.Polygon(fine(0, 0, 16, 2), fine(1, 1, 4, 1), sq(8, 8, 14, 14), fine(8, 1, 4, 2)), // mixed holes, coarse one in the middle
		}
		var gs []geom.Geometry
		for _, p := range polys {
			gs = append(gs, p.AsGeometry(), withZM(p.AsGeometry(), geom.DimXYZM),
				geom.NewMultiPolygon([]geom.Polygon{id.Polygon(fine(20, 0, 2, 1)), p}).AsGeometry(),
				geom.NewGeometryCollection([]geom.Geometry{id.Point(universe.LPt{X: 30, Y: 30}).AsGeometry(), p.AsGeometry()}).AsGeometry())
		}
		for _, g := range gs {
			if g.Validate() != nil {
				panic("c17: mixed-sampling family member invalid: " + g.AsText())
			}
		}
		r.States.Add(int64(len(gs)))
		if r.Parallel(len(gs), func(i int) {
			for _, d := range []float64{0.7, 1, 1.5, 2, 2.5, 3, 5, 6, 7, 8.5, 20} {
				c17Densify(r, gs[i], d)
			}
		}) {
			r.Bound(fmt.Sprintf("%d polygons whose rings are sampled at different steps (fine shell / coarse hole and the reverse, alone, with Z/M, as a member) × 11 distances around every segment length", len(gs)))
		}
	}
	r.States.Add(int64(len(fragile)))
	if r.Parallel(len(fragile), func(i int) {
		for _, t := range []float64{0, 1, 4.9, 5, 7.5, 9.9, 10, 12, 14.9, 15, 20, 24.9, 25, 30, 60} {
			c17Simplify(r, fragile[i], t)
		}
		r.Nontrivial(fragile[i].AsText())
	}) {
		r.Bound(fmt.Sprintf("%d fragile areal geometries (tooth in a notch, hole in a bump; 3 depths × 3 insets × orders/wrappers/Z) × 15 thresholds around every depth: valid result or error", len(fragile)))
	}
	r.States.Add(int64(len(areal)))
	if r.Parallel(len(areal), func(i int) {
		g := areal[i]
		c17Orient(r, g)
		x := oracle.FromGeom(g)
		diam := diameter(x)
		if diam == 0 {
			return
		}
		for _, d := range []float64{0.1, 0.5, 1, math.Sqrt2, 10} {
			c17Densify(r, g, d*diam)
		}
		for _, t := range []float64{0, 0.5, 1, math.Sqrt2 / 2, math.Nextafter(math.Sqrt2/2, 1), 2, diam} {
			c17Simplify(r, g, t)
		}
		if !g.IsCW() && !g.IsCCW() {
			r.Nontrivial(g.AsText())
		}
		// small features far from the origin (exact in float64: k/64 + 2^24, k/64 − 2^22, and k/1024
		// near (1.6e7, −4e6)): ring areas are far below one ulp of x·y, orientation is still exact
		for _, f := range []func(geom.XY) geom.XY{
			func(p geom.XY) geom.XY { return geom.XY{X: p.X/64 + 16777216, Y: p.Y/64 - 4194304} },
			func(p geom.XY) geom.XY { return geom.XY{X: p.X/1024 - 16000000, Y: p.Y/1024 + 4000000} },
		} {
			c17Orient(r, g.TransformXY(f))
		}
	}) {
		r.Bound(fmt.Sprintf("%d areal / multi / collection geometries × (Densify × 5, Simplify × 7, Reverse/ForceCW/ForceCCW; orientation also on two exact images with features 1e-8 of their distance from the origin)", len(areal)))
	}
}

func c17Replay(r *engine.Run, sub string, raw json.RawMessage) error {
	var c c17Case
	if err := json.Unmarshal(raw, &c); err != nil {
		return err
	}
	if sub == "snap" {
		c17Snap(r)
		return nil
	}
	g, err := geom.UnmarshalWKT(c.WKT, geom.NoValidate{})
	if err != nil {
		return err
	}
	switch c.Op {
	case "Densify":
		c17Densify(r, g, c.Arg)
	case "Simplify":
		c17Simplify(r, g, c.Arg)
	case "InterpolatePoint", "InterpolateEvenlySpacedPoints":
		if g.IsLineString() {
			c17Interpolate(r, g.MustAsLineString())
		}
	default:
		c17Orient(r, g)
	}
	return nil
}

func init() {
	engine.Register(&engine.Check{ID: "C17", Main: c17Main, Replay: c17Replay})
}

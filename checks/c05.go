package checks

import (
	"encoding/json"
	"fmt"
	"math"
	"strconv"
	"strings"

	"github.com/peterstace/simplefeatures/geom"
	"verif/engine"
	"verif/refcodec"
	"verif/universe"
)

// finite float classes for WKT (no NaN/Inf: WKT cannot express them)
var floatFinite = floatXY

func sameToks(a, b []refcodec.Tok) string {
	if len(a) != len(b) {
		return fmt.Sprintf("%d tokens vs %d", len(a), len(b))
	}
	for i := range a {
		if a[i].Kind != b[i].Kind || a[i].Text != b[i].Text {
			return fmt.Sprintf("token %d: %q vs %q", i, a[i].Text, b[i].Text)
		}
	}
	return ""
}

var wktSeps = []string{"", " ", "\t", "\n", " \r\n "}

func altCase(s string, mode int) string {
	switch mode {
	case 1:
		return strings.ToLower(s)
	case 2:
		b := []byte(strings.ToLower(s))
		for i := 0; i < len(b); i += 2 {
			b[i] = strings.ToUpper(string(b[i]))[0]
		}
		return string(b)
	}
	return s
}

func isTypeKeyword(s string) bool {
	switch s {
	case "POINT", "LINESTRING", "POLYGON", "MULTIPOINT", "MULTILINESTRING", "MULTIPOLYGON", "GEOMETRYCOLLECTION":
		return true
	}
	return false
}

func c05One(r *engine.Run, g geom.Geometry, c shapeCase, devs int) {
	bad := func(k, d string) { r.Violation("C05/"+k, "shape", c, d) }
	n := refcodec.Describe(g)
	want := refcodec.WKTTokens(n)
	var text string
	if p := engine.SafeCall(func() { text = g.AsText() }); p != nil {
		bad("AsText.panic", fmt.Sprint(p))
		return
	}
	r.Transitions.Add(1)
	got, err := refcodec.Lex(text)
	if err != nil {
		bad("AsText.lexical", err.Error()+" in "+text)
		return
	}
	if d := sameToks(got, want); d != "" {
		bad("AsText.grammar", d+" in "+text)
		return
	}
	for _, t := range got {
		if t.Kind == 'n' && strings.ContainsAny(t.Text, "eE+") {
			bad("AsText.exponentForm", t.Text)
		}
	}
	for _, prefix := range []string{"", "x:", strings.Repeat("0123456789abcdef", 64)} {
		var ap []byte
		r.Transitions.Add(1)
		if p := engine.SafeCall(func() { ap = g.AppendWKT([]byte(prefix)) }); p != nil {
			bad("AppendWKT.panic", fmt.Sprint(p))
			break
		}
		if string(ap) != prefix+text {
			bad("AppendWKT", string(ap))
		}
	}
	parse := func(s, what string) {
		r.Transitions.Add(1)
		r.Evaluations.Add(1)
		var g2 geom.Geometry
		var err error
		if p := engine.SafeCall(func() { g2, err = geom.UnmarshalWKT(s, geom.NoValidate{}) }); p != nil {
			bad("UnmarshalWKT.panic:"+what, fmt.Sprint(p, " in ", strconv.Quote(s)))
			return
		}
		if err != nil {
			bad("UnmarshalWKT.rejects:"+what, err.Error()+" in "+strconv.Quote(s))
			return
		}
		if d := refcodec.Diff(n, refcodec.Describe(g2)); d != "" {
			bad("UnmarshalWKT.notIdentical:"+what, d+" in "+strconv.Quote(s))
		}
	}
	parse(text, "canonical")
	// WKT-decoded equals WKB-decoded
	if gb, err := geom.UnmarshalWKB(g.AsBinary(), geom.NoValidate{}); err != nil {
		bad("wkbOfSame", err.Error())
	} else if gt, err := geom.UnmarshalWKT(text, geom.NoValidate{}); err == nil {
		if d := refcodec.Diff(refcodec.Describe(gb), refcodec.Describe(gt)); d != "" {
			bad("wktVsWkb", d)
		}
	}
	// trailing tokens are rejected
	for _, tr := range []string{")", "0", "EMPTY", "POINT(1 1)", ",", "("} {
		r.Transitions.Add(1)
		if _, err := geom.UnmarshalWKT(text+" "+tr, geom.NoValidate{}); err == nil {
			bad("acceptsTrailingToken", strconv.Quote(text+" "+tr))
		}
	}
	// ---- re-spellings ----
	canon := func(i int, req bool) string {
		if req {
			return " "
		}
		return ""
	}
	nb := len(want)
	// global policies: every boundary with the same separator; keyword case; bare MultiPoint members; exponent numerals
	for _, sp := range wktSeps[1:] {
		parse(refcodec.Render(want, func(int, bool) string { return sp }, nil, nil), "all-separators="+strconv.Quote(sp))
	}
	for mode := 1; mode <= 2; mode++ {
		parse(refcodec.Render(want, canon, nil, func(_ int, t refcodec.Tok) string {
			if t.Kind == 'w' && isTypeKeyword(t.Text) {
				return altCase(t.Text, mode)
			}
			return t.Text
		}), fmt.Sprint("keyword-case-", mode))
	}
	hasOpt := false
	for _, t := range want {
		hasOpt = hasOpt || t.Optional
	}
	if hasOpt {
		parse(refcodec.Render(want, canon, func(i int) bool { return want[i].Optional }, nil), "bare-multipoint-members")
		// each member individually bare
		for i := range want {
			if want[i].Optional && want[i].Text == "(" {
				j := i + 1
				for !want[j].Optional {
					j++
				}
				parse(refcodec.Render(want, canon, func(k int) bool { return k == i || k == j }, nil), "one-bare-multipoint-member")
			}
		}
	}
	for _, fm := range []struct {
		name string
		f    func(v float64) string
	}{
		{"exponent-e", func(v float64) string { return strconv.FormatFloat(v, 'e', -1, 64) }},
		{"exponent-E", func(v float64) string { return strings.ToUpper(strconv.FormatFloat(v, 'e', -1, 64)) }},
		{"exponent-nosign", func(v float64) string { return strings.Replace(strconv.FormatFloat(v, 'e', -1, 64), "e+", "e", 1) }},
		{"trailing-zero", func(v float64) string {
			s := strconv.FormatFloat(v, 'f', -1, 64)
			if strings.Contains(s, ".") {
				return s + "0"
			}
			return s + ".0"
		}},
	} {
		parse(refcodec.Render(want, canon, nil, func(_ int, t refcodec.Tok) string {
			if t.Kind == 'n' {
				return fm.f(t.Val)
			}
			return t.Text
		}), "numerals-"+fm.name)
	}
	// deviation-bounded: one boundary × every separator (and pairs when devs ≥ 2)
	one := func(b1, s1, b2, s2 int) string {
		return refcodec.Render(want, func(i int, req bool) string {
			sp := canon(i, req)
			if i == b1 {
				sp = wktSeps[s1]
			}
			if i == b2 {
				sp = wktSeps[s2]
			}
			if req && sp == "" {
				sp = " "
			}
			return sp
		}, nil, nil)
	}
	if nb <= 60 {
		for b1 := 1; b1 < nb; b1++ {
			for s1 := range wktSeps {
				parse(one(b1, s1, -1, 0), "one-separator")
				if devs >= 2 && nb <= 24 {
					for b2 := b1 + 1; b2 < nb; b2++ {
						for s2 := 2; s2 < len(wktSeps); s2++ {
							parse(one(b1, s1, b2, s2), "two-separators")
						}
					}
				}
			}
		}
	}
}

func c05Main(r *engine.Run) {
	r.Rule = "structural shapes S(d,w) × 4 coordinate types × finite float classes at every rotation, plus zero values of all 8 Go types: AsText token stream vs a reference derived from the OGC BNF, AppendWKT = prefix+AsText, UnmarshalWKT(AsText) structurally bit-identical, equality with the WKB decode, rejection of trailing tokens, and every re-spelling inside the deviation bound (each token boundary × each separator, pairs in thorough; global separator policies; keyword case; bare MultiPoint members; exponent-form and zero-padded numerals). non-trivial = shapes with an empty member, depth ≥ 2 or non-XY"
	d, w, devs := 2, 2, 1
	offs := []int{0, 5, 11}
	if r.Thorough() {
		d, w, devs = 3, 2, 2
		offs = nil
		for o := 0; o < len(floatFinite); o++ {
			offs = append(offs, o)
		}
	}
	// zero values of every Go type
	zeros := []geom.Geometry{{}, geom.Point{}.AsGeometry(), geom.LineString{}.AsGeometry(), geom.Polygon{}.AsGeometry(), geom.MultiPoint{}.AsGeometry(),
		geom.MultiLineString{}.AsGeometry(), geom.MultiPolygon{}.AsGeometry(), geom.GeometryCollection{}.AsGeometry()}
	for i, z := range zeros {
		c := shapeCase{Idx: -1 - i, Note: "zero value #" + fmt.Sprint(i)}
		if p := engine.SafeCall(func() { c05One(r, z, c, 2) }); p != nil {
			r.Violation("C05/panic.zeroValue", "zero", c, fmt.Sprint(p))
		}
		r.Nontrivial(fmt.Sprint("zero", i))
	}
	r.Sample("zero", shapeCase{Idx: -1, Note: "zero value Geometry{}"})
	shapes := append(universe.Shapes(d, w), universe.ShortRingShapes()...)
	r.States.Add(int64(len(shapes) + len(zeros)))
	done := r.Parallel(len(shapes), func(i int) {
		s := shapes[i]
		for _, ct := range allCT {
			for _, o := range offs {
				c := shapeCase{D: d, W: w, Idx: i, Shape: s.String(), CT: int(ct), Sup: "float", Off: o}
				g := universe.Build(s, ct, &universe.FloatSupplier{XYAlpha: floatFinite, ZMAlpha: floatFinite, Off: o})
				if p := engine.SafeCall(func() { c05One(r, g, c, devs) }); p != nil {
					r.Violation("C05/panic", "shape", c, fmt.Sprint(p))
				}
			}
			if s.HasEmptyMember() || s.Depth() >= 2 || ct != geom.DimXY {
				r.Nontrivial(fmt.Sprint(s.String(), ct))
			}
			if i%173 == 0 && ct == geom.DimXYZM {
				r.Sample("shape", shapeCase{D: d, W: w, Idx: i, Shape: s.String(), CT: int(ct), Sup: "float", Off: offs[0]})
			}
		}
	})
	// numeral spelling: values whose shortest float64 decimal differs from a float32-shortest or an
	// exact-integer expansion (integers in [2^53, 2^63), float32-exact values, powers of ten around
	// the exponent-notation thresholds of other formatters)
	numerals := []float64{1 << 60, 1.2345678901234567e18, 9007199254740994, 9223372036854775807, float64(float32(0.1)), 134217728, -1073741824, float64(float32(151.2093)),
		1e21, 1e22, 123456789012345680000, 1e-7, 1.0 / (1 << 40), math.MaxFloat32, 1 + 1.0/(1<<23), 1e15, 1e16, 1e17}
	for i := 0; i+1 < len(numerals); i++ {
		x, y := numerals[i], -numerals[i+1]
		for gi, g := range []geom.Geometry{geom.NewPointXY(x, y).AsGeometry(), geom.NewLineStringXYZM(x, y, y, x, 0, 1, x, y).AsGeometry(),
			geom.NewMultiPointXYZ(x, y, x, y, x, y).AsGeometry()} {
			c := shapeCase{Idx: -100 - 3*i - gi, Note: fmt.Sprintf("numeral classes %v %v", x, y)}
			if p := engine.SafeCall(func() { c05One(r, g, c, 0) }); p != nil {
				r.Violation("C05/panic.numerals", "zero", c, fmt.Sprint(p))
			}
		}
	}
	r.Bound(fmt.Sprintf("numeral classes: %d special values (integers in [2^53,2^63), float32-exact values, 1e15..1e22, tiny) as Point / LineString ZM / MultiPoint Z ordinates", len(numerals)))
	// trailing garbage that is not even a token: a complete geometry followed by a malformed numeral,
	// a NUL byte, invalid UTF-8 or a stray symbol must be refused like any trailing token
	for _, base := range []string{"POINT(1 2)", "POINT EMPTY", "LINESTRING Z (0 0 0,1 1 1)", "GEOMETRYCOLLECTION(POINT(1 2))", "MULTIPOINT((1 2),EMPTY)"} {
		for _, tr := range []string{"08", "1e", "0x", "1e+", "\x00", "\xff", "0b", "1_", "@", "#", "1..2", "--1", ".", "e5"} {
			for _, sep := range []string{" ", ""} {
				in := base + sep + tr
				r.Transitions.Add(1)
				r.Evaluations.Add(1)
				var err error
				if p := engine.SafeCall(func() { _, err = geom.UnmarshalWKT(in) }); p != nil || err == nil {
					r.Violation("C05/UnmarshalWKT.acceptsMalformedTrailer", "text", map[string]string{"wkt": in}, fmt.Sprint(p))
				}
			}
		}
	}
	r.Bound("malformed trailers: 5 complete geometries × 14 non-token trailers (bad numerals, NUL, invalid UTF-8, stray symbols) × {space, no space}")
	for _, ct := range allCT {
		for i, g := range wideGeoms(ct) {
			c := shapeCase{Idx: i, Shape: fmt.Sprintf("wide #%d (%s)", i, g.Type()), CT: int(ct), Sup: "wide"}
			if p := engine.SafeCall(func() { c05One(r, g, c, 0) }); p != nil {
				r.Violation("C05/panic", "shape", c, fmt.Sprint(p))
			}
		}
	}
	r.Bound("wide collections (33..500 direct members, 40-member Multi*, collection of collections) × 4 ctypes")
	if done {
		r.Bound(fmt.Sprintf("S(%d,%d) = %d shapes × 4 ctypes × %d float rotations; re-spellings with ≤ %d separator deviations", d, w, len(shapes), len(offs), devs))
	}
}

func c05Replay(r *engine.Run, sub string, raw json.RawMessage) error {
	var c shapeCase
	if err := json.Unmarshal(raw, &c); err != nil {
		return err
	}
	if c.Sup == "wide" {
		g, err := c.build()
		if err != nil {
			return err
		}
		c05One(r, g, c, 0)
		return nil
	}
	if c.Idx <= -100 {
		return fmt.Errorf("numeral-class cases are replayed by re-running the check (%s)", c.Note)
	}
	if c.Idx < 0 {
		zeros := []geom.Geometry{{}, geom.Point{}.AsGeometry(), geom.LineString{}.AsGeometry(), geom.Polygon{}.AsGeometry(), geom.MultiPoint{}.AsGeometry(),
			geom.MultiLineString{}.AsGeometry(), geom.MultiPolygon{}.AsGeometry(), geom.GeometryCollection{}.AsGeometry()}
		c05One(r, zeros[-1-c.Idx], c, 2)
		return nil
	}
	shapes := append(universe.Shapes(c.D, c.W), universe.ShortRingShapes()...)
	g := universe.Build(shapes[c.Idx], geom.CoordinatesType(c.CT), &universe.FloatSupplier{XYAlpha: floatFinite, ZMAlpha: floatFinite, Off: c.Off})
	c05One(r, g, c, 2)
	return nil
}

func init() {
	engine.Register(&engine.Check{ID: "C05", Main: c05Main, Replay: c05Replay})
}

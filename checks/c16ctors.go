package checks

import (
	"fmt"

	"github.com/peterstace/simplefeatures/geom"

	"verif/engine"
	"verif/refcodec"
)

// The 28 convenience constructors that take bare ordinates (NewPointXYZM, NewMultiPointXYM,
// NewPolygonXYZ, NewSingleRingPolygonXYM, NewMultiPolygonXYZM, ...): for every one and every shape of
// argument list (0..3 points / members / rings), the result is compared with the structure the
// arguments spell out — type, coordinate type, nesting, every ordinate in its own slot — and the
// argument slices are overwritten afterwards to show the geometry does not alias them.
func c16Ctors(r *engine.Run) {
	n := 0
	cts := []geom.CoordinatesType{geom.DimXY, geom.DimXYZ, geom.DimXYM, geom.DimXYZM}
	// tuple k of a primitive with tag t: distinct, recognisable ordinates
	tup := func(ct geom.CoordinatesType, t, k int) []float64 {
		o := []float64{float64(10*t + k), float64(-(10*t + k)) - 0.5}
		if ct.Is3D() {
			o = append(o, float64(1000+10*t+k))
		}
		if ct.IsMeasured() {
			o = append(o, float64(2000+10*t+k))
		}
		return o
	}
	flat := func(ct geom.CoordinatesType, t, pts int) ([]float64, [][]float64) {
		var f []float64
		var tuples [][]float64
		for k := 0; k < pts; k++ {
			tp := tup(ct, t, k)
			f = append(f, tp...)
			tuples = append(tuples, tp)
		}
		return f, tuples
	}
	ring := func(ct geom.CoordinatesType, t int) ([]float64, [][]float64) {
		f, tuples := flat(ct, t, 3)
		f = append(f, tuples[0]...)
		return f, append(tuples, tuples[0])
	}
	check := func(name string, got geom.Geometry, want refcodec.Node, poison func()) {
		n++
		r.Transitions.Add(1)
		r.Evaluations.Add(1)
		c := map[string]string{"constructor": name, "result": got.AsText()}
		if d := refcodec.Diff(want, refcodec.Describe(got)); d != "" {
			r.Violation("C16/ctor."+name, "ctor", c, d)
			return
		}
		poison()
		if d := refcodec.Diff(want, refcodec.Describe(got)); d != "" {
			r.Violation("C16/ctor."+name+".aliasesItsArguments", "ctor", c, d)
		}
		if want.CT != geom.DimXY {
			r.Nontrivial(name + got.AsText())
		}
	}
	scribble := func(fs ...[]float64) func() {
		return func() {
			for _, f := range fs {
				for i := range f {
					f[i] = -777
				}
			}
		}
	}
	for ci, ct := range cts {
		sfx := []string{"XY", "XYZ", "XYM", "XYZM"}[ci]
		// Point
		{
			tp := tup(ct, 1, 0)
			var p geom.Point
			switch ci {
			case 0:
				p = geom.NewPointXY(tp[0], tp[1])
			case 1:
				p = geom.NewPointXYZ(tp[0], tp[1], tp[2])
			case 2:
				p = geom.NewPointXYM(tp[0], tp[1], tp[2])
			default:
				p = geom.NewPointXYZM(tp[0], tp[1], tp[2], tp[3])
			}
			check("NewPoint"+sfx, p.AsGeometry(), refcodec.Node{T: geom.TypePoint, CT: ct, Coords: [][]float64{tp}}, func() {})
		}
		for pts := 0; pts <= 3; pts++ {
			// MultiPoint
			f, tuples := flat(ct, 2, pts)
			mp := []func(...float64) geom.MultiPoint{geom.NewMultiPointXY, geom.NewMultiPointXYZ, geom.NewMultiPointXYM, geom.NewMultiPointXYZM}[ci](f...)
			want := refcodec.Node{T: geom.TypeMultiPoint, CT: ct, Empty: pts == 0}
			for _, tp := range tuples {
				want.Kids = append(want.Kids, refcodec.Node{T: geom.TypePoint, CT: ct, Coords: [][]float64{tp}})
			}
			check(fmt.Sprintf("NewMultiPoint%s/%d", sfx, pts), mp.AsGeometry(), want, scribble(f))
			// LineString
			f, tuples = flat(ct, 3, pts)
			ls := []func(...float64) geom.LineString{geom.NewLineStringXY, geom.NewLineStringXYZ, geom.NewLineStringXYM, geom.NewLineStringXYZM}[ci](f...)
			check(fmt.Sprintf("NewLineString%s/%d", sfx, pts), ls.AsGeometry(), refcodec.Node{T: geom.TypeLineString, CT: ct, Empty: pts == 0, Coords: tuples}, scribble(f))
		}
		// SingleRingPolygon
		{
			f, tuples := ring(ct, 4)
			p := []func(...float64) geom.Polygon{geom.NewSingleRingPolygonXY, geom.NewSingleRingPolygonXYZ, geom.NewSingleRingPolygonXYM, geom.NewSingleRingPolygonXYZM}[ci](f...)
			check("NewSingleRingPolygon"+sfx, p.AsGeometry(), refcodec.Node{T: geom.TypePolygon, CT: ct, Kids: []refcodec.Node{{T: geom.TypeLineString, CT: ct, Coords: tuples}}}, scribble(f))
		}
		for members := 0; members <= 3; members++ {
			// MultiLineString: member i has i+2 points
			var args [][]float64
			want := refcodec.Node{T: geom.TypeMultiLineString, CT: ct, Empty: members == 0}
			for i := 0; i < members; i++ {
				f, tuples := flat(ct, 5+i, i+2)
				args = append(args, f)
				want.Kids = append(want.Kids, refcodec.Node{T: geom.TypeLineString, CT: ct, Coords: tuples})
			}
			mls := []func(...[]float64) geom.MultiLineString{geom.NewMultiLineStringXY, geom.NewMultiLineStringXYZ, geom.NewMultiLineStringXYM, geom.NewMultiLineStringXYZM}[ci](args...)
			check(fmt.Sprintf("NewMultiLineString%s/%d", sfx, members), mls.AsGeometry(), want, scribble(args...))
			// Polygon with `members` rings
			var rargs [][]float64
			pw := refcodec.Node{T: geom.TypePolygon, CT: ct, Empty: members == 0}
			for i := 0; i < members; i++ {
				f, tuples := ring(ct, 10+i)
				rargs = append(rargs, f)
				pw.Kids = append(pw.Kids, refcodec.Node{T: geom.TypeLineString, CT: ct, Coords: tuples})
			}
			poly := []func(...[]float64) geom.Polygon{geom.NewPolygonXY, geom.NewPolygonXYZ, geom.NewPolygonXYM, geom.NewPolygonXYZM}[ci](rargs...)
			check(fmt.Sprintf("NewPolygon%s/%d", sfx, members), poly.AsGeometry(), pw, scribble(rargs...))
			// MultiPolygon: member i has i+1 rings
			var margs [][][]float64
			var all [][]float64
			mw := refcodec.Node{T: geom.TypeMultiPolygon, CT: ct, Empty: members == 0}
			for i := 0; i < members; i++ {
				var pr [][]float64
				pn := refcodec.Node{T: geom.TypePolygon, CT: ct}
				for j := 0; j <= i; j++ {
					f, tuples := ring(ct, 20+4*i+j)
					pr = append(pr, f)
					all = append(all, f)
					pn.Kids = append(pn.Kids, refcodec.Node{T: geom.TypeLineString, CT: ct, Coords: tuples})
				}
				margs = append(margs, pr)
				mw.Kids = append(mw.Kids, pn)
			}
			mpoly := []func(...[][]float64) geom.MultiPolygon{geom.NewMultiPolygonXY, geom.NewMultiPolygonXYZ, geom.NewMultiPolygonXYM, geom.NewMultiPolygonXYZM}[ci](margs...)
			check(fmt.Sprintf("NewMultiPolygon%s/%d", sfx, members), mpoly.AsGeometry(), mw, scribble(all...))
		}
		// a wrong number of ordinates is refused loudly (documented panic), never silently truncated
		if ct != geom.DimXY || true {
			bad := make([]float64, ct.Dimension()+1)
			p := engine.SafeCall(func() {
				[]func(...float64) geom.MultiPoint{geom.NewMultiPointXY, geom.NewMultiPointXYZ, geom.NewMultiPointXYM, geom.NewMultiPointXYZM}[ci](bad...)
			})
			n++
			if p == nil {
				r.Violation("C16/ctor.NewMultiPoint"+sfx+".acceptsRaggedOrdinates", "ctor", map[string]string{"constructor": "NewMultiPoint" + sfx}, fmt.Sprint(len(bad), " ordinates"))
			}
		}
	}
	r.States.Add(int64(n))
	r.Bound(fmt.Sprintf("the 28 bare-ordinate constructors × 0..3 points / members / rings (%d constructions): structure, ordinate slots, no aliasing of the argument slices", n))
}

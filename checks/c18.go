package checks

import (
	"bytes"
	"encoding/json"
	"fmt"
	"math"
	"sort"
	"strings"

	"github.com/peterstace/simplefeatures/geom"
	"verif/engine"
	"verif/exact"
	"verif/oracle"
	"verif/refcodec"
	"verif/universe"
)

// wkbKey: reference WKB with -0 mapped to +0 (the property's notion of identity).
func wkbKey(n refcodec.Node) []byte {
	var norm func(n refcodec.Node) refcodec.Node
	norm = func(n refcodec.Node) refcodec.Node {
		o := n
		o.Coords = nil
		for _, c := range n.Coords {
			t := make([]float64, len(c))
			for i, v := range c {
				if v == 0 {
					v = 0
				}
				t[i] = v
			}
			o.Coords = append(o.Coords, t)
		}
		o.Kids = nil
		for _, k := range n.Kids {
			o.Kids = append(o.Kids, norm(k))
		}
		return o
	}
	b, _ := refcodec.WKB(norm(n), nil)
	return b
}

func coordStr(c []float64) string {
	var sb strings.Builder
	for _, v := range c {
		if v == 0 {
			v = 0
		}
		fmt.Fprintf(&sb, "%x,", math.Float64bits(v))
	}
	return sb.String()
}

func lineStr(cs [][]float64) string {
	var sb strings.Builder
	for _, c := range cs {
		sb.WriteString(coordStr(c))
		sb.WriteByte(';')
	}
	return sb.String()
}

func isRingCoords(cs [][]float64) bool {
	if len(cs) < 4 || cs[0][0] != cs[len(cs)-1][0] || cs[0][1] != cs[len(cs)-1][1] {
		return false
	}
	pts := make([]exact.Pt, len(cs))
	for i, c := range cs {
		pts[i] = exact.PF(c[0], c[1])
	}
	return oracle.LineSimple(pts)
}

// canon: an independent canonical form under "ignore order": members sorted,
// lines oriented, rings (closed simple lines) rotated to their least start and direction.
func canon(n refcodec.Node) string {
	head := fmt.Sprintf("%d/%d/", n.T, n.CT)
	switch n.T {
	case geom.TypePoint:
		if n.Empty {
			return head + "E"
		}
		return head + coordStr(n.Coords[0])
	case geom.TypeLineString:
		cs := n.Coords
		rev := func(in [][]float64) [][]float64 {
			o := make([][]float64, len(in))
			for i := range in {
				o[i] = in[len(in)-1-i]
			}
			return o
		}
		best := lineStr(cs)
		if s := lineStr(rev(cs)); s < best {
			best = s
		}
		// a ring's closing vertex must carry the same payload as its first for rotation to be meaningful
		if isRingCoords(cs) && coordStr(cs[0]) == coordStr(cs[len(cs)-1]) {
			m := len(cs) - 1
			for o := 0; o < m; o++ {
				rot := make([][]float64, 0, m+1)
				for i := 0; i < m; i++ {
					rot = append(rot, cs[(i+o)%m])
				}
				rot = append(rot, rot[0])
				for _, cand := range [][][]float64{rot, rev(rot)} {
					if s := lineStr(cand); s < best {
						best = s
					}
				}
			}
		}
		return head + best
	case geom.TypePolygon:
		if len(n.Kids) == 0 {
			return head + "E"
		}
		var holes []string
		for _, k := range n.Kids[1:] {
			holes = append(holes, canon(k))
		}
		sort.Strings(holes)
		return head + canon(n.Kids[0]) + "|" + strings.Join(holes, "|")
	default:
		var ms []string
		for _, k := range n.Kids {
			ms = append(ms, canon(k))
		}
		sort.Strings(ms)
		return head + "[" + strings.Join(ms, "|") + "]"
	}
}

type eqCase struct {
	A    string `json:"a"`
	B    string `json:"b"`
	Note string `json:"note"`
}

func c18Pair(r *engine.Run, a, b geom.Geometry, note string) {
	c := eqCase{A: a.AsText(), B: b.AsText(), Note: note}
	bad := func(k, d string) { r.Violation("C18/"+k, "pair", c, d) }
	na, nb := refcodec.Describe(a), refcodec.Describe(b)
	r.Evaluations.Add(1)
	r.Transitions.Add(6)
	var plain, plainRev, ign, ignRev bool
	if p := engine.SafeCall(func() {
		plain, plainRev = geom.ExactEquals(a, b), geom.ExactEquals(b, a)
		ign, ignRev = geom.ExactEquals(a, b, geom.IgnoreOrder), geom.ExactEquals(b, a, geom.IgnoreOrder)
	}); p != nil {
		bad("panic", fmt.Sprint(p))
		return
	}
	wantPlain := bytes.Equal(wkbKey(na), wkbKey(nb))
	if plain != wantPlain || plainRev != wantPlain {
		bad("plain.vsWKB", fmt.Sprintf("ExactEquals(a,b)=%v ExactEquals(b,a)=%v, WKB equal (−0≡+0): %v", plain, plainRev, wantPlain))
	}
	wantIgn := canon(na) == canon(nb)
	if ign != wantIgn || ignRev != wantIgn {
		bad("ignoreOrder.vsCanonicalForm", fmt.Sprintf("ExactEquals(a,b,IgnoreOrder)=%v (b,a)=%v, canonical forms equal: %v", ign, ignRev, wantIgn))
	}
	if plain && !ign {
		bad("ignoreOrder.weakerThanPlain", "")
	}
	// tolerance: zero tolerance is the plain relation; reflexive and symmetric for every e
	for _, e := range []float64{0, 5e-324, 0.5, 1} {
		ab, ba := geom.ExactEquals(a, b, geom.ToleranceXY(e)), geom.ExactEquals(b, a, geom.ToleranceXY(e))
		if ab != ba {
			bad("tolerance.asymmetric", fmt.Sprint(e))
		}
		if e == 0 && ab != plain {
			bad("tolerance.zeroDiffersFromPlain", "")
		}
		if plain && !ab {
			bad("tolerance.weakerThanPlain", fmt.Sprint(e))
		}
	}
	if wantIgn && !wantPlain {
		r.Nontrivial(c.A + "|" + c.B)
	}
}

// ---- mutants: differ from g in exactly one respect ----------------------------------

func rebuild(n refcodec.Node) geom.Geometry {
	seq := func(cs [][]float64, ct geom.CoordinatesType) geom.Sequence {
		var fl []float64
		for _, c := range cs {
			fl = append(fl, c...)
		}
		return geom.NewSequence(fl, ct)
	}
	switch n.T {
	case geom.TypePoint:
		if n.Empty {
			return geom.NewEmptyPoint(n.CT).AsGeometry()
		}
		c := geom.Coordinates{XY: geom.XY{X: n.Coords[0][0], Y: n.Coords[0][1]}, Type: n.CT}
		i := 2
		if n.CT.Is3D() {
			c.Z = n.Coords[0][i]
			i++
		}
		if n.CT.IsMeasured() {
			c.M = n.Coords[0][i]
		}
		return geom.NewPoint(c).AsGeometry()
	case geom.TypeLineString:
		return geom.NewLineString(seq(n.Coords, n.CT)).AsGeometry()
	case geom.TypePolygon:
		if len(n.Kids) == 0 {
			return geom.Polygon{}.ForceCoordinatesType(n.CT).AsGeometry()
		}
		var rs []geom.LineString
		for _, k := range n.Kids {
			rs = append(rs, geom.NewLineString(seq(k.Coords, k.CT)))
		}
		return geom.NewPolygon(rs).AsGeometry()
	case geom.TypeMultiPoint:
		if len(n.Kids) == 0 {
			return geom.MultiPoint{}.ForceCoordinatesType(n.CT).AsGeometry()
		}
		var ps []geom.Point
		for _, k := range n.Kids {
			ps = append(ps, rebuild(k).MustAsPoint())
		}
		return geom.NewMultiPoint(ps).AsGeometry()
	case geom.TypeMultiLineString:
		if len(n.Kids) == 0 {
			return geom.MultiLineString{}.ForceCoordinatesType(n.CT).AsGeometry()
		}
		var ps []geom.LineString
		for _, k := range n.Kids {
			ps = append(ps, rebuild(k).MustAsLineString())
		}
		return geom.NewMultiLineString(ps).AsGeometry()
	case geom.TypeMultiPolygon:
		if len(n.Kids) == 0 {
			return geom.MultiPolygon{}.ForceCoordinatesType(n.CT).AsGeometry()
		}
		var ps []geom.Polygon
		for _, k := range n.Kids {
			ps = append(ps, rebuild(k).MustAsPolygon())
		}
		return geom.NewMultiPolygon(ps).AsGeometry()
	default:
		if len(n.Kids) == 0 {
			return geom.GeometryCollection{}.ForceCoordinatesType(n.CT).AsGeometry()
		}
		var gs []geom.Geometry
		for _, k := range n.Kids {
			gs = append(gs, rebuild(k))
		}
		return geom.NewGeometryCollection(gs).AsGeometry()
	}
}

func cloneNode(n refcodec.Node) refcodec.Node {
	o := n
	o.Coords = nil
	for _, c := range n.Coords {
		o.Coords = append(o.Coords, append([]float64{}, c...))
	}
	o.Kids = nil
	for _, k := range n.Kids {
		o.Kids = append(o.Kids, cloneNode(k))
	}
	return o
}

// mutants returns (mutated node, description) pairs.
func mutants(n refcodec.Node) []struct {
	n    refcodec.Node
	what string
} {
	var out []struct {
		n    refcodec.Node
		what string
	}
	add := func(m refcodec.Node, w string) {
		out = append(out, struct {
			n    refcodec.Node
			what string
		}{m, w})
	}
	// paths to every node
	type path []int
	var paths []path
	var walk func(n refcodec.Node, p path)
	walk = func(n refcodec.Node, p path) {
		paths = append(paths, append(path{}, p...))
		for i, k := range n.Kids {
			walk(k, append(p, i))
		}
	}
	walk(n, nil)
	at := func(root *refcodec.Node, p path) *refcodec.Node {
		cur := root
		for _, i := range p {
			cur = &cur.Kids[i]
		}
		return cur
	}
	for _, p := range paths {
		sub := at(&n, p)
		// one ordinate by one ulp (each ordinate, both directions) — closing vertex of a ring moved alone breaks closure: still "one respect"
		for ci := range sub.Coords {
			for oi := range sub.Coords[ci] {
				for _, dir := range []float64{math.Inf(1), math.Inf(-1)} {
					m := cloneNode(n)
					t := at(&m, p)
					t.Coords[ci][oi] = math.Nextafter(t.Coords[ci][oi], dir)
					add(m, fmt.Sprintf("ordinate %v/%d/%d moved one ulp", p, ci, oi))
				}
				if sub.Coords[ci][oi] == 0 { // the other zero: −0 and +0 are the same value in every ordinate
					m := cloneNode(n)
					t := at(&m, p)
					if math.Signbit(t.Coords[ci][oi]) {
						t.Coords[ci][oi] = 0
					} else {
						t.Coords[ci][oi] = math.Copysign(0, -1)
					}
					add(m, fmt.Sprintf("ordinate %v/%d/%d: sign of zero flipped", p, ci, oi))
				}
			}
		}
		// LineString reversed / ring rotated
		if sub.T == geom.TypeLineString && len(sub.Coords) >= 2 {
			m := cloneNode(n)
			t := at(&m, p)
			for i, j := 0, len(t.Coords)-1; i < j; i, j = i+1, j-1 {
				t.Coords[i], t.Coords[j] = t.Coords[j], t.Coords[i]
			}
			add(m, fmt.Sprintf("line %v reversed", p))
			if len(sub.Coords) >= 4 && coordStr(sub.Coords[0]) == coordStr(sub.Coords[len(sub.Coords)-1]) {
				mm := len(sub.Coords) - 1
				for o := 1; o < mm; o++ {
					m := cloneNode(n)
					t := at(&m, p)
					var rot [][]float64
					for i := 0; i < mm; i++ {
						rot = append(rot, sub.Coords[(i+o)%mm])
					}
					rot = append(rot, rot[0])
					t.Coords = rot
					add(m, fmt.Sprintf("closed line %v rotated by %d", p, o))
				}
			}
		}
		// members: swap two, drop one, duplicate one, empty one
		if len(sub.Kids) >= 2 {
			for i := 0; i+1 < len(sub.Kids); i++ {
				m := cloneNode(n)
				t := at(&m, p)
				t.Kids[i], t.Kids[i+1] = t.Kids[i+1], t.Kids[i]
				add(m, fmt.Sprintf("members %d and %d of %v swapped", i, i+1, p))
			}
		}
		if len(sub.Kids) >= 1 && sub.T != geom.TypePolygon {
			m := cloneNode(n)
			t := at(&m, p)
			t.Kids = t.Kids[:len(t.Kids)-1]
			t.Empty = len(t.Kids) == 0
			add(m, fmt.Sprintf("last member of %v removed", p))
			m2 := cloneNode(n)
			t2 := at(&m2, p)
			t2.Kids = append(t2.Kids, cloneNode(t2.Kids[0]))
			add(m2, fmt.Sprintf("first member of %v duplicated", p))
		}
		if (sub.T == geom.TypePoint || sub.T == geom.TypeLineString) && !sub.Empty && len(p) > 0 {
			parent := at(&n, p[:len(p)-1])
			if parent.T != geom.TypePolygon {
				m := cloneNode(n)
				t := at(&m, p)
				t.Coords, t.Empty = nil, true
				add(m, fmt.Sprintf("member %v emptied", p))
			}
		}
	}
	// coordinate type changed
	for _, ct := range allCT {
		if ct != n.CT {
			add(forceNode(n, ct), fmt.Sprintf("coordinates type forced to %v", ct))
		}
	}
	// Point <-> one-member MultiPoint
	if n.T == geom.TypePoint {
		add(refcodec.Node{T: geom.TypeMultiPoint, CT: n.CT, Kids: []refcodec.Node{n}}, "wrapped into a MultiPoint")
		add(refcodec.Node{T: geom.TypeGeometryCollection, CT: n.CT, Kids: []refcodec.Node{n}}, "wrapped into a GeometryCollection")
	}
	return out
}

func c18Permutations(r *engine.Run, base refcodec.Node, maxN int) {
	k := len(base.Kids)
	if k < 2 || k > maxN || base.T == geom.TypePolygon {
		return
	}
	g := rebuild(base)
	idx := make([]int, k)
	for i := range idx {
		idx[i] = i
	}
	var rec func(i int)
	rec = func(i int) {
		if i == k {
			m := cloneNode(base)
			for a, b := range idx {
				m.Kids[a] = base.Kids[b]
			}
			h := rebuild(m)
			r.Transitions.Add(1)
			r.Evaluations.Add(1)
			if !geom.ExactEquals(g, h, geom.IgnoreOrder) || !geom.ExactEquals(h, g, geom.IgnoreOrder) {
				r.Violation("C18/ignoreOrder.permutationNotEqual", "pair", eqCase{g.AsText(), h.AsText(), fmt.Sprint("permutation ", idx)}, "")
			}
			if want := bytes.Equal(wkbKey(base), wkbKey(m)); geom.ExactEquals(g, h) != want {
				r.Violation("C18/plain.vsWKB", "pair", eqCase{g.AsText(), h.AsText(), fmt.Sprint("permutation ", idx)}, "")
			}
			return
		}
		for j := i; j < k; j++ {
			idx[i], idx[j] = idx[j], idx[i]
			rec(i + 1)
			idx[i], idx[j] = idx[j], idx[i]
		}
	}
	rec(0)
}

func c18Main(r *engine.Run) {
	r.Rule = "families of finite-ordinate geometries (structural shapes × 4 coordinate types × float classes from subnormal to 1e300) and, for each, every mutant that differs in exactly one respect (each ordinate ±1 ulp, adjacent members swapped, member removed/duplicated/emptied, each line reversed, each closed line rotated by each offset, coordinate type changed, Point wrapped): ExactEquals without options compared with equality of an independent WKB encoding (−0≡+0), with IgnoreOrder compared with equality of an independent canonical form, tolerance variants for reflexivity/symmetry/monotonicity; every permutation of up to 6 members incl. duplicates; equivalence laws on all triples of a family. non-trivial = pairs equal only under IgnoreOrder"
	d, w := 2, 2
	offs := []int{0, 7}
	maxPerm := 5
	if r.Thorough() {
		d, w = 2, 3
		offs = []int{0, 3, 7, 11}
		maxPerm = 6
	}
	shapes := universe.Shapes(d, w)
	var bases []refcodec.Node
	for i, s := range shapes {
		if s.NumPrims() == 0 && i%3 != 0 {
			continue
		}
		for _, ct := range allCT {
			if ct != geom.DimXY && ct != geom.DimXYZM && i%4 != 0 {
				continue
			}
			for _, o := range offs {
				// valid-ish geometry with float classes: points/lines from the alphabet, polygons as cell squares (rings closed and simple so that "ring" semantics apply)
				g := universe.Build(s, ct, &validSupplier{fl: universe.FloatSupplier{XYAlpha: floatFinite, ZMAlpha: floatFinite, Off: o}, off: o})
				if g.Validate() != nil {
					continue // float frames can overflow for primitives far along the cell row
				}
				bases = append(bases, refcodec.Describe(g))
			}
		}
	}
	r.States.Add(int64(len(bases)))
	if r.Parallel(len(bases), func(i int) {
		b := bases[i]
		g := rebuild(b)
		if d := refcodec.Diff(b, refcodec.Describe(g)); d != "" {
			r.EngineError("rebuild is not faithful: " + d)
			return
		}
		c18Pair(r, g, g, "reflexive")
		for _, m := range mutants(b) {
			var h geom.Geometry
			if p := engine.SafeCall(func() { h = rebuild(m.n) }); p != nil {
				continue
			}
			// the mutant as actually built (constructors may normalise, e.g. common coordinates type)
			c18Pair(r, g, h, m.what)
		}
		if i%3 == 0 {
			c18Permutations(r, b, maxPerm)
		}
		if i%601 == 0 {
			r.Sample("pair", eqCase{A: g.AsText(), B: g.Reverse().AsText(), Note: "reversed"})
		}
	}) {
		r.Bound(fmt.Sprintf("%d base geometries (S(%d,%d) × coordinate types × %d float rotations) × every one-respect mutant; permutations of ≤%d members", len(bases), d, w, len(offs), maxPerm))
	}
	// duplicates that make the permutation matching backtrack: members equal up to rotation / direction
	id := universe.Identity
	tri := []universe.LPt{{0, 0}, {2, 0}, {1, 2}, {0, 0}}
	var polys []geom.Polygon
	for k := 0; k < 3; k++ {
		for _, rev := range []bool{false, true} {
			polys = append(polys, id.Polygon(rotateRing(tri, k, rev)))
		}
	}
	polys = append(polys, id.Polygon([]universe.LPt{{0, 0}, {2, 0}, {1, 3}, {0, 0}}))
	for mask := 1; mask < 1<<7; mask++ {
		var sel []geom.Polygon
		for b := 0; b < 7; b++ {
			if mask&(1<<b) != 0 {
				sel = append(sel, polys[b])
			}
		}
		if len(sel) < 2 || len(sel) > maxPerm {
			continue
		}
		c18Permutations(r, refcodec.Describe(geom.NewMultiPolygon(sel).AsGeometry()), maxPerm)
		var gs []geom.Geometry
		for _, p := range sel {
			gs = append(gs, p.AsGeometry())
		}
		// one member differs: must not be equal to the all-same-triangle collection of the same size
		a := geom.NewGeometryCollection(gs).AsGeometry()
		var same []geom.Geometry
		for range sel {
			same = append(same, polys[0].AsGeometry())
		}
		c18Pair(r, a, geom.NewGeometryCollection(same).AsGeometry(), "duplicates up to rotation")
	}
	r.Bound("MultiPolygons / collections of 2..6 members drawn from 6 rotations/reversals of one triangle plus one different triangle: every permutation")
	// rings with a repeated consecutive vertex (at the start, in the middle, at the closure), XY and Z:
	// every rotation and direction must be identified by IgnoreOrder, in both argument orders
	for _, ring := range [][][]float64{
		{{0, 0}, {0, 0}, {1, 0}, {0, 1}, {0, 0}}, {{0, 0}, {1, 0}, {1, 0}, {0, 1}, {0, 0}}, {{0, 0}, {1, 0}, {0, 1}, {0, 1}, {0, 0}},
		{{0, 0, 5}, {2, 0, 6}, {2, 0, 6}, {2, 2, 7}, {0, 2, 8}, {0, 0, 5}}, {{0, 0}, {2, 0}, {2, 1}, {2, 1}, {2, 2}, {2, 2}, {0, 2}, {0, 0}},
		// consecutive vertices at one XY location with different Z: at the start, before the closing vertex, in the middle
		{{0, 0, 5}, {0, 0, 6}, {1, 0, 7}, {0, 1, 8}, {0, 0, 5}}, {{0, 0, 5}, {1, 0, 6}, {0, 1, 7}, {0, 0, 9}, {0, 0, 5}}, {{0, 0, 5}, {1, 0, 6}, {1, 0, 9}, {0, 1, 7}, {0, 0, 5}},
		{{0, 0, 5}, {1, 0, 6}, {0, 1, 7}, {0, 1, 9}, {0, 0, 5}},
	} {
		ct := geom.DimXY
		if len(ring[0]) == 3 {
			ct = geom.DimXYZ
		}
		base := refcodec.Node{T: geom.TypeLineString, CT: ct, Coords: ring}
		g := rebuild(base)
		m := len(ring) - 1
		for o := 0; o < m; o++ {
			for _, rev := range []bool{false, true} {
				var rot [][]float64
				for i := 0; i < m; i++ {
					rot = append(rot, ring[(i+o)%m])
				}
				rot = append(rot, rot[0])
				if rev {
					for i, j := 0, len(rot)-1; i < j; i, j = i+1, j-1 {
						rot[i], rot[j] = rot[j], rot[i]
					}
				}
				h := rebuild(refcodec.Node{T: geom.TypeLineString, CT: ct, Coords: rot})
				c18Pair(r, g, h, fmt.Sprintf("ring with repeated vertex rotated by %d reversed %v", o, rev))
				c18Pair(r, geom.NewPolygon([]geom.LineString{g.MustAsLineString()}).AsGeometry(), geom.NewPolygon([]geom.LineString{h.MustAsLineString()}).AsGeometry(), "polygon of the same")
			}
		}
	}
	r.Bound("rings with repeated consecutive vertices: every rotation × direction, as LineString and as Polygon")
	// tolerance across magnitudes: a displacement d is related iff d ≤ e, from 1e-300 to 1e300
	for _, sc := range []float64{1e-300, 1e-200, 1e-180, 1e-100, 1e-10, 1, 1e10, 1e100, 1e154, 1e200, 1e300} {
		for _, dir := range [][2]float64{{1, 0}, {0, 1}, {0.6, 0.8}} {
			a := geom.NewLineStringXY(0, 0, sc*3, sc*4).AsGeometry()
			b := geom.NewLineStringXY(sc*dir[0], sc*dir[1], sc*3, sc*4).AsGeometry()
			for _, k := range []float64{0.1, 0.5, 2, 10} {
				e := sc * k
				if e == 0 || math.IsInf(e, 0) {
					continue
				}
				want := math.Hypot(sc*dir[0], sc*dir[1]) <= e
				r.Evaluations.Add(1)
				r.Transitions.Add(2)
				ab, ba := geom.ExactEquals(a, b, geom.ToleranceXY(e)), geom.ExactEquals(b, a, geom.ToleranceXY(e))
				if ab != want || ba != want {
					r.Violation("C18/tolerance.acrossMagnitudes", "pair", eqCase{a.AsText(), b.AsText(), fmt.Sprintf("ToleranceXY(%g), displacement %g", e, sc)}, fmt.Sprint(ab, ba, " want ", want))
				}
			}
		}
	}
	r.Bound("ToleranceXY at magnitudes 1e-300 .. 1e300: displacement d related iff d ≤ e for e ∈ d×{0.1,0.5,2,10}")
	// chains: members spaced 0.4 apart compared under IgnoreOrder + ToleranceXY(0.5). "Within e" is
	// not transitive, so a member has several admissible partners and the matching must backtrack;
	// a pure permutation must still be equal, in both argument orders.
	for k := 3; k <= maxPerm; k++ {
		var pts []geom.Point
		var lns []geom.LineString
		var gs []geom.Geometry
		for i := 0; i < k; i++ {
			x := 0.4 * float64(i)
			pts = append(pts, geom.NewPointXY(x, 0))
			lns = append(lns, geom.NewLineStringXY(x, 0, x, 1))
			gs = append(gs, geom.NewPointXY(x, 0).AsGeometry())
		}
		for _, base := range []geom.Geometry{geom.NewMultiPoint(pts).AsGeometry(), geom.NewMultiLineString(lns).AsGeometry(), geom.NewGeometryCollection(gs).AsGeometry()} {
			bn := refcodec.Describe(base)
			idx := make([]int, k)
			for i := range idx {
				idx[i] = i
			}
			var rec func(i int)
			rec = func(i int) {
				if i == k {
					m := cloneNode(bn)
					for a, b := range idx {
						m.Kids[a] = bn.Kids[b]
					}
					h := rebuild(m)
					r.Evaluations.Add(1)
					r.Transitions.Add(2)
					for _, e := range []float64{0.5, 0.45, 1} {
						ab := geom.ExactEquals(base, h, geom.IgnoreOrder, geom.ToleranceXY(e))
						ba := geom.ExactEquals(h, base, geom.IgnoreOrder, geom.ToleranceXY(e))
						if !ab || !ba {
							r.Violation("C18/ignoreOrderWithTolerance.permutationNotEqual", "pair", eqCase{base.AsText(), h.AsText(), fmt.Sprintf("IgnoreOrder+ToleranceXY(%v), permutation %v: (a,b)=%v (b,a)=%v", e, idx, ab, ba)}, "")
						}
					}
					return
				}
				for j := i; j < k; j++ {
					idx[i], idx[j] = idx[j], idx[i]
					rec(i + 1)
					idx[i], idx[j] = idx[j], idx[i]
				}
			}
			rec(0)
		}
	}
	r.Bound(fmt.Sprintf("chains of 3..%d members spaced 0.4 apart: every permutation under IgnoreOrder + ToleranceXY(0.45 / 0.5 / 1), both argument orders", maxPerm))
	// IgnoreOrder + ToleranceXY as a matching problem: A and B are multisets of k positions on a
	// 0.5-spaced line; they are related iff some bijection pairs every member with one within e
	// (brute force over all bijections). Every pair of multisets, both argument orders.
	{
		kmax := 3
		if r.Thorough() {
			kmax = 4
		}
		const e = 0.6
		for k := 2; k <= kmax; k++ {
			var sets [][]int
			var gen func(start int, cur []int)
			gen = func(start int, cur []int) {
				if len(cur) == k {
					sets = append(sets, append([]int(nil), cur...))
					return
				}
				for v := start; v < 6; v++ {
					gen(v, append(cur, v))
				}
			}
			gen(0, nil)
			mk := func(set []int, kind int) geom.Geometry {
				var pts []geom.Point
				var lns []geom.LineString
				var gs []geom.Geometry
				for _, v := range set {
					x := 0.5 * float64(v)
					pts = append(pts, geom.NewPointXY(x, 0))
					lns = append(lns, geom.NewLineStringXY(x, 0, x, 1))
					gs = append(gs, geom.NewPointXY(x, 0).AsGeometry())
				}
				switch kind {
				case 0:
					return geom.NewMultiPoint(pts).AsGeometry()
				case 1:
					return geom.NewMultiLineString(lns).AsGeometry()
				}
				return geom.NewGeometryCollection(gs).AsGeometry()
			}
			matchable := func(a, b []int) bool {
				used := make([]bool, len(b))
				var rec func(i int) bool
				rec = func(i int) bool {
					if i == len(a) {
						return true
					}
					for j := range b {
						if !used[j] && math.Abs(0.5*float64(a[i]-b[j])) <= e {
							used[j] = true
							if rec(i + 1) {
								return true
							}
							used[j] = false
						}
					}
					return false
				}
				return rec(0)
			}
			// B's members are listed in descending order so that greedy first choices are often dead ends
			ns := len(sets)
			r.Parallel(ns*ns, func(q int) {
				a, b := sets[q/ns], sets[q%ns]
				br := make([]int, len(b))
				for i := range b {
					br[i] = b[len(b)-1-i]
				}
				want := matchable(a, b)
				for kind := 0; kind < 3; kind++ {
					for _, bb := range [][]int{b, br} {
						ga, gb := mk(a, kind), mk(bb, kind)
						r.Evaluations.Add(1)
						r.Transitions.Add(2)
						ab := geom.ExactEquals(ga, gb, geom.IgnoreOrder, geom.ToleranceXY(e))
						ba := geom.ExactEquals(gb, ga, geom.IgnoreOrder, geom.ToleranceXY(e))
						if ab != want || ba != want {
							r.Violation("C18/ignoreOrderWithTolerance.matching", "pair", eqCase{ga.AsText(), gb.AsText(), fmt.Sprintf("IgnoreOrder+ToleranceXY(%v): (a,b)=%v (b,a)=%v, a bijection within tolerance exists: %v", e, ab, ba, want)}, "")
						}
						if want {
							r.Nontrivial(ga.AsText() + "~" + gb.AsText())
						}
					}
				}
			})
		}
		r.Bound(fmt.Sprintf("IgnoreOrder+ToleranceXY(0.6) as bipartite matching: all pairs of k-multisets (k=2..%d) of 6 positions spaced 0.5, as MultiPoint / MultiLineString / GeometryCollection, B in both member orders, both argument orders, against brute-force bijection search", kmax))
	}
	// equivalence laws on all triples of a 60-element family
	fam := []geom.Geometry{}
	for i := 0; i < len(bases) && len(fam) < 40; i += len(bases)/40 + 1 {
		fam = append(fam, rebuild(bases[i]))
	}
	for i := 0; i < 10 && i < len(fam); i++ {
		fam = append(fam, fam[i].Reverse(), fam[i].ForceCoordinatesType(geom.DimXYZ))
	}
	eq := make([][]bool, len(fam))
	for i := range fam {
		eq[i] = make([]bool, len(fam))
		for j := range fam {
			eq[i][j] = geom.ExactEquals(fam[i], fam[j])
		}
	}
	for i := range fam {
		if !eq[i][i] {
			r.Violation("C18/plain.notReflexive", "pair", eqCase{A: fam[i].AsText(), B: fam[i].AsText()}, "")
		}
		for j := range fam {
			if eq[i][j] != eq[j][i] {
				r.Violation("C18/plain.notSymmetric", "pair", eqCase{A: fam[i].AsText(), B: fam[j].AsText()}, "")
			}
			for k := range fam {
				r.Evaluations.Add(1)
				if eq[i][j] && eq[j][k] && !eq[i][k] {
					r.Violation("C18/plain.notTransitive", "pair", eqCase{A: fam[i].AsText(), B: fam[k].AsText(), Note: "via " + fam[j].AsText()}, "")
				}
			}
		}
	}
	r.Bound(fmt.Sprintf("reflexive / symmetric / transitive on all %d³ triples of a family", len(fam)))
	// tolerance: vertex-wise-within-e mutants are related
	for _, e := range []float64{0.5, 1, 1e-300} {
		for i := 0; i < len(bases); i += 17 {
			b := bases[i]
			m := cloneNode(b)
			var shift func(n *refcodec.Node)
			shift = func(n *refcodec.Node) {
				for ci := range n.Coords {
					n.Coords[ci][0] += e * 0.7 * math.Max(0, 1-math.Abs(n.Coords[ci][0])*1e-15)
				}
				for k := range n.Kids {
					shift(&n.Kids[k])
				}
			}
			shift(&m)
			g, h := rebuild(b), rebuild(m)
			// only meaningful where the shift is representable (|x| small) — compare via actual distances
			within := true
			ga, ha := g.DumpCoordinates(), h.DumpCoordinates()
			for k := 0; k < ga.Length(); k++ {
				dx, dy := ga.GetXY(k).X-ha.GetXY(k).X, ga.GetXY(k).Y-ha.GetXY(k).Y
				if !(dx*dx+dy*dy <= e*e) {
					within = false
				}
			}
			if within {
				r.Evaluations.Add(1)
				if !geom.ExactEquals(g, h, geom.ToleranceXY(e)) || !geom.ExactEquals(h, g, geom.ToleranceXY(e)) {
					r.Violation("C18/tolerance.withinToleranceNotEqual", "pair", eqCase{g.AsText(), h.AsText(), fmt.Sprint("tolerance ", e)}, "")
				}
			}
		}
	}
	r.Bound("ToleranceXY(e): vertex lists shifted by 0.7e are related, for e ∈ {0.5, 1, 1e-300}")
}

func c18Replay(r *engine.Run, sub string, raw json.RawMessage) error {
	var c eqCase
	if err := json.Unmarshal(raw, &c); err != nil {
		return err
	}
	a, err := geom.UnmarshalWKT(c.A, geom.NoValidate{})
	if err != nil {
		return err
	}
	b, err := geom.UnmarshalWKT(c.B, geom.NoValidate{})
	if err != nil {
		return err
	}
	c18Pair(r, a, b, c.Note)
	return nil
}

func init() {
	engine.Register(&engine.Check{ID: "C18", Main: c18Main, Replay: c18Replay})
}

package checks

import (
	"encoding/json"
	"fmt"
	"math"

	"github.com/peterstace/simplefeatures/carto"
	"github.com/peterstace/simplefeatures/geom"
	"verif/engine"
)

type proj interface {
	Forward(geom.XY) geom.XY
	Reverse(geom.XY) geom.XY
}

type projCfg struct {
	Name   string    `json:"projection"`
	R      float64   `json:"radius"`
	Center []float64 `json:"center,omitempty"` // lon, lat (centre / origin / central meridian)
	Std    []float64 `json:"parallels,omitempty"`
	Zoom   int       `json:"zoom,omitempty"`
}

func (c projCfg) build() proj {
	xy := geom.XY{}
	if len(c.Center) == 2 {
		xy = geom.XY{X: c.Center[0], Y: c.Center[1]}
	}
	switch c.Name {
	case "AlbersEqualAreaConic":
		p := carto.NewAlbersEqualAreaConic(c.R)
		p.SetOrigin(xy)
		p.SetStandardParallels(c.Std[0], c.Std[1])
		return p
	case "EquidistantConic":
		p := carto.NewEquidistantConic(c.R)
		p.SetOrigin(xy)
		p.SetStandardParallels(c.Std[0], c.Std[1])
		return p
	case "LambertConformalConic":
		p := carto.NewLambertConformalConic(c.R)
		p.SetOrigin(xy)
		p.SetStandardParallels(c.Std[0], c.Std[1])
		return p
	case "AzimuthalEquidistant":
		p := carto.NewAzimuthalEquidistant(c.R)
		p.SetCenter(xy)
		return p
	case "Orthographic":
		p := carto.NewOrthographic(c.R)
		p.SetCenter(xy)
		return p
	case "Equirectangular":
		p := carto.NewEquirectangular(c.R)
		p.SetCentralMeridian(xy.X)
		p.SetStandardParallels(c.Std[0])
		return p
	case "LambertCylindricalEqualArea":
		p := carto.NewLambertCylindricalEqualArea(c.R)
		p.SetCentralMeridian(xy.X)
		return p
	case "Sinusoidal":
		p := carto.NewSinusoidal(c.R)
		p.SetCentralMeridian(xy.X)
		return p
	case "WebMercator":
		return carto.NewWebMercator(c.Zoom)
	}
	panic("unknown projection " + c.Name)
}

// c19Shift: the second graticule is shifted by a value with no short decimal expansion
const c19Shift = 0.3712345678912345

func rad(d float64) float64 { return d * math.Pi / 180 }

// central angle (radians) between two lon/lat points, haversine form
func centralAngle(lon1, lat1, lon2, lat2 float64) float64 {
	dφ, dλ := rad(lat2-lat1), rad(lon2-lon1)
	a := math.Sin(dφ/2)*math.Sin(dφ/2) + math.Cos(rad(lat1))*math.Cos(rad(lat2))*math.Sin(dλ/2)*math.Sin(dλ/2)
	return 2 * math.Asin(math.Min(1, math.Sqrt(a)))
}

type c19Case struct {
	Cfg   projCfg   `json:"config"`
	Point []float64 `json:"lonlat"`
}

// coneConstant for the conics (reference formula per projection family)
func (c projCfg) coneN() float64 {
	φ1, φ2 := rad(c.Std[0]), rad(c.Std[1])
	switch c.Name {
	case "AlbersEqualAreaConic":
		return (math.Sin(φ1) + math.Sin(φ2)) / 2
	case "EquidistantConic":
		return (math.Cos(φ1) - math.Cos(φ2)) / (φ2 - φ1)
	default:
		return math.Log(math.Cos(φ1)/math.Cos(φ2)) / math.Log(math.Tan(math.Pi/4+φ2/2)/math.Tan(math.Pi/4+φ1/2))
	}
}

func (c projCfg) inDomain(lon, lat float64) bool {
	if math.Abs(lat) > 85 {
		return false
	}
	switch c.Name {
	case "AzimuthalEquidistant", "Orthographic":
		return centralAngle(c.Center[0], c.Center[1], lon, lat) <= rad(60)
	case "AlbersEqualAreaConic", "EquidistantConic", "LambertConformalConic":
		return math.Abs(c.coneN()*(lon-c.Center[0])) < 89
	}
	return math.Abs(lon-c.Center0()) <= 179
}

func (c projCfg) Center0() float64 {
	if len(c.Center) > 0 {
		return c.Center[0]
	}
	return 0
}

func c19Point(r *engine.Run, c projCfg, p proj, lon, lat float64, character bool) {
	cs := c19Case{c, []float64{lon, lat}}
	bad := func(k, d string) { r.Violation("C19/"+c.Name+"."+k, "point", cs, d) }
	r.Evaluations.Add(1)
	r.Transitions.Add(2)
	f := p.Forward(geom.XY{X: lon, Y: lat})
	if math.IsNaN(f.X) || math.IsInf(f.X, 0) || math.IsNaN(f.Y) || math.IsInf(f.Y, 0) {
		bad("forward.notFinite", fmt.Sprint(f))
		return
	}
	b := p.Reverse(f)
	dlon := b.X - lon
	if c.Name == "AzimuthalEquidistant" || c.Name == "Orthographic" {
		// these return the longitude in a principal range; compare modulo 360
		dlon = math.Remainder(dlon, 360)
		if math.Abs(lat) == 90 || math.Abs(b.Y) > 90-1e-9 {
			dlon = 0 // longitude is undefined at a pole
		}
	}
	if !(math.Abs(dlon) <= 1e-9) || !(math.Abs(b.Y-lat) <= 1e-9) {
		bad("roundTrip", fmt.Sprintf("Reverse(Forward(%v %v)) = %v", lon, lat, b))
		return
	}
	if !character {
		return
	}
	// numerical Jacobian w.r.t. (λ, φ) in radians
	const hd = 1e-4
	h := rad(hd)
	r.Transitions.Add(4)
	fx1, fx0 := p.Forward(geom.XY{X: lon + hd, Y: lat}), p.Forward(geom.XY{X: lon - hd, Y: lat})
	fy1, fy0 := p.Forward(geom.XY{X: lon, Y: lat + hd}), p.Forward(geom.XY{X: lon, Y: lat - hd})
	ax, ay := (fx1.X-fx0.X)/(2*h), (fx1.Y-fx0.Y)/(2*h) // ∂F/∂λ
	bx, by := (fy1.X-fy0.X)/(2*h), (fy1.Y-fy0.Y)/(2*h) // ∂F/∂φ
	cosφ := math.Cos(rad(lat))
	R := c.R
	rel := func(got, want float64) bool { return math.Abs(got-want) <= 1e-6*math.Max(math.Abs(want), 1e-12*R*R) }
	det := ax*by - ay*bx
	la, lb := math.Hypot(ax, ay), math.Hypot(bx, by)
	equalArea := func() {
		if !rel(math.Abs(det), R*R*cosφ) {
			bad("notEqualArea", fmt.Sprintf("|det J| = %v, R²cosφ = %v", math.Abs(det), R*R*cosφ))
		}
	}
	conformal := func(scaleR float64) {
		// a/cosφ and b orthogonal and of equal length
		if math.Abs(ax*bx+ay*by) > 1e-6*la*lb || !rel(la/cosφ, lb) {
			bad("notConformal", fmt.Sprintf("|∂λ|/cosφ = %v, |∂φ| = %v, dot = %v", la/cosφ, lb, ax*bx+ay*by))
		}
	}
	onStd := func() bool {
		for _, s := range c.Std {
			if lat == s {
				return true
			}
		}
		return false
	}
	trueScale := func() {
		if !rel(la, R*cosφ) || !rel(lb, R) {
			bad("standardParallelNotTrueToScale", fmt.Sprintf("|∂λ| = %v (R cosφ = %v), |∂φ| = %v (R = %v)", la, R*cosφ, lb, R))
		}
	}
	switch c.Name {
	case "AlbersEqualAreaConic":
		equalArea()
		if onStd() {
			trueScale()
		}
	case "LambertCylindricalEqualArea":
		equalArea()
		if lat == 0 {
			trueScale()
		}
	case "Sinusoidal":
		equalArea()
		if !rel(la, R*cosφ) {
			bad("parallelNotTrueToScale", fmt.Sprint(la, R*cosφ))
		}
	case "LambertConformalConic":
		conformal(R)
		if onStd() {
			trueScale()
		}
	case "WebMercator":
		if math.Abs(ax*bx+ay*by) > 1e-6*la*lb || math.Abs(la/cosφ-lb) > 1e-6*lb {
			bad("notConformal", fmt.Sprint(la/cosφ, lb))
		}
		if by >= 0 {
			bad("yNotIncreasingSouthward", fmt.Sprint(by))
		}
	case "EquidistantConic":
		if !rel(lb, R) {
			bad("meridianScaleNotOne", fmt.Sprint(lb, R))
		}
		if onStd() {
			trueScale()
		}
	case "Equirectangular":
		if !rel(lb, R) {
			bad("meridianScaleNotOne", fmt.Sprint(lb, R))
		}
		if math.Abs(lat) == math.Abs(c.Std[0]) {
			trueScale()
		}
	case "AzimuthalEquidistant":
		d := centralAngle(c.Center[0], c.Center[1], lon, lat)
		if got := math.Hypot(f.X, f.Y); math.Abs(got-R*d) > 1e-9*R {
			bad("distanceFromCentreNotPreserved", fmt.Sprintf("‖F‖ = %v, R·d = %v", got, R*d))
		}
	case "Orthographic":
		// orthographic: ‖F‖ = R sin(d)
		d := centralAngle(c.Center[0], c.Center[1], lon, lat)
		if got := math.Hypot(f.X, f.Y); math.Abs(got-R*math.Sin(d)) > 1e-9*R {
			bad("radialDistance", fmt.Sprintf("‖F‖ = %v, R·sin d = %v", got, R*math.Sin(d)))
		}
	}
}

func c19Configs(thorough bool) []projCfg {
	var out []projCfg
	radii := []float64{1, carto.WGS84EllipsoidMeanRadiusM}
	lons := []float64{-180, -150, -120, -90, -60, -30, 0, 30, 60, 90, 120, 150, 180}
	lats := []float64{-90, -60, -30, 0, 30, 60, 90}
	for _, R := range radii {
		for _, lon := range lons {
			for _, lat := range lats {
				out = append(out, projCfg{Name: "AzimuthalEquidistant", R: R, Center: []float64{lon, lat}}, projCfg{Name: "Orthographic", R: R, Center: []float64{lon, lat}})
			}
			out = append(out, projCfg{Name: "LambertCylindricalEqualArea", R: R, Center: []float64{lon, 0}}, projCfg{Name: "Sinusoidal", R: R, Center: []float64{lon, 0}})
			for _, sp := range []float64{0, 10, 35, -35, 60, -60} {
				out = append(out, projCfg{Name: "Equirectangular", R: R, Center: []float64{lon, 0}, Std: []float64{sp}})
			}
		}
		pars := []float64{-60, -30, -10, 10, 30, 60}
		for _, p1 := range pars {
			for _, p2 := range pars {
				if p1 == -p2 {
					continue // documented singular: cone constant 0
				}
				for _, name := range []string{"AlbersEqualAreaConic", "EquidistantConic", "LambertConformalConic"} {
					olons := []float64{0, -120, 150}
					olats := []float64{0, 40, -25}
					if thorough {
						olons, olats = lons, []float64{-60, -30, 0, 30, 60}
					}
					for _, ol := range olons {
						for _, oa := range olats {
							out = append(out, projCfg{Name: name, R: R, Center: []float64{ol, oa}, Std: []float64{p1, p2}})
						}
					}
				}
			}
		}
	}
	for z := 0; z <= 30; z++ {
		out = append(out, projCfg{Name: "WebMercator", R: 1, Zoom: z, Center: []float64{0, 0}})
	}
	return out
}

func c19Main(r *engine.Run) {
	defer c19Centres(r)
	defer c19Sequences(r)
	r.Rule = "9 projections × configurations (centres/origins on a 30° lattice of the sphere incl. poles and ±180; standard parallel pairs over {±10,±30,±60}² in both orders minus the singular ones; radii 1 and WGS84 mean; zoom 0..30) × points on a graticule (step below) and on a second graticule shifted by 0.3712345678912345° (enumeration replaces the quantifier's random points), clipped to each implementation's one-to-one domain, plus the centre/origin and points on the standard parallels: Forward finite, Reverse∘Forward within 1e-9°, local character by central differences; projection objects as state machines (every setter/use sequence up to a depth against a fresh object with the same configuration) (equal area, conformality, equidistance, true scale on standard parallels, Web Mercator square and orientation). non-trivial = (configuration, point) pairs with a character check. The check covers lattice nodes only; nothing is claimed between nodes"
	cfgs := c19Configs(r.Thorough())
	step := 5.0
	if r.Thorough() {
		step = 1 // the property's 1-degree graticule on every configuration
	}
	r.States.Add(int64(len(cfgs)))
	if r.Parallel(len(cfgs), func(i int) {
		c := cfgs[i]
		p := c.build()
		n := 0
		st := step
		if i%97 == 0 {
			st = 1 // every 97th configuration gets the full 1° graticule
		}
		for _, off := range []float64{0, c19Shift} {
			for dl := -179.0; dl <= 179; dl += st {
				lon := c.Center0() + dl + off
				for lat := -85.0; lat <= 85; lat += st {
					la := lat + off
					if !c.inDomain(lon, la) {
						continue
					}
					n++
					c19Point(r, c, p, lon, la, n%3 == 0)
				}
			}
		}
		// the centre / origin itself and points on the standard parallels
		if len(c.Center) == 2 && c.Name != "WebMercator" {
			lat := c.Center[1]
			if math.Abs(lat) > 85 && c.Name != "AzimuthalEquidistant" && c.Name != "Orthographic" {
				lat = 0
			}
			if c.Name == "AzimuthalEquidistant" || c.Name == "Orthographic" || math.Abs(lat) <= 85 {
				c19Point(r, c, p, c.Center[0], lat, false)
			}
		}
		for _, s := range c.Std {
			for _, dl := range []float64{0, 7.3, -21} {
				if c.inDomain(c.Center0()+dl, s) {
					c19Point(r, c, p, c.Center0()+dl, s, true)
				}
			}
			if c.Name == "Equirectangular" && c.inDomain(c.Center0()+5, -s) {
				c19Point(r, c, p, c.Center0()+5, -s, true)
			}
		}
		if c.Name == "WebMercator" {
			P := math.Ldexp(1, c.Zoom)
			const maxLat = 85.0511287798066
			for _, t := range []struct{ lon, lat, x, y float64 }{{-180, maxLat, 0, 0}, {180, -maxLat, P, P}, {0, 0, P / 2, P / 2}, {-180, -maxLat, 0, P}, {180, maxLat, P, 0}} {
				f := p.Forward(geom.XY{X: t.lon, Y: t.lat})
				if math.Abs(f.X-t.x) > 1e-9*P || math.Abs(f.Y-t.y) > 1e-9*P {
					r.Violation("C19/WebMercator.worldSquare", "point", c19Case{c, []float64{t.lon, t.lat}}, fmt.Sprintf("%v, expected (%v %v)", f, t.x, t.y))
				}
			}
		}
		r.Nontrivial(fmt.Sprint(c))
		if i%211 == 0 {
			r.Sample("point", c19Case{c, []float64{c.Center0() + 10, 20}})
		}
	}) {
		r.Bound(fmt.Sprintf("%d configurations × graticule step %v° (1° for every 97th configuration) and its 0.3712345678912345° shift, clipped to the one-to-one domain; centre/origin; standard parallels", len(cfgs), step))
	}
}

// c19Centres: the azimuthal projections at their own centre, for every integer centre of the sphere
// (the property claims exactness "including exactly at the projection centre" for "centres over the whole sphere").
func c19Centres(r *engine.Run) {
	n := 0
	for _, name := range []string{"AzimuthalEquidistant", "Orthographic"} {
		for _, R := range []float64{1, carto.WGS84EllipsoidMeanRadiusM} {
			for lon := -180; lon <= 180; lon++ {
				for lat := -89; lat <= 89; lat++ {
					c := projCfg{Name: name, R: R, Center: []float64{float64(lon), float64(lat)}}
					p := c.build()
					c19Point(r, c, p, float64(lon), float64(lat), false)
					n++
					// and very close to the centre without being it (1e-8°..1e-2° away in 4 directions,
					// on every 7th centre): a centre special case must not swallow its neighbourhood
					if (lon+lat)%7 == 0 && lat > -80 && lat < 80 {
						for _, d := range []float64{1e-8, 1e-6, 1e-4, 1e-2} {
							for _, dir := range [][2]float64{{1, 0}, {0, 1}, {-1, 0}, {0.6, -0.8}} {
								c19Point(r, c, p, float64(lon)+d*dir[0], float64(lat)+d*dir[1], false)
							}
						}
					}
				}
			}
		}
	}
	r.States.Add(int64(n))
	r.Bound(fmt.Sprintf("azimuthal projections at their own centre for every integer centre (lon -180..180, lat -89..89) × 2 radii: %d configurations; every 7th also at 1e-8°..1e-2° from the centre in 4 directions", n))
}

func c19Replay(r *engine.Run, sub string, raw json.RawMessage) error {
	var c c19Case
	if err := json.Unmarshal(raw, &c); err != nil {
		return err
	}
	c19Point(r, c.Cfg, c.Cfg.build(), c.Point[0], c.Point[1], true)
	return nil
}

func init() {
	engine.Register(&engine.Check{ID: "C19", Main: c19Main, Replay: c19Replay})
}

package checks

import (
	"encoding/json"
	"fmt"
	"math"

	"github.com/peterstace/simplefeatures/geom"
	"verif/engine"
	"verif/exact"
	"verif/oracle"
	"verif/universe"
)

func typeDim(g geom.Geometry) int {
	switch g.Type() {
	case geom.TypePoint, geom.TypeMultiPoint:
		return 0
	case geom.TypeLineString, geom.TypeMultiLineString:
		return 1
	case geom.TypePolygon, geom.TypeMultiPolygon:
		return 2
	}
	d := 0
	for _, m := range oracle.Members(g) {
		if md := typeDim(m); md > d {
			d = md
		}
	}
	return d
}

func structurallyEmpty(g geom.Geometry) bool { return oracle.FromGeom(g).IsEmpty() }

func c15Check(r *engine.Run, g geom.Geometry, disjointMembers bool, note string) {
	c := measCase{WKT: g.AsText(), Note: note}
	bad := func(k, d string) { r.Violation("C15/"+k, "geom", c, d) }
	x := oracle.FromGeom(g)
	r.Evaluations.Add(1)
	r.Transitions.Add(4)
	var b geom.Geometry
	var pos geom.Point
	if p := engine.SafeCall(func() { b = g.Boundary(); pos = g.PointOnSurface() }); p != nil {
		bad("panic", fmt.Sprint(p))
		return
	}
	if g.IsEmpty() != x.IsEmpty() {
		bad("IsEmpty", fmt.Sprint(g.IsEmpty()))
	}
	if g.Dimension() != typeDim(g) {
		bad("Dimension", fmt.Sprint(g.Dimension(), typeDim(g)))
	}
	// ---- Boundary ----
	bx := oracle.FromGeom(b)
	if !bx.IsEmpty() {
		if bx.Dim() != x.Dim()-1 {
			bad("Boundary.dimension", fmt.Sprintf("dimension %d for a geometry of dimension %d: %s", bx.Dim(), x.Dim(), b.AsText()))
		}
		var bb geom.Geometry
		if p := engine.SafeCall(func() { bb = b.Boundary() }); p != nil || !bb.IsEmpty() {
			bad("Boundary.ofBoundaryNotEmpty", fmt.Sprint(p, bb.AsText()))
		}
	}
	if x.Dim() == 0 && !bx.IsEmpty() {
		bad("Boundary.ofPoints", b.AsText())
	}
	switch g.Type() {
	case geom.TypePolygon:
		if !b.IsEmpty() {
			p := g.MustAsPolygon()
			if (p.NumInteriorRings() == 0) != b.IsLineString() || (p.NumInteriorRings() > 0 && !b.IsMultiLineString()) {
				bad("Boundary.polygonType", b.AsText())
			}
		}
	case geom.TypeGeometryCollection:
		if !x.IsEmpty() {
			var want []string
			for _, m := range oracle.Members(g) {
				if mb := m.Boundary(); !mb.IsEmpty() {
					want = append(want, mb.Force2D().AsText())
				}
			}
			var got []string
			if !b.IsGeometryCollection() {
				bad("Boundary.collectionType", b.AsText())
			} else {
				for _, m := range oracle.Members(b) {
					got = append(got, m.AsText())
				}
				if fmt.Sprint(got) != fmt.Sprint(want) {
					bad("Boundary.collectionOfMemberBoundaries", fmt.Sprintf("%v, expected %v", got, want))
				}
			}
		}
	}
	if disjointMembers {
		// point set equality with the DE-9IM boundary, cell by cell
		arr := oracle.JointArr(x, bx)
		chk := func(p exact.Pt, what string) bool {
			want := x.Locate(p) == exact.Boundary
			if got := bx.In(p); got != want {
				bad("Boundary.pointSet", fmt.Sprintf("%s %v: in Boundary() %v, DE-9IM boundary %v; Boundary() = %s", what, p, got, want, b.AsText()))
				return false
			}
			return true
		}
		ok := true
		for _, v := range arr.V {
			ok = ok && chk(v, "vertex")
		}
		for _, e := range arr.E {
			ok = ok && chk(e.Mid, "edge midpoint")
		}
		for _, f := range arr.F {
			ok = ok && chk(f.Probe, "face probe")
		}
	}
	// ---- PointOnSurface ----
	xy, has := pos.XY()
	if pos.CoordinatesType() != geom.DimXY {
		bad("PointOnSurface.notXY", pos.AsText())
	}
	if has == x.IsEmpty() {
		bad("PointOnSurface.emptiness", pos.AsText())
		return
	}
	if !has {
		return
	}
	if math.IsNaN(xy.X) || math.IsInf(xy.X, 0) || math.IsNaN(xy.Y) || math.IsInf(xy.Y, 0) {
		bad("PointOnSurface.notFinite", pos.AsText())
		return
	}
	p := exact.PF(xy.X, xy.Y)
	// the part of highest dimension
	top := &exact.G{}
	switch x.Dim() {
	case 2:
		top.Polys = x.Polys
	case 1:
		top.Lines = x.Lines
	default:
		top.Points = x.Points
	}
	if x.Dim() == 2 {
		interior := false
		for _, y := range top.Polys {
			if exact.LocatePoly(p, y) == exact.Interior {
				interior = true
			}
		}
		if !interior {
			bad("PointOnSurface.notInteriorOfArealPart", pos.AsText())
		}
	} else if !top.In(p) {
		// a point computed on a line (midpoints) may be rounded; allow 4 ulp of the magnitude
		d := oracle.NewFG(top).Dist(p)
		if d > 4*2.3e-16*magnitude(x) {
			bad("PointOnSurface.notOnHighestDimensionPart", fmt.Sprintf("%s is %g away", pos.AsText(), d))
		}
	}
}

func c15Main(r *engine.Run) {
	r.Rule = "valid lattice geometries of every type (full 3×3 operand alphabet, holes family, star family of MultiLineStrings sharing end points 2/3/4 ways, every simple ≤7-gon of 3×3 under 9 anisotropic scalings so that the envelope centre falls outside or on a vertex row, closed and self-touching lines, collections with empty members) and affine images: Boundary compared cell by cell with the DE-9IM boundary of the exact arrangement plus its dimension/type/idempotence/collection rules; PointOnSurface located exactly (strictly interior for areal parts, on the highest-dimension part otherwise); Dimension/IsEmpty vs structure. non-trivial = polygons whose envelope centre is not interior, lines with ≥3-way shared end points, collections with empty members"
	id := universe.Identity
	type item struct {
		g    geom.Geometry
		dis  bool
		note string
	}
	var items []item
	level := 0
	if r.Thorough() {
		level = 1
	}
	for _, o := range BuildAlphabet(id, 1).All() {
		items = append(items, item{o.G, o.MembersDisjoint, "alphabet " + o.Kind})
	}
	for _, o := range HolesFamily(id) {
		items = append(items, item{o.G, o.MembersDisjoint, "holes family"})
	}
	for _, o := range StarFamily(id, level) {
		items = append(items, item{o.G, true, "star family"})
	}
	// anisotropic scalings of every simple polygon with ≤7 vertices
	polys := universe.SimplePolygons(3, 7)
	for _, sx := range []float64{1, 2, 3} {
		for _, sy := range []float64{1, 2, 3} {
			if sx == 1 && sy == 1 {
				continue
			}
			t := universe.Affine{A: sx, D: sy, Name: fmt.Sprintf("scale(%g,%g)", sx, sy)}
			for i, p := range polys {
				if level == 0 && i%2 == 1 {
					continue
				}
				items = append(items, item{t.Polygon(p).AsGeometry(), true, "anisotropic " + t.Name})
			}
		}
	}
	// combs and holes-in-a-row: the mid-height scan line crosses the boundary 4..8
	// times, with every combination of tooth/notch (resp. hole/gap) widths in {1,2,3},
	// in 4 orientations
	widths := []int{1, 2, 3}
	var combos func(n int, cur []int, f func([]int))
	combos = func(n int, cur []int, f func([]int)) {
		if n == 0 {
			f(cur)
			return
		}
		for _, w := range widths {
			combos(n-1, append(cur, w), f)
		}
	}
	orients := []universe.Affine{id, {A: 1, D: -1, Name: "flipY"}, {A: 0, B: 1, C: 1, D: 0, Name: "transpose"}, {A: 0, B: -1, C: 1, D: 0, Name: "rot90"}}
	for teeth := 2; teeth <= 4; teeth++ {
		if teeth == 4 && level == 0 {
			continue
		}
		combos(2*teeth-1, nil, func(ws []int) {
			// ws alternates tooth, notch, tooth, ...
			var ring []universe.LPt
			x := 0
			ring = append(ring, universe.LPt{X: 0, Y: 0})
			total := 0
			for _, w := range ws {
				total += w
			}
			ring = append(ring, universe.LPt{X: total, Y: 0})
			// walk back along the top from right to left
			x = total
			for i := len(ws) - 1; i >= 0; i-- {
				if i%2 == 0 { // tooth: up at right edge, across, down at left edge
					ring = append(ring, universe.LPt{X: x, Y: 4}, universe.LPt{X: x - ws[i], Y: 4})
					if i > 0 {
						ring = append(ring, universe.LPt{X: x - ws[i], Y: 1})
					}
				} else { // notch floor
					ring = append(ring, universe.LPt{X: x - ws[i], Y: 1})
				}
				x -= ws[i]
			}
			ring = append(ring, universe.LPt{X: 0, Y: 0})
			// remove consecutive duplicates
			var rr []universe.LPt
			for i, p := range ring {
				if i == 0 || p != ring[i-1] {
					rr = append(rr, p)
				}
			}
			for _, t := range orients {
				g := t.Polygon(rr).AsGeometry()
				if g.Validate() == nil {
					items = append(items, item{g, true, "comb"})
				}
			}
		})
	}
	for holes := 2; holes <= 3; holes++ {
		if holes == 3 && level == 0 {
			continue
		}
		combos(2*holes+1, nil, func(ws []int) {
			// ws alternates margin/gap, hole, gap, hole, ..., margin
			total := 0
			for _, w := range ws {
				total += w
			}
			rings := [][]universe.LPt{{{0, 0}, {total, 0}, {total, 4}, {0, 4}, {0, 0}}}
			x := 0
			for i, w := range ws {
				if i%2 == 1 {
					rings = append(rings, []universe.LPt{{x, 1}, {x, 3}, {x + w, 3}, {x + w, 1}, {x, 1}})
				}
				x += w
			}
			for _, t := range orients[:2+2*level] {
				g := t.Polygon(rings...).AsGeometry()
				if g.Validate() == nil {
					items = append(items, item{g, true, "holes in a row"})
				}
			}
		})
	}
	// Z/M-carrying variants of the star family (shared end points carry different Z/M: the mod-2 rule is about XY)
	for i, o := range StarFamily(id, 0) {
		if i%4 == 0 {
			items = append(items, item{withZM(o.G, geom.DimXYZ), true, "star family Z"}, item{withZM(o.G, geom.DimXYZM), true, "star family ZM"})
		}
	}
	// tall shells with a vertex on the envelope's centre row and a triangular hole entirely above (or below) it,
	// apex at every height: the scan line used by PointOnSurface is shifted between vertex rows
	for _, H := range []int{8, 6} {
		shell := []universe.LPt{{0, 0}, {16, 0}, {16, H / 2}, {16, H}, {0, H}, {0, 0}}
		var hp []universe.LPt
		for x := 2; x <= 14; x += 2 {
			for y := H/2 + 1; y < H; y++ {
				hp = append(hp, universe.LPt{X: x, Y: y})
			}
		}
		for a := 0; a < len(hp); a++ {
			for b := a + 1; b < len(hp); b++ {
				for c := b + 1; c < len(hp); c++ {
					if (hp[b].X-hp[a].X)*(hp[c].Y-hp[a].Y)-(hp[b].Y-hp[a].Y)*(hp[c].X-hp[a].X) == 0 {
						continue
					}
					hole := []universe.LPt{hp[a], hp[b], hp[c], hp[a]}
					for oi, t := range orients[:2] {
						g := t.Polygon(shell, hole).AsGeometry()
						if g.Validate() == nil {
							items = append(items, item{g, true, "hole above the centre row"})
							if oi == 0 && (a+b)%5 == 0 {
								items = append(items, item{geom.NewMultiPolygon([]geom.Polygon{g.MustAsPolygon()}).AsGeometry(), true, "hole above the centre row (MultiPolygon)"})
							}
						}
					}
				}
			}
		}
	}
	// closed / self-touching / self-crossing lines
	for _, l := range [][]universe.LPt{
		{{0, 0}, {2, 0}, {1, 2}, {0, 0}}, {{0, 0}, {2, 2}, {2, 0}, {0, 2}, {0, 0}}, {{0, 0}, {2, 0}, {2, 2}, {1, 0}}, {{0, 0}, {1, 0}, {2, 0}, {1, 0}, {1, 2}},
		{{0, 0}, {1, 1}, {0, 0}}, {{0, 0}, {2, 0}, {2, 2}, {0, 2}, {0, 0}, {2, 2}}, {{1, 1}, {1, 1}, {2, 1}}, {{0, 0}, {2, 0}, {1, 0}, {1, 1}, {1, 0}},
	} {
		items = append(items, item{id.Line(l).AsGeometry(), true, "self-touching line"})
		items = append(items, item{geom.NewMultiLineString([]geom.LineString{id.Line(l), id.Line([]universe.LPt{{0, 0}, {0, 2}})}).AsGeometry(), true, "self-touching line in MLS"})
	}
	// Z/M carried into the boundary
	items = append(items, item{geom.NewLineStringXYZ(0, 0, 5, 1, 1, 6, 2, 0, 7).AsGeometry(), true, "Z line"},
		item{geom.NewPolygonXYZM([]float64{0, 0, 1, 2, 3, 0, 1, 2, 0, 3, 1, 2, 0, 0, 1, 2}).AsGeometry(), true, "ZM polygon"})
	r.States.Add(int64(len(items)))
	if r.Parallel(len(items), func(i int) {
		it := items[i]
		c15Check(r, it.g, it.dis, it.note)
		if it.note != "alphabet poly" && it.note != "alphabet seg" {
			r.Nontrivial(it.g.AsText())
		}
		if i%977 == 0 {
			r.Sample("geom", measCase{WKT: it.g.AsText(), Note: it.note})
		}
	}) {
		r.Bound(fmt.Sprintf("%d lattice geometries (alphabet level 1, holes family, %d star MultiLineStrings, anisotropic scalings of %d polygons, self-touching lines)", len(items), len(StarFamily(id, level)), len(polys)))
	}
	if r.Thorough() {
		// 4×4 lattice: every simple polygon of ≤7 vertices, alone (under an index-dependent anisotropic
		// stretch so that the envelope's centre row/column varies) and, for ≤5 vertices, as the hole
		// of a frame (PointOnSurface must avoid the hole whatever its shape)
		p4 := universe.SimplePolygons(4, 8)
		n4 := len(p4)
		// 5×5 lattice (odd side: the envelope's centre row is a vertex row; slopes k/4): ≤5 vertices
		p4 = append(p4, universe.SimplePolygons(5, 5)...)
		frame := []universe.LPt{{-1, -1}, {5, -1}, {5, 5}, {-1, 5}, {-1, -1}}
		stretches := []universe.Affine{id, {A: 1, D: 2, Name: "scale(1,2)"}, {A: 3, D: 1, Name: "scale(3,1)"}, {A: 0, B: 1, C: 1, D: 0, Name: "transpose"}}
		r.States.Add(int64(len(p4)))
		if r.Parallel(len(p4), func(i int) {
			t := stretches[i%len(stretches)]
			ring := rotateRing(p4[i], i%(len(p4[i])-1), i%2 == 1)
			c15Check(r, t.Polygon(ring).AsGeometry(), true, "4×4/5×5 simple polygon "+t.Name)
			if len(p4[i])-1 <= 5 {
				c15Check(r, t.Polygon(rotateRing(frame, i%4, i%3 == 0), ring).AsGeometry(), true, "frame with a 4×4/5×5 simple polygon as hole "+t.Name)
			}
		}) {
			r.Bound(fmt.Sprintf("4×4 lattice: all %d simple polygons of ≤8 vertices; 5×5 lattice: all %d of ≤5 vertices (4 stretches by index); every one of ≤5 vertices also as the hole of a frame", n4, len(p4)-n4))
		}
	}
	for _, t := range append(append([]universe.Affine{}, c02ExactAffines...), floatAffines()...) {
		ops := BuildAlphabet(t, 0).All()
		isFloat := t.B != 0 && t.A != 0 && t.A != 1
		if r.Parallel(len(ops), func(i int) {
			// for float images the exact cell-by-cell comparison still applies: Boundary() re-uses input vertices
			c15Check(r, ops[i].G, ops[i].MembersDisjoint && !(isFloat && ops[i].Kind != "poly" && ops[i].Kind != "seg" && ops[i].Kind != "path" && ops[i].Kind != "point"), "image "+t.Name)
		}) {
			r.Bound(fmt.Sprintf("affine image %s of the reduced alphabet", t.Name))
		}
	}
}

func c15Replay(r *engine.Run, sub string, raw json.RawMessage) error {
	var c measCase
	if err := json.Unmarshal(raw, &c); err != nil {
		return err
	}
	g, err := geom.UnmarshalWKT(c.WKT, geom.NoValidate{})
	if err != nil {
		return err
	}
	c15Check(r, g, flatDisjoint(flatten([]geom.Geometry{g})), c.Note)
	return nil
}

func init() {
	engine.Register(&engine.Check{ID: "C15", Main: c15Main, Replay: c15Replay})
}

package checks

import (
	"encoding/json"
	"fmt"
	"math"
	"sync/atomic"

	"github.com/peterstace/simplefeatures/geom"
	"verif/engine"
	"verif/exact"
	"verif/oracle"
	"verif/universe"
)

type feats struct {
	pts  []exact.Pt
	segs []exact.Seg
}

func featsOf(g *exact.G) feats {
	f := feats{pts: append([]exact.Pt{}, g.Points...), segs: g.Segs()}
	for _, l := range g.Lines {
		if len(l) > 0 {
			f.pts = append(f.pts, l[0]) // covers degenerate lines; harmless otherwise
		}
	}
	return f
}

// exactDist2 is the minimum squared distance between the boundaries/points of
// two non-intersecting geometries (for intersecting ones the caller uses 0).
func exactDist2(a, b feats) (exact.R, bool) {
	var best exact.R
	found := false
	upd := func(d exact.R) {
		if !found || d.Lt(best) {
			best, found = d, true
		}
	}
	for _, p := range a.pts {
		for _, q := range b.pts {
			upd(exact.Dist2(p, q))
		}
		for _, s := range b.segs {
			upd(exact.DistPtSeg2(p, s.A, s.B))
		}
	}
	for _, s := range a.segs {
		for _, q := range b.pts {
			upd(exact.DistPtSeg2(q, s.A, s.B))
		}
		for _, t := range b.segs {
			upd(exact.DistSegSeg2(s.A, s.B, t.A, t.B))
		}
	}
	return best, found
}

func exactIntersects(p *oracle.Pair) bool {
	for _, in := range p.VIn {
		if in[0] && in[1] {
			return true
		}
	}
	for _, in := range p.EIn {
		if in[0] && in[1] {
			return true
		}
	}
	for _, in := range p.FIn {
		if in[0] && in[1] {
			return true
		}
	}
	return false
}

func ulpDiff(a, b float64) float64 {
	if a == b {
		return 0
	}
	return math.Abs(a-b) / (math.Nextafter(math.Max(math.Abs(a), math.Abs(b)), math.Inf(1)) - math.Max(math.Abs(a), math.Abs(b)))
}

// c09Pair checks Intersects/Disjoint/Intersection-emptiness/Distance for the
// unordered pair in both orders. Returns the library distance (ok=false if undefined).
func c09Pair(r *engine.Run, a, b Operand, heavy bool) (float64, bool) {
	c := pairCase{A: a.WKT, B: b.WKT}
	p := oracle.NewPair(a.X, b.X)
	want := exactIntersects(p)
	mag := magnitude(a.X, b.X)
	r.Evaluations.Add(1)
	bad := func(k, d string) { r.Violation("C09/"+k+":"+a.G.Type().String()+"/"+b.G.Type().String(), "pair", c, d) }
	var dAB, dBA float64
	var okAB, okBA bool
	var iAB, iBA bool
	if pnc := engine.SafeCall(func() {
		iAB, iBA = geom.Intersects(a.G, b.G), geom.Intersects(b.G, a.G)
		dAB, okAB = geom.Distance(a.G, b.G)
		dBA, okBA = geom.Distance(b.G, a.G)
	}); pnc != nil {
		bad("panic", fmt.Sprint(pnc))
		return 0, false
	}
	r.Transitions.Add(4)
	if iAB != want || iBA != want {
		bad("intersects", fmt.Sprintf("Intersects(a,b)=%v Intersects(b,a)=%v exact=%v", iAB, iBA, want))
	}
	if heavy {
		r.Transitions.Add(2)
		if dj, err := geom.Disjoint(a.G, b.G); err != nil || dj == want {
			bad("disjointVsIntersects", fmt.Sprint(dj, err))
		}
		if in, err := geom.Intersection(a.G, b.G); err != nil || in.IsEmpty() == want {
			bad("intersectionEmptiness", fmt.Sprint(in.AsText(), err))
		}
	}
	defined := !a.X.IsEmpty() && !b.X.IsEmpty()
	if okAB != defined || okBA != defined {
		bad("distance.defined", fmt.Sprint(okAB, okBA))
		return 0, false
	}
	if !defined {
		return 0, false
	}
	if ulpDiff(dAB, dBA) > 4 {
		bad("distance.symmetry", fmt.Sprint(dAB, dBA))
	}
	if (dAB == 0) != want {
		bad("distance.zeroIffIntersects", fmt.Sprint(dAB))
	}
	wantD := 0.0
	if !want {
		d2, ok := exactDist2(featsOf(a.X), featsOf(b.X))
		if !ok {
			r.EngineError("no features for non-empty operands")
			return dAB, true
		}
		wantD = exact.SqrtFloat(d2)
		touch := 0
		_ = touch
	}
	if math.Abs(dAB-wantD) > 1e-14*math.Max(mag, wantD) {
		bad("distance.value", fmt.Sprintf("library %v exact %v", dAB, wantD))
	}
	if ed, ok := a.G.Envelope().Distance(b.G.Envelope()); ok && dAB < ed*(1-1e-15) {
		bad("distance.belowEnvelopeDistance", fmt.Sprint(dAB, ed))
	}
	if want && !exactIntersectsInterior(p) {
		r.Nontrivial("touch " + a.WKT + "|" + b.WKT)
	}
	return dAB, true
}

// touching only: no face or edge in common
func exactIntersectsInterior(p *oracle.Pair) bool {
	for _, in := range p.EIn {
		if in[0] && in[1] {
			return true
		}
	}
	for _, in := range p.FIn {
		if in[0] && in[1] {
			return true
		}
	}
	return false
}

func diameter(g *exact.G) float64 {
	f := featsOf(g)
	pts := f.pts
	for _, s := range f.segs {
		pts = append(pts, s.A, s.B)
	}
	d := 0.0
	for i := range pts {
		for j := i + 1; j < len(pts); j++ {
			d = math.Max(d, exact.SqrtFloat(exact.Dist2(pts[i], pts[j])))
		}
	}
	return d
}

// bigOperands: geometries with many parts so that the R-tree inside Distance
// has several levels and pruning matters.
func bigOperands(t universe.Affine) []Operand {
	var out []Operand
	pts6 := universe.LatticePoints(6)
	var ps []geom.Point
	for _, p := range pts6 {
		ps = append(ps, t.Point(p))
	}
	out = append(out, mkOp(geom.NewMultiPoint(ps).AsGeometry(), "big"))
	out = append(out, mkOp(geom.NewMultiPoint(ps[:17]).AsGeometry(), "big"))
	var ls []geom.LineString
	for i := 0; i+1 < len(pts6); i += 2 {
		ls = append(ls, t.Line([]universe.LPt{pts6[i], pts6[i+1]}))
	}
	out = append(out, mkOp(geom.NewMultiLineString(ls).AsGeometry(), "big"))
	// diagonal segments (not axis parallel), boxes overlap heavily
	var dl []geom.LineString
	for i := 0; i < 5; i++ {
		dl = append(dl, t.Line([]universe.LPt{{i, 0}, {5, 5 - i}}), t.Line([]universe.LPt{{0, i}, {5 - i, 5}}))
	}
	out = append(out, mkOp(geom.NewMultiLineString(dl).AsGeometry(), "big"))
	zig := []universe.LPt{}
	for i := 0; i < 18; i++ {
		zig = append(zig, universe.LPt{X: i % 6, Y: (i/6)*2 + i%2})
	}
	out = append(out, mkOp(t.Line(zig).AsGeometry(), "big"))
	comb := []universe.LPt{{0, 0}, {5, 0}, {5, 5}, {4, 5}, {4, 1}, {3, 1}, {3, 5}, {2, 5}, {2, 1}, {1, 1}, {1, 5}, {0, 5}, {0, 0}}
	out = append(out, mkOp(t.Polygon(comb).AsGeometry(), "big"))
	var sq []geom.Polygon
	for i := 0; i < 3; i++ {
		for j := 0; j < 3; j++ {
			sq = append(sq, t.Polygon([]universe.LPt{{2 * i, 2 * j}, {2*i + 1, 2 * j}, {2*i + 1, 2*j + 1}, {2 * i, 2*j + 1}, {2 * i, 2 * j}}))
		}
	}
	out = append(out, mkOp(geom.NewMultiPolygon(sq).AsGeometry(), "big"))
	// rings with many vertices: a digitised disc (20 vertices, every slope from the octant),
	// a spiral corridor (16 vertices, deeply non-convex), a staircase (26 vertices, 12 collinear-free
	// steps), and a plate with a 3×2 grid of holes (7 rings)
	disc := []universe.LPt{{2, 0}, {4, 0}, {5, 1}, {6, 2}, {6, 4}, {5, 5}, {4, 6}, {2, 6}, {1, 5}, {0, 4}, {0, 2}, {1, 1}, {2, 0}}
	spiral := []universe.LPt{{0, 0}, {7, 0}, {7, 7}, {0, 7}, {0, 2}, {5, 2}, {5, 5}, {2, 5}, {2, 4}, {4, 4}, {4, 3}, {1, 3}, {1, 6}, {6, 6}, {6, 1}, {0, 1}, {0, 0}}
	var stair []universe.LPt
	for i := 0; i <= 6; i++ {
		stair = append(stair, universe.LPt{X: i, Y: i}, universe.LPt{X: i + 1, Y: i})
	}
	stair = append(stair, universe.LPt{X: 7, Y: 7}, universe.LPt{X: 0, Y: 7}, universe.LPt{X: 0, Y: 0})
	plate := [][]universe.LPt{{{0, 0}, {7, 0}, {7, 5}, {0, 5}, {0, 0}}}
	for i := 0; i < 3; i++ {
		for j := 0; j < 2; j++ {
			x, y := 1+2*i, 1+2*j
			plate = append(plate, []universe.LPt{{x, y}, {x, y + 1}, {x + 1, y + 1}, {x + 1, y}, {x, y}})
		}
	}
	for _, rings := range [][][]universe.LPt{{disc}, {spiral}, {stair}, plate} {
		if g := t.Polygon(rings...).AsGeometry(); g.Validate() == nil {
			out = append(out, mkOp(g, "big"))
		} else {
			panic("bigOperands: invalid family member " + g.AsText())
		}
	}
	return out
}

func c09Main(r *engine.Run) {
	r.Rule = "ordered pairs of valid lattice geometries over all 28 type pairs (3×3 alphabet incl. collections with overlapping members and empties, 6×6 holes family, star family, many-part geometries under every translation in {0,3,7}² and far placements, exact and general-position affine images): Intersects, Disjoint, Intersection emptiness and Distance compared with exact rational geometry; triangle-like inequality on all triples of a reduced alphabet. non-trivial = pairs that touch without sharing an edge piece or face"
	level := 0
	if r.Thorough() {
		level = 1
	}
	alpha := BuildAlphabet(universe.Identity, level)
	ops := alpha.All()
	n := len(ops)
	r.States.Add(int64(n))
	typePairs := map[string]bool{}
	if r.Parallel(n*n, func(k int) {
		i, j := k/n, k%n
		if i <= j {
			c09Pair(r, ops[i], ops[j], level == 1 || k%3 == 0)
		}
	}) {
		r.Bound(fmt.Sprintf("all %d² pairs of the 3×3 alphabet (level %d; Disjoint/Intersection cross-checks on %s)", n, level, map[int]string{0: "every third pair", 1: "every pair"}[level]))
	}
	for _, a := range ops {
		for _, b := range ops {
			typePairs[a.G.Type().String()+"/"+b.G.Type().String()] = true
		}
	}
	r.Extra["type_pairs_covered"] = len(typePairs)
	r.Sample("pair", pairCase{A: ops[n/3].WKT, B: ops[n-20].WKT})
	{
		tj := TJunctionPairs(level)
		if r.Parallel(len(tj), func(k int) { c09Pair(r, tj[k][0], tj[k][1], true) }) {
			r.Bound(fmt.Sprintf("T-junction family: %d pairs (a vertex of B on the interior of a long edge of A at every integer position)", len(tj)))
		}
		cp := ConcurrentPairs(level)
		if r.Parallel(len(cp), func(k int) { c09Pair(r, cp[k][0], cp[k][1], k%4 == 0) }) {
			r.Bound(fmt.Sprintf("concurrent family: %d pairs with three edge interiors through one non-vertex lattice point", len(cp)))
		}
	}
	// chained: results of the set operations against every operand of a reduced alphabet
	{
		parts := 13
		if r.Thorough() {
			parts = 29
		}
		chainA := chainAlphabet(ops, HolesFamily(universe.Identity), parts)
		var kept atomic.Int64
		if done, fed := chainResults(r, chainA, func(res Operand) {
			for _, c := range chainA {
				if !arrClearanceOK(oracle.NewPair(res.X, c.X).Arr, magnitude(res.X, c.X)) {
					continue
				}
				kept.Add(1)
				c09Pair(r, res, c, true)
			}
		}); done {
			r.Bound(fmt.Sprintf("chained: %d results of set operations on pairs of a %d-operand alphabet against every operand of it (%d pairs kept by the clearance filter)", fed, len(chainA), kept.Load()))
		}
	}

	hf := append(HolesFamily(universe.Identity), StarProbes(universe.Identity)...)
	m := len(hf)
	if r.Parallel(m*m, func(k int) {
		if k/m <= k%m {
			c09Pair(r, hf[k/m], hf[k%m], true)
		}
	}) {
		r.Bound(fmt.Sprintf("all %d² pairs of the 6×6 holes family", m))
	}
	// many-part operands × translations (R-tree depth and pruning)
	bigA := bigOperands(universe.Identity)
	var shifts []universe.Affine
	for _, dx := range []float64{0, 3, 7, -40} {
		for _, dy := range []float64{0, 3, 7, 1000} {
			shifts = append(shifts, universe.Affine{A: 1, D: 1, TX: dx + 0.5, TY: dy + 0.5, Name: fmt.Sprintf("shift(%g,%g)", dx+0.5, dy+0.5)},
				universe.Affine{A: 1, D: 1, TX: dx, TY: dy, Name: fmt.Sprintf("shift(%g,%g)", dx, dy)})
		}
	}
	small := []Operand{}
	for i, o := range ops {
		if i%(n/25+1) == 0 {
			small = append(small, o)
		}
	}
	type job struct{ a, b Operand }
	var jobs []job
	for _, s := range shifts {
		bigB := bigOperands(s)
		for _, a := range bigA {
			for _, b := range bigB {
				jobs = append(jobs, job{a, b})
			}
			for _, b := range BuildAlphabet(s, 0).Points[:3] {
				jobs = append(jobs, job{a, b})
			}
		}
		for _, b := range bigB {
			for _, a := range small {
				jobs = append(jobs, job{a, b})
			}
		}
	}
	if r.Parallel(len(jobs), func(i int) { c09Pair(r, jobs[i].a, jobs[i].b, i%4 == 0) }) {
		r.Bound(fmt.Sprintf("many-part operands (36-point MultiPoint, 18-segment MultiLineStrings incl. diagonal, 18-vertex zig-zag, comb polygon, 9-square MultiPolygon) × %d translations × each other and a %d-operand alphabet: %d pairs", len(shifts), len(small), len(jobs)))
	}
	r.Sample("pair", pairCase{A: jobs[len(jobs)/2].a.WKT, B: jobs[len(jobs)/2].b.WKT})
	// triangle-like inequality on all triples of a reduced alphabet
	tri := small
	tri = append(tri, hf[0], hf[4], hf[5], bigA[3])
	t := len(tri)
	dist := make([][]float64, t)
	okm := make([][]bool, t)
	for i := range dist {
		dist[i] = make([]float64, t)
		okm[i] = make([]bool, t)
		for j := range tri {
			dist[i][j], okm[i][j] = geom.Distance(tri[i].G, tri[j].G)
		}
	}
	diam := make([]float64, t)
	for i := range tri {
		diam[i] = diameter(tri[i].X)
	}
	for i := 0; i < t; i++ {
		for j := 0; j < t; j++ {
			for k := 0; k < t; k++ {
				if okm[i][j] && okm[j][k] && okm[i][k] {
					r.Evaluations.Add(1)
					if dist[i][k] > dist[i][j]+diam[j]+dist[j][k]+1e-12 {
						r.Violation("C09/triangle", "triple", map[string]string{"a": tri[i].WKT, "b": tri[j].WKT, "c": tri[k].WKT}, fmt.Sprint(dist[i][k], dist[i][j], diam[j], dist[j][k]))
					}
				}
			}
		}
	}
	r.Bound(fmt.Sprintf("d(a,c) ≤ d(a,b)+diam(b)+d(b,c) on all %d³ triples", t))
	if r.Thorough() {
		// 4×4 lattice: a fixed stride of all pairs of the ≤4-vertex polygons, segments and paths
		l4 := Lattice4(universe.Identity)
		n4 := len(l4)
		const stride4 = 7
		if r.Parallel(n4*n4/stride4, func(k int) {
			kk := k * stride4
			i, j := kk/n4, kk%n4
			if i > j {
				i, j = j, i
			}
			_ = kk
			c09Pair(r, l4[i], l4[j], kk%4 == 0)
		}) {
			r.Bound(fmt.Sprintf("4×4 lattice alphabet (%d operands): every %d-th ordered pair", n4, stride4))
		}
	}
	// affine images
	stride := 41
	if level == 1 {
		stride = 3
	}
	for _, tf := range append(append([]universe.Affine{}, c02ExactAffines...), floatAffines()...) {
		aops := BuildAlphabet(tf, 0).All()
		na := len(aops)
		isFloat := tf.B != 0 && tf.A != 0 && tf.A != 1
		if r.Parallel(na*na/stride, func(k int) {
			kk := k * stride
			i, j := kk/na, kk%na
			if i > j {
				i, j = j, i
			}
			if isFloat {
				p := oracle.NewPair(aops[i].X, aops[j].X)
				if !arrClearanceOK(p.Arr, magnitude(aops[i].X, aops[j].X)) {
					return
				}
			}
			c09Pair(r, aops[i], aops[j], !isFloat)
		}) {
			r.Bound(fmt.Sprintf("affine image %s: every %d-th pair of the reduced alphabet", tf.Name, stride))
		}
	}
}

func c09Replay(r *engine.Run, sub string, raw json.RawMessage) error {
	if sub != "pair" {
		return fmt.Errorf("sub %q has no single-case replay; re-run the check", sub)
	}
	a, b, err := parsePair(raw)
	if err != nil {
		return err
	}
	c09Pair(r, a, b, true)
	return nil
}

func init() {
	engine.Register(&engine.Check{ID: "C09", Main: c09Main, Replay: c09Replay})
}

package checks

import (
	"fmt"

	"github.com/peterstace/simplefeatures/geom"
	"github.com/peterstace/simplefeatures/rtree"
)

// The op table Ω shared by the three C10 sub-checks (and by the race binary):
// every op renders its complete result as a string (WKB hex for geometries).

func gb(g geom.Geometry, err error) string {
	if err != nil {
		return "error:" + err.Error()
	}
	return fmt.Sprintf("%x", g.AsBinary())
}

type unaryOp struct {
	Name string
	Fn   func(g geom.Geometry) string
}

type binaryOp struct {
	Name string
	Fn   func(a, b geom.Geometry) string
}

var C10Unary = []unaryOp{
	{"AsText", func(g geom.Geometry) string { return g.AsText() }},
	{"AsBinary", func(g geom.Geometry) string { return fmt.Sprintf("%x", g.AsBinary()) }},
	{"MarshalJSON", func(g geom.Geometry) string { b, err := g.MarshalJSON(); return fmt.Sprint(string(b), err) }},
	{"MarshalTWKB", func(g geom.Geometry) string {
		b, err := geom.MarshalTWKB(g, 2, geom.TWKBBoundingBoxHeader())
		return fmt.Sprintf("%x %v", b, err)
	}},
	{"WKB roundtrip", func(g geom.Geometry) string { return gb(geom.UnmarshalWKB(g.AsBinary())) }},
	{"WKT roundtrip", func(g geom.Geometry) string { return gb(geom.UnmarshalWKT(g.AsText())) }},
	{"GeoJSON roundtrip", func(g geom.Geometry) string { b, _ := g.MarshalJSON(); return gb(geom.UnmarshalGeoJSON(b)) }},
	{"Validate", func(g geom.Geometry) string { return fmt.Sprint(g.Validate()) }},
	{"IsSimple", func(g geom.Geometry) string { a, b := g.IsSimple(); return fmt.Sprint(a, b) }},
	{"Envelope", func(g geom.Geometry) string { return g.Envelope().String() }},
	{"Boundary", func(g geom.Geometry) string { return gb(g.Boundary(), nil) }},
	{"ConvexHull", func(g geom.Geometry) string { return gb(g.ConvexHull(), nil) }},
	{"Centroid", func(g geom.Geometry) string { return g.Centroid().AsText() }},
	{"PointOnSurface", func(g geom.Geometry) string { return g.PointOnSurface().AsText() }},
	{"Area", func(g geom.Geometry) string { return fmt.Sprint(g.Area(), g.Area(geom.SignedArea)) }},
	{"Length", func(g geom.Geometry) string { return fmt.Sprint(g.Length()) }},
	{"Reverse", func(g geom.Geometry) string { return gb(g.Reverse(), nil) }},
	{"ForceCW", func(g geom.Geometry) string { return gb(g.ForceCW(), nil) }},
	{"ForceCCW", func(g geom.Geometry) string { return gb(g.ForceCCW(), nil) }},
	{"Force2D", func(g geom.Geometry) string { return gb(g.Force2D(), nil) }},
	{"ForceCoordinatesType", func(g geom.Geometry) string { return gb(g.ForceCoordinatesType(geom.DimXYZM), nil) }},
	{"TransformXY", func(g geom.Geometry) string {
		return gb(g.TransformXY(func(p geom.XY) geom.XY { return geom.XY{X: 2*p.X + 1, Y: p.Y - 3} }), nil)
	}},
	{"SnapToGrid", func(g geom.Geometry) string { return gb(g.SnapToGrid(0), nil) }},
	{"Densify", func(g geom.Geometry) string { return gb(g.Densify(0.75), nil) }},
	{"Simplify", func(g geom.Geometry) string { return gb(g.Simplify(0.5)) }},
	{"Dump", func(g geom.Geometry) string {
		s := ""
		for _, m := range g.Dump() {
			s += fmt.Sprintf("%x;", m.AsBinary())
		}
		return s
	}},
	{"DumpCoordinates", func(g geom.Geometry) string { return fmt.Sprint(g.DumpCoordinates()) }},
	{"Summary", func(g geom.Geometry) string { return g.Summary() + g.String() }},
	{"UnaryUnion", func(g geom.Geometry) string { return gb(geom.UnaryUnion(g)) }},
	{"RotatedMinimumAreaBoundingRectangle", func(g geom.Geometry) string { return gb(geom.RotatedMinimumAreaBoundingRectangle(g), nil) }},
	{"RotatedMinimumWidthBoundingRectangle", func(g geom.Geometry) string { return gb(geom.RotatedMinimumWidthBoundingRectangle(g), nil) }},
	{"IsCW/IsCCW", func(g geom.Geometry) string {
		return fmt.Sprint(g.IsCW(), g.IsCCW(), g.IsEmpty(), g.Dimension(), g.CoordinatesType())
	}},
}

func be(b bool, err error) string { return fmt.Sprint(b, err) }

var C10Binary = []binaryOp{
	{"Union", func(a, b geom.Geometry) string { return gb(geom.Union(a, b)) }},
	{"Intersection", func(a, b geom.Geometry) string { return gb(geom.Intersection(a, b)) }},
	{"Difference", func(a, b geom.Geometry) string { return gb(geom.Difference(a, b)) }},
	{"SymmetricDifference", func(a, b geom.Geometry) string { return gb(geom.SymmetricDifference(a, b)) }},
	{"UnionMany", func(a, b geom.Geometry) string { return gb(geom.UnionMany([]geom.Geometry{a, b, a})) }},
	{"Relate", func(a, b geom.Geometry) string { m, err := geom.Relate(a, b); return fmt.Sprint(m, err) }},
	{"Equals", func(a, b geom.Geometry) string { return be(geom.Equals(a, b)) }},
	{"Touches", func(a, b geom.Geometry) string { return be(geom.Touches(a, b)) }},
	{"Contains", func(a, b geom.Geometry) string { return be(geom.Contains(a, b)) }},
	{"Covers", func(a, b geom.Geometry) string { return be(geom.Covers(a, b)) }},
	{"Crosses", func(a, b geom.Geometry) string { return be(geom.Crosses(a, b)) }},
	{"Overlaps", func(a, b geom.Geometry) string { return be(geom.Overlaps(a, b)) }},
	{"Disjoint", func(a, b geom.Geometry) string { return be(geom.Disjoint(a, b)) }},
	{"Intersects", func(a, b geom.Geometry) string { return fmt.Sprint(geom.Intersects(a, b)) }},
	{"Distance", func(a, b geom.Geometry) string { d, ok := geom.Distance(a, b); return fmt.Sprint(d, ok) }},
	{"ExactEquals", func(a, b geom.Geometry) string {
		return fmt.Sprint(geom.ExactEquals(a, b), geom.ExactEquals(a, b, geom.IgnoreOrder), geom.ExactEquals(a, b, geom.ToleranceXY(0.5)))
	}},
	{"NewGeometryCollection", func(a, b geom.Geometry) string {
		return gb(geom.NewGeometryCollection([]geom.Geometry{a, b}).AsGeometry(), nil)
	}},
}

// overlay-backed ops (reach map iteration) used by the map-order explorer
var C10OverlayOps = []string{"Union", "Intersection", "Difference", "SymmetricDifference", "UnionMany", "Relate", "Equals", "Crosses"}

// tree ops
type treeOp struct {
	Name string
	Fn   func(t *rtree.RTree, q rtree.Box) string
}

var C10Tree = []treeOp{
	{"RangeSearch", func(t *rtree.RTree, q rtree.Box) string {
		var ids []int
		err := t.RangeSearch(q, func(id int) error { ids = append(ids, id); return nil })
		return fmt.Sprint(ids, err)
	}},
	{"PrioritySearch", func(t *rtree.RTree, q rtree.Box) string {
		var ids []int
		err := t.PrioritySearch(q, func(id int) error {
			ids = append(ids, id)
			if len(ids) == 7 {
				return rtree.Stop
			}
			return nil
		})
		return fmt.Sprint(ids, err)
	}},
	{"Nearest", func(t *rtree.RTree, q rtree.Box) string { id, ok := t.Nearest(q); return fmt.Sprint(id, ok) }},
	{"Extent/Count", func(t *rtree.RTree, q rtree.Box) string { e, ok := t.Extent(); return fmt.Sprint(e, ok, t.Count()) }},
}

// C10Operands: a slice of the lattice universe containing every degeneracy class.
func C10Operands() []geom.Geometry {
	var out []geom.Geometry
	wkts := []string{
		"POINT(1 1)", "POINT EMPTY", "MULTIPOINT(0 0,2 2,0 0)", "MULTIPOINT(EMPTY,1 1)",
		"LINESTRING(0 0,2 2)", "LINESTRING(0 2,2 0,2 2)", "LINESTRING(0 0,2 0,1 2,0 0)", "LINESTRING(0 0,2 2,2 0,0 2)", "LINESTRING Z(0 0 1,1 1 2,1 1 3,2 0 4)",
		"MULTILINESTRING((0 0,1 1),(1 1,2 0),(1 1,1 2))", "MULTILINESTRING((0 1,2 1),EMPTY,(1 0,1 2))",
		"POLYGON((0 0,2 0,2 2,0 2,0 0))", "POLYGON((0 0,2 0,0 2,0 0))", "POLYGON((1 1,3 1,3 3,1 3,1 1))", "POLYGON((0 0,1 0,2 0,2 1,1 1,1 2,0 2,0 0))",
		"POLYGON((0 0,5 0,5 5,0 5,0 0),(1 1,1 2,2 2,2 1,1 1),(3 3,3 4,4 4,4 3,3 3))", "POLYGON((0 0,5 0,5 5,0 5,0 0),(0 0,1 3,3 1,0 0))", "POLYGON ZM((0 0 1 2,2 0 3 4,1 2 5 6,0 0 1 2))",
		"MULTIPOLYGON(((0 0,1 0,1 1,0 1,0 0)),((1 1,2 1,2 2,1 2,1 1)))", "MULTIPOLYGON(((0 0,2 0,2 2,0 2,0 0)),EMPTY,((3 3,4 3,4 4,3 4,3 3)))",
		"GEOMETRYCOLLECTION(POINT(1 1),LINESTRING(0 2,2 2))", "GEOMETRYCOLLECTION(POLYGON((0 0,2 0,2 2,0 2,0 0)),POLYGON((1 1,3 1,3 3,1 3,1 1)))",
		"GEOMETRYCOLLECTION(POLYGON((0 0,5 0,5 5,0 5,0 0),(1 1,1 4,4 4,4 1,1 1)),LINESTRING(0 0,5 5),POINT(2 2))", "GEOMETRYCOLLECTION(GEOMETRYCOLLECTION(MULTIPOINT(1 1,0 2)),POLYGON EMPTY)",
		"GEOMETRYCOLLECTION EMPTY", "LINESTRING(0 0,2 0,2 1,0 0)", "MULTILINESTRING((0 0,2 0,2 1,0 0),(5 5,6 6))",
		// three edge interiors through (4,-2) whose pairwise float crossing points differ in the last place:
		// which of them becomes the node must not depend on map order
		"MULTILINESTRING((-10 12,15 -13),(4 10,4 -6))", "LINESTRING(9 7,-1 -11)",
		"MULTIPOLYGON(((0 0,1 0,1 1,0 1,0 0)),((2 0,3 0,3 1,2 1,2 0)),((4 0,5 0,5 1,4 1,4 0)),((0 2,1 2,1 3,0 3,0 2)),((2 2,3 2,3 3,2 3,2 2)),((4 2,5 2,5 3,4 3,4 2)))",
	}
	for _, w := range wkts {
		g, err := geom.UnmarshalWKT(w)
		if err != nil {
			panic(w + ": " + err.Error())
		}
		out = append(out, g)
	}
	return out
}

// C10Trees: bulk-loaded trees with their item boxes.
func C10Trees() ([]*rtree.RTree, [][]rtree.Box) {
	var ts []*rtree.RTree
	var bs [][]rtree.Box
	for _, spec := range []struct {
		fam int
		n   int
	}{{0, 0}, {0, 3}, {1, 9}, {10, 17}, {2, 64}, {8, 257}} {
		boxes := c11Families[spec.fam].gen(spec.n)
		items := make([]rtree.BulkItem, len(boxes))
		for i, b := range boxes {
			items[i] = rtree.BulkItem{Box: b, RecordID: i}
		}
		ts = append(ts, rtree.BulkLoad(items))
		bs = append(bs, boxes)
	}
	return ts, bs
}

package checks

import (
	"encoding/json"
	"errors"
	"fmt"
	"math"
	"sort"

	"github.com/peterstace/simplefeatures/rtree"
	"verif/engine"
)

type c11Case struct {
	Family string      `json:"family"`
	N      int         `json:"n"`
	Boxes  []rtree.Box `json:"boxes,omitempty"` // only for small explicit trees
	Query  rtree.Box   `json:"query"`
	Op     string      `json:"op"`                    // range | priority
	StopAt int         `json:"stopAt"`                // -1: never
	NegIDs bool        `json:"negativeIds,omitempty"` // records loaded with ids −n..−1 instead of 0..n−1
	Kind   int         `json:"kind"`                  // 0 Stop, 1 wrapped Stop, 2 error, 3 wrapped error, 4 errors.Join(error, Stop), 5 two %w, 6 doubly wrapped Stop
}

func refOverlap(a, b rtree.Box) bool {
	return a.MinX <= b.MaxX && b.MinX <= a.MaxX && a.MinY <= b.MaxY && b.MinY <= a.MaxY
}

// refDist is the box-to-box Euclidean distance computed without squaring
// (math.Hypot neither overflows nor underflows for representable distances).
func refDist(a, b rtree.Box) float64 {
	g := func(a0, a1, b0, b1 float64) float64 {
		if b0 > a1 {
			return b0 - a1
		}
		if a0 > b1 {
			return a0 - b1
		}
		return 0
	}
	return math.Hypot(g(a.MinX, a.MaxX, b.MinX, b.MaxX), g(a.MinY, a.MaxY, b.MinY, b.MaxY))
}

func refDist2(a, b rtree.Box) float64 {
	g := func(a0, a1, b0, b1 float64) float64 {
		if b0 > a1 {
			return b0 - a1
		}
		if a0 > b1 {
			return a0 - b1
		}
		return 0
	}
	dx, dy := g(a.MinX, a.MaxX, b.MinX, b.MaxX), g(a.MinY, a.MaxY, b.MinY, b.MaxY)
	return dx*dx + dy*dy
}

var errBoom = errors.New("boom")

func c11Ret(kind int) error {
	switch kind {
	case 0:
		return rtree.Stop
	case 1:
		return fmt.Errorf("wrapped: %w", rtree.Stop)
	case 2:
		return errBoom
	case 4: // Stop joined with another error (multi-error wrapper)
		return errors.Join(errBoom, rtree.Stop)
	case 5: // two %w verbs
		return fmt.Errorf("%w after %w", errBoom, rtree.Stop)
	case 6: // wrapped twice
		return fmt.Errorf("outer: %w", fmt.Errorf("inner: %w", rtree.Stop))
	}
	return fmt.Errorf("wrapped: %w", errBoom)
}

// c11StopLike: the kinds that wrap Stop in the sense of errors.Is (the library documents "Stop may be wrapped").
func c11StopLike(kind int) bool { return kind < 2 || kind >= 4 }

type c11Tree struct {
	family string
	boxes  []rtree.Box
	tree   *rtree.RTree
	// off: record i is loaded with RecordID i−off. off = len(boxes) makes every id negative (record
	// ids are the caller's: geom itself uses negative ones); every id seen is decoded with +off.
	off int
}

func c11Build(r *engine.Run, family string, boxes []rtree.Box, negIDs bool) *c11Tree {
	off := 0
	if negIDs {
		off = len(boxes)
	}
	items := make([]rtree.BulkItem, len(boxes))
	for i, b := range boxes {
		items[i] = rtree.BulkItem{Box: b, RecordID: i - off}
	}
	t := rtree.BulkLoad(items)
	r.States.Add(1)
	c := c11Case{Family: family, N: len(boxes), NegIDs: negIDs}
	if len(boxes) <= 8 {
		c.Boxes = boxes
	}
	// the item slice may be permuted but must hold the same items
	seen := make([]bool, len(boxes))
	for _, it := range items {
		ix := it.RecordID + off
		if ix < 0 || ix >= len(boxes) || seen[ix] || it.Box != boxes[ix] {
			r.Violation("C11/bulkload.itemsCorrupted", "tree", c, fmt.Sprint(it))
			break
		}
		seen[ix] = true
	}
	if t.Count() != len(boxes) {
		r.Violation("C11/count", "tree", c, fmt.Sprint(t.Count()))
	}
	ext, ok := t.Extent()
	if ok != (len(boxes) > 0) {
		r.Violation("C11/extent", "tree", c, fmt.Sprint(ext, ok))
	} else if ok {
		w := boxes[0]
		for _, b := range boxes[1:] {
			w.MinX, w.MinY = math.Min(w.MinX, b.MinX), math.Min(w.MinY, b.MinY)
			w.MaxX, w.MaxY = math.Max(w.MaxX, b.MaxX), math.Max(w.MaxY, b.MaxY)
		}
		if ext != w {
			r.Violation("C11/extent", "tree", c, fmt.Sprint(ext, "want", w))
		}
	}
	if bad := t.VerifCheck(); len(bad) > 0 {
		r.Violation("C11/structure", "tree", c, bad[0])
	}
	return &c11Tree{family, boxes, t, off}
}

func (t *c11Tree) mk(q rtree.Box, op string, stopAt, kind int) c11Case {
	c := c11Case{Family: t.family, N: len(t.boxes), Query: q, Op: op, StopAt: stopAt, Kind: kind, NegIDs: t.off != 0}
	if len(t.boxes) <= 8 {
		c.Boxes = t.boxes
	}
	return c
}

// search runs one search with the script "continue × stopAt, then kind" and
// returns the visit sequence, the calls made after the first non-nil return
// and the search's result.
func (t *c11Tree) search(q rtree.Box, op string, stopAt, kind int) (visits []int, after int, ret, sent error) {
	stopped := false
	cb := func(id int) error {
		if stopped {
			after++
			return nil
		}
		visits = append(visits, id+t.off)
		if stopAt >= 0 && len(visits) == stopAt+1 {
			stopped = true
			sent = c11Ret(kind)
			return sent
		}
		return nil
	}
	if op == "range" {
		ret = t.tree.RangeSearch(q, cb)
	} else {
		ret = t.tree.PrioritySearch(q, cb)
	}
	return
}

// c11Query checks one (tree, query) under the all-continue script and under
// every stop position in ks and every return kind.
func c11Query(r *engine.Run, t *c11Tree, q rtree.Box, allK bool) {
	for _, op := range []string{"range", "priority"} {
		visits, _, ret, _ := t.search(q, op, -1, 0)
		r.Transitions.Add(1)
		r.Evaluations.Add(1)
		c := t.mk(q, op, -1, 0)
		if ret != nil {
			r.Violation("C11/"+op+".errorWithoutCause", "search", c, fmt.Sprint(ret))
		}
		seen := map[int]int{}
		for _, v := range visits {
			seen[v]++
		}
		want := 0
		for i, b := range t.boxes {
			hit := op == "priority" || refOverlap(b, q)
			if hit {
				want++
			}
			if (seen[i] == 1) != hit || seen[i] > 1 {
				r.Violation("C11/"+op+".visitSet", "search", c, fmt.Sprintf("record %d box %v visited %d times, want %v", i, b, seen[i], hit))
				break
			}
		}
		if len(visits) != want {
			r.Violation("C11/"+op+".visitSet", "search", c, fmt.Sprintf("%d visits, want %d", len(visits), want))
		}
		if op == "priority" {
			prev := -1.0
			for _, v := range visits {
				if v < 0 || v >= len(t.boxes) {
					break
				}
				d := refDist(t.boxes[v], q)
				if d < prev*(1-1e-15) {
					r.Violation("C11/priority.order", "search", c, fmt.Sprintf("record %d at distance %v after distance %v", v, d, prev))
					break
				}
				prev = d
			}
			id, found := t.tree.Nearest(q)
			id += t.off
			r.Transitions.Add(1)
			if found != (len(t.boxes) > 0) {
				r.Violation("C11/nearest.found", "search", c, fmt.Sprint(found))
			} else if found {
				best := math.Inf(1)
				for _, b := range t.boxes {
					best = math.Min(best, refDist(b, q))
				}
				if id < 0 || id >= len(t.boxes) || refDist(t.boxes[id], q) > best*(1+1e-15) {
					r.Violation("C11/nearest.notMinimal", "search", c, fmt.Sprint(id))
				}
			}
		}
		m := len(visits)
		var ks []int
		if allK || m <= 12 {
			for k := 0; k < m; k++ {
				ks = append(ks, k)
			}
		} else {
			for _, k := range []int{0, 1, 2, 3, 4, 5, 7, 8, 15, 16, 17, m / 2, m - 3, m - 2, m - 1} {
				if k >= 0 && k < m {
					ks = append(ks, k)
				}
			}
		}
		if m >= 2 {
			r.Nontrivial(fmt.Sprintf("%s/%d/%v/%s", t.family, len(t.boxes), q, op))
		}
		// re-entrancy: at visit k the callback itself searches the same tree (Nearest, a RangeSearch
		// and a PrioritySearch that stops after two visits) and then continues. The outer visit
		// sequence must be what it is without the nested searches, and the nested answers must be
		// the ones an un-nested search gives.
		for ki, k := range ks {
			if ki > 3 && ki < len(ks)-1 {
				continue
			}
			var outer []int
			var nestedBad string
			wantNearest, wantFound := t.tree.Nearest(q)
			var wantRange []int
			_ = t.tree.RangeSearch(q, func(id int) error { wantRange = append(wantRange, id); return nil })
			cb := func(id int) error {
				outer = append(outer, id+t.off)
				if len(outer) > 4*len(t.boxes)+16 {
					return errBoom // a disturbed search must not be allowed to loop forever
				}
				if len(outer) == k+1 {
					if n, f := t.tree.Nearest(q); n != wantNearest || f != wantFound {
						nestedBad = fmt.Sprint("nested Nearest ", n, f)
					}
					var got []int
					if err := t.tree.RangeSearch(q, func(id int) error { got = append(got, id); return nil }); err != nil || fmt.Sprint(got) != fmt.Sprint(wantRange) {
						nestedBad = fmt.Sprint("nested RangeSearch ", got, err)
					}
					cnt := 0
					var first2 []int
					if err := t.tree.PrioritySearch(q, func(id int) error {
						first2 = append(first2, id+t.off)
						if cnt++; cnt == 2 {
							return rtree.Stop
						}
						return nil
					}); err != nil || (len(visits) >= 2 && op == "priority" && (len(first2) != 2 || first2[0] != visits[0] || first2[1] != visits[1])) {
						nestedBad = fmt.Sprint("nested PrioritySearch ", first2, err)
					}
				}
				return nil
			}
			var err error
			if op == "range" {
				err = t.tree.RangeSearch(q, cb)
			} else {
				err = t.tree.PrioritySearch(q, cb)
			}
			r.Transitions.Add(4)
			r.Evaluations.Add(1)
			c := t.mk(q, op, k, 7)
			if err != nil || nestedBad != "" || fmt.Sprint(outer) != fmt.Sprint(visits) {
				r.Violation("C11/"+op+".reentrantCallback", "search", c, fmt.Sprintf("outer visits %v (without nesting %v) %v %s", outer, visits, err, nestedBad))
			}
		}
		for ki, k := range ks {
			for kind := 0; kind < 7; kind++ {
				if kind >= 4 && ki > 1 && ki < len(ks)-1 {
					continue // the multi-error wrappers at the first two and the last stop positions
				}
				v2, after, ret, sent := t.search(q, op, k, kind)
				r.Transitions.Add(1)
				r.Evaluations.Add(1)
				c := t.mk(q, op, k, kind)
				if after != 0 {
					r.Violation("C11/"+op+".callbackAfterStop", "search", c, fmt.Sprintf("%d further callback invocations after the callback returned %v at visit %d", after, sent, k))
				}
				if len(v2) != k+1 {
					r.Violation("C11/"+op+".stopPosition", "search", c, fmt.Sprint(len(v2)))
				} else {
					for i := range v2 {
						if v2[i] != visits[i] {
							r.Violation("C11/"+op+".nondeterministicOrder", "search", c, "")
							break
						}
					}
				}
				if c11StopLike(kind) {
					if ret != nil {
						r.Violation("C11/"+op+".stopNotNil", "search", c, fmt.Sprint(ret))
					}
				} else if ret != sent {
					r.Violation("C11/"+op+".errorChanged", "search", c, fmt.Sprint(ret))
				}
			}
		}
	}
}

// ---- universes ---------------------------------------------------------------

func c11LatticeBoxes(n int) []rtree.Box {
	var out []rtree.Box
	for x0 := 0; x0 < n; x0++ {
		for x1 := x0; x1 < n; x1++ {
			for y0 := 0; y0 < n; y0++ {
				for y1 := y0; y1 < n; y1++ {
					out = append(out, rtree.Box{MinX: float64(x0), MinY: float64(y0), MaxX: float64(x1), MaxY: float64(y1)})
				}
			}
		}
	}
	return out
}

func bitrev(i, bits int) int {
	r := 0
	for b := 0; b < bits; b++ {
		if i&(1<<b) != 0 {
			r |= 1 << (bits - 1 - b)
		}
	}
	return r
}

type c11Family struct {
	name string
	gen  func(n int) []rtree.Box
}

var c11Families = []c11Family{
	{"grid-rowmajor", func(n int) []rtree.Box {
		w := int(math.Ceil(math.Sqrt(float64(n))))
		var o []rtree.Box
		for i := 0; i < n; i++ {
			x, y := float64(i%w), float64(i/w)
			o = append(o, rtree.Box{MinX: x, MinY: y, MaxX: x + 0.5, MaxY: y + 0.5})
		}
		return o
	}},
	{"grid-reversed", func(n int) []rtree.Box {
		w := int(math.Ceil(math.Sqrt(float64(n))))
		var o []rtree.Box
		for i := n - 1; i >= 0; i-- {
			x, y := float64(i%w), float64(i/w)
			o = append(o, rtree.Box{MinX: x, MinY: y, MaxX: x + 1, MaxY: y + 1}) // touching neighbours
		}
		return o
	}},
	{"bitreversal-points", func(n int) []rtree.Box {
		var o []rtree.Box
		for i := 0; i < n; i++ {
			x, y := float64(bitrev(i, 13)%97), float64(bitrev(i, 13)/97)
			o = append(o, rtree.Box{MinX: x, MinY: y, MaxX: x, MaxY: y})
		}
		return o
	}},
	{"all-identical", func(n int) []rtree.Box {
		o := make([]rtree.Box, n)
		for i := range o {
			o[i] = rtree.Box{MinX: 1, MinY: 1, MaxX: 2, MaxY: 2}
		}
		return o
	}},
	{"identical-centres", func(n int) []rtree.Box {
		var o []rtree.Box
		for i := 0; i < n; i++ {
			e := float64(i%7) + 0.5
			o = append(o, rtree.Box{MinX: 5 - e, MinY: 5 - e, MaxX: 5 + e, MaxY: 5 + e})
		}
		return o
	}},
	{"collinear-horizontal", func(n int) []rtree.Box {
		var o []rtree.Box
		for i := 0; i < n; i++ {
			x := float64((i * 7) % (n + 1))
			o = append(o, rtree.Box{MinX: x, MinY: 3, MaxX: x + 1, MaxY: 3})
		}
		return o
	}},
	{"collinear-vertical", func(n int) []rtree.Box {
		var o []rtree.Box
		for i := 0; i < n; i++ {
			y := float64((i * 5) % (n + 1))
			o = append(o, rtree.Box{MinX: 2, MinY: y, MaxX: 2, MaxY: y})
		}
		return o
	}},
	{"collinear-diagonal", func(n int) []rtree.Box {
		var o []rtree.Box
		for i := 0; i < n; i++ {
			t := float64(n - i)
			o = append(o, rtree.Box{MinX: t, MinY: t, MaxX: t + 1, MaxY: t + 1})
		}
		return o
	}},
	{"two-clusters", func(n int) []rtree.Box {
		var o []rtree.Box
		for i := 0; i < n; i++ {
			b := 0.0
			if i%2 == 1 {
				b = 1000
			}
			x, y := b+float64(i%5)*0.25, b+float64((i/5)%5)*0.25
			o = append(o, rtree.Box{MinX: x, MinY: y, MaxX: x + 0.25, MaxY: y + 0.25})
		}
		return o
	}},
	{"nested", func(n int) []rtree.Box {
		var o []rtree.Box
		for i := 0; i < n; i++ {
			e := float64(i)
			o = append(o, rtree.Box{MinX: -e, MinY: -e, MaxX: e, MaxY: e})
		}
		return o
	}},
	{"staircase-overlap", func(n int) []rtree.Box {
		var o []rtree.Box
		for i := 0; i < n; i++ {
			t := float64(i) * 0.5
			o = append(o, rtree.Box{MinX: t, MinY: t, MaxX: t + 3, MaxY: t + 3})
		}
		return o
	}},
	{"duplicates-x3", func(n int) []rtree.Box {
		var o []rtree.Box
		for i := 0; i < n; i++ {
			x, y := float64((i/3)%4), float64((i/3)/4)
			o = append(o, rtree.Box{MinX: x, MinY: y, MaxX: x + 1, MaxY: y})
		}
		return o
	}},
	{"huge-plus-tiny", func(n int) []rtree.Box {
		var o []rtree.Box
		for i := 0; i < n; i++ {
			if i == n/2 {
				o = append(o, rtree.Box{MinX: -1e6, MinY: -1e6, MaxX: 1e6, MaxY: 1e6})
				continue
			}
			x, y := float64(i%6), float64(i/6)
			o = append(o, rtree.Box{MinX: x, MinY: y, MaxX: x + 1e-3, MaxY: y + 1e-3})
		}
		return o
	}},
	{"magnitudes-1e200", func(n int) []rtree.Box {
		var o []rtree.Box
		for i := 0; i < n; i++ {
			x := 1e200 * float64((i*7)%(n+1)+1)
			y := 1e200 * float64(i%3)
			o = append(o, rtree.Box{MinX: x, MinY: y, MaxX: x, MaxY: y})
		}
		return o
	}},
	{"magnitudes-1e-200", func(n int) []rtree.Box {
		var o []rtree.Box
		for i := 0; i < n; i++ {
			x := 1e-200 * float64((i*5)%(n+1)+1)
			o = append(o, rtree.Box{MinX: x, MinY: x, MaxX: x * 1.5, MaxY: x})
		}
		return o
	}},
	{"magnitudes-1e-162", func(n int) []rtree.Box {
		// distances k·1e-162 .. : their squares are subnormal (a few significant bits), so a key that
		// goes through the square cannot tell 2.0e-162 from 2.3e-162
		var o []rtree.Box
		for i := 0; i < n; i++ {
			x := 1e-162 * (2 + 0.3*float64((i*5)%(n+1)))
			y := 1e-162 * float64(i%2)
			o = append(o, rtree.Box{MinX: x, MinY: y, MaxX: x, MaxY: y})
		}
		return o
	}},
	{"magnitudes-1e153", func(n int) []rtree.Box {
		// squares just below overflow: sums of two of them overflow
		var o []rtree.Box
		for i := 0; i < n; i++ {
			x := 1e153 * (9 + 0.5*float64((i*3)%(n+1)))
			y := 1e153 * (9 + float64(i%4))
			o = append(o, rtree.Box{MinX: x, MinY: y, MaxX: x, MaxY: y})
		}
		return o
	}},
	{"extreme-1e300", func(n int) []rtree.Box {
		var o []rtree.Box
		for i := 0; i < n; i++ {
			s := 1e300
			if i%2 == 0 {
				s = -1e300
			}
			x := s * float64(i%5+1) / 5
			o = append(o, rtree.Box{MinX: x, MinY: -x, MaxX: x, MaxY: -x})
		}
		return o
	}},
}

// c11Queries: every lattice box over the tree's extent scaled to a 4×4 grid,
// plus an enclosing box, a far-disjoint one, and for a stride of items their
// own box and boxes touching them at an edge and at a corner.
func c11Queries(boxes []rtree.Box, perItem int) []rtree.Box {
	qs := []rtree.Box{{MinX: -1e9, MinY: -1e9, MaxX: 1e9, MaxY: 1e9}, {MinX: 2e9, MinY: 2e9, MaxX: 3e9, MaxY: 3e9}, {}, {MinX: -math.MaxFloat64, MinY: -math.MaxFloat64, MaxX: math.MaxFloat64, MaxY: math.MaxFloat64}}
	if len(boxes) == 0 {
		return append(qs, c11LatticeBoxes(2)...)
	}
	ext := boxes[0]
	for _, b := range boxes {
		ext.MinX, ext.MinY = math.Min(ext.MinX, b.MinX), math.Min(ext.MinY, b.MinY)
		ext.MaxX, ext.MaxY = math.Max(ext.MaxX, b.MaxX), math.Max(ext.MaxY, b.MaxY)
	}
	sx, sy := (ext.MaxX-ext.MinX)/3, (ext.MaxY-ext.MinY)/3
	if math.IsInf(sx, 0) {
		sx = ext.MaxX/3 - ext.MinX/3
	}
	if math.IsInf(sy, 0) {
		sy = ext.MaxY/3 - ext.MinY/3
	}
	for _, l := range c11LatticeBoxes(4) {
		qs = append(qs, rtree.Box{MinX: ext.MinX + l.MinX*sx, MinY: ext.MinY + l.MinY*sy, MaxX: ext.MinX + l.MaxX*sx, MaxY: ext.MinY + l.MaxY*sy})
	}
	step := 1
	if perItem > 0 && len(boxes) > perItem {
		step = len(boxes) / perItem
	}
	for i := 0; i < len(boxes); i += step {
		b := boxes[i]
		w, h := b.MaxX-b.MinX+1, b.MaxY-b.MinY+1
		qs = append(qs, b,
			rtree.Box{MinX: b.MaxX, MinY: b.MinY, MaxX: b.MaxX + w, MaxY: b.MaxY},     // touches right edge
			rtree.Box{MinX: b.MaxX, MinY: b.MaxY, MaxX: b.MaxX + w, MaxY: b.MaxY + h}, // touches top-right corner
			rtree.Box{MinX: b.MinX - w, MinY: b.MinY - h, MaxX: b.MinX, MaxY: b.MinY}, // touches bottom-left corner
			rtree.Box{MinX: b.MinX, MinY: b.MinY, MaxX: b.MinX, MaxY: b.MinY},         // degenerate point at its corner
		)
	}
	return qs
}

func c11Main(r *engine.Run) {
	r.Rule = "trees = every multiset of ≤k lattice boxes (corners in {0..3}², incl. points/lines) and 18 layout families (record ids 0..n−1 or, for a third of the trees, −n..−1) at every size 0..40 plus fan-out boundary sizes; queries = lattice boxes over the extent, enclosing, far, each item's own box and edge/corner-touching boxes; callback scripts = continue^j·X for every j (sampled positions for visit lists > 12 on big trees) and X ∈ {Stop, wrapped Stop, error, wrapped error, errors.Join(error, Stop), two-%w wrapper, doubly wrapped Stop}, plus a re-entrant callback that searches the same tree at visit j (first four and last positions). states = trees, transitions = searches. non-trivial = (tree, query, op) with ≥ 2 visits (so a stop precedes the last match)"
	lat := c11LatticeBoxes(4)
	// (i) all multisets of ≤ k lattice boxes; queries = all lattice boxes
	k := 2
	if r.Thorough() {
		k = 3
	}
	var multisets [][]int
	var rec func(start int, cur []int)
	rec = func(start int, cur []int) {
		multisets = append(multisets, append([]int{}, cur...))
		if len(cur) == k {
			return
		}
		for i := start; i < len(lat); i++ {
			rec(i, append(cur, i))
		}
	}
	rec(0, nil)
	sort.SliceStable(multisets, func(i, j int) bool { return len(multisets[i]) < len(multisets[j]) })
	qstride := 1
	if r.Thorough() {
		qstride = 3 // 171 700 three-box trees × every third lattice query (all queries for ≤2 boxes)
	}
	done := r.Parallel(len(multisets), func(i int) {
		var boxes []rtree.Box
		for _, j := range multisets[i] {
			boxes = append(boxes, lat[j])
		}
		t := c11Build(r, "lattice-multiset", boxes, i%2 == 1)
		st := 1
		if len(boxes) == 3 {
			st = qstride
		}
		for qi := i % st; qi < len(lat); qi += st {
			c11Query(r, t, lat[qi], true)
		}
	})
	if done {
		r.Bound(fmt.Sprintf("every multiset of ≤%d of the 100 lattice boxes (%d trees) × lattice queries × every stop position × 4 return kinds", k, len(multisets)))
	}
	r.Sample("search", c11Case{Family: "lattice-multiset", N: 2, Boxes: []rtree.Box{lat[3], lat[47]}, Query: lat[12], Op: "range", StopAt: 0, Kind: 1})
	// (ii) families
	sizes := []int{}
	for n := 0; n <= 40; n++ {
		sizes = append(sizes, n)
	}
	big := []int{63, 64, 65, 255, 256, 257}
	if r.Thorough() {
		big = append(big, 1000, 1023, 1024, 1025, 4096, 5000)
	}
	type job struct {
		f c11Family
		n int
	}
	var jobs []job
	for _, n := range append(sizes, big...) {
		for _, f := range c11Families {
			jobs = append(jobs, job{f, n})
		}
	}
	done = r.Parallel(len(jobs), func(i int) {
		j := jobs[i]
		boxes := j.f.gen(j.n)
		t := c11Build(r, j.f.name, boxes, (i+j.n)%3 == 1)
		per := 0
		if j.n > 40 {
			per = 8
		}
		qs := c11Queries(boxes, per)
		if j.n > 300 {
			qs = append(qs[:4:4], qs[4+17], qs[4+55], qs[4+99], qs[len(qs)-5], qs[len(qs)-4], qs[len(qs)-3])
		}
		for _, q := range qs {
			c11Query(r, t, q, j.n <= 40)
		}
	})
	if done {
		r.Bound(fmt.Sprintf("18 layout families × every size 0..40 and sizes %v", big))
	}
	r.Sample("search", c11Case{Family: "staircase-overlap", N: 17, Query: rtree.Box{MinX: 0, MinY: 0, MaxX: 4, MaxY: 4}, Op: "priority", StopAt: 3, Kind: 0})
}

func c11Replay(r *engine.Run, sub string, raw json.RawMessage) error {
	var c c11Case
	if err := json.Unmarshal(raw, &c); err != nil {
		return err
	}
	boxes := c.Boxes
	if boxes == nil {
		for _, f := range c11Families {
			if f.name == c.Family {
				boxes = f.gen(c.N)
			}
		}
	}
	t := c11Build(r, c.Family, boxes, c.NegIDs)
	if sub == "search" {
		c11Query(r, t, c.Query, true)
	}
	return nil
}

func init() {
	engine.Register(&engine.Check{ID: "C11", Main: c11Main, Replay: c11Replay})
}

package checks

import (
	"encoding/json"
	"fmt"
	"go/ast"
	"go/parser"
	"go/token"
	"os"
	"os/exec"
	"path/filepath"
	"regexp"
	"strings"

	"github.com/peterstace/simplefeatures/geom"
	"github.com/peterstace/simplefeatures/rtree"
	"verif/engine"
	"verif/refcodec"
)

type c10Case struct {
	Op   string `json:"op"`
	A    string `json:"a"`
	B    string `json:"b,omitempty"`
	Note string `json:"note,omitempty"`
}

func snap(g geom.Geometry) string {
	return fmt.Sprintf("%x|%s", g.AsBinary(), refcodec.Describe(g).String())
}

func safeStr(f func() string) (s string) {
	defer func() {
		if p := recover(); p != nil {
			s = fmt.Sprint("panic:", p)
		}
	}()
	return f()
}

// ---- 1. purity / aliasing --------------------------------------------------------------

var geomToGeom = []struct {
	name string
	fn   func(g geom.Geometry) geom.Geometry
}{
	{"Reverse", func(g geom.Geometry) geom.Geometry { return g.Reverse() }},
	{"ForceCW", func(g geom.Geometry) geom.Geometry { return g.ForceCW() }},
	{"Boundary", func(g geom.Geometry) geom.Geometry { return g.Boundary() }},
	{"ConvexHull", func(g geom.Geometry) geom.Geometry { return g.ConvexHull() }},
	{"Densify", func(g geom.Geometry) geom.Geometry { return g.Densify(0.75) }},
	{"TransformXY", func(g geom.Geometry) geom.Geometry {
		return g.TransformXY(func(p geom.XY) geom.XY { return geom.XY{X: p.X + 1, Y: p.Y} })
	}},
	{"UnaryUnion", func(g geom.Geometry) geom.Geometry { h, _ := geom.UnaryUnion(g); return h }},
	{"Force2D", func(g geom.Geometry) geom.Geometry { return g.Force2D() }},
	{"Dump[0]", func(g geom.Geometry) geom.Geometry {
		d := g.Dump()
		if len(d) == 0 {
			return geom.Geometry{}
		}
		return d[0]
	}},
	{"WKB roundtrip", func(g geom.Geometry) geom.Geometry { h, _ := geom.UnmarshalWKB(g.AsBinary()); return h }},
}

func c10Purity(r *engine.Run) {
	ops := C10Operands()
	snaps := make([]string, len(ops))
	for i, g := range ops {
		snaps[i] = snap(g)
	}
	checkAll := func(where string) {
		for i, g := range ops {
			if s := snap(g); s != snaps[i] {
				r.Violation("C10/purity.operandChanged", "purity", c10Case{Op: where, A: g.AsText()}, "the observable value of a shared operand changed")
				snaps[i] = s
			}
		}
	}
	r.States.Add(int64(len(ops)))
	for i, g := range ops {
		for _, u := range C10Unary {
			r.Transitions.Add(2)
			r.Evaluations.Add(1)
			a := safeStr(func() string { return u.Fn(g) })
			b := safeStr(func() string { return u.Fn(g) })
			if a != b {
				r.Violation("C10/determinism.secondCallDiffers:"+u.Name, "purity", c10Case{Op: u.Name, A: g.AsText()}, a+" vs "+b)
			}
			if s := snap(g); s != snaps[i] {
				r.Violation("C10/purity.operandChanged:"+u.Name, "purity", c10Case{Op: u.Name, A: g.AsText()}, "")
				snaps[i] = s
			}
		}
	}
	checkAll("after unary ops")
	r.Bound(fmt.Sprintf("purity: %d unary ops × %d operands, each twice, operands re-observed", len(C10Unary), len(ops)))
	for i, a := range ops {
		for j, b := range ops {
			for _, o := range C10Binary {
				r.Transitions.Add(2)
				r.Evaluations.Add(1)
				x := safeStr(func() string { return o.Fn(a, b) })
				y := safeStr(func() string { return o.Fn(a, b) })
				if x != y {
					r.Violation("C10/determinism.secondCallDiffers:"+o.Name, "purity", c10Case{Op: o.Name, A: a.AsText(), B: b.AsText()}, x+" vs "+y)
				}
			}
			if snap(a) != snaps[i] || snap(b) != snaps[j] {
				r.Violation("C10/purity.operandChanged:binary", "purity", c10Case{Op: "binary ops", A: a.AsText(), B: b.AsText()}, "")
				snaps[i], snaps[j] = snap(a), snap(b)
			}
		}
	}
	r.Bound(fmt.Sprintf("purity: %d binary ops × all %d² ordered operand pairs, each twice", len(C10Binary), len(ops)))
	// depth-2 chains: results of one operation are fed to every other; both the result and the original are re-observed
	for i, g := range ops {
		for _, f := range geomToGeom {
			var h geom.Geometry
			if p := engine.SafeCall(func() { h = f.fn(g) }); p != nil {
				continue
			}
			hs := snap(h)
			for _, u := range C10Unary {
				r.Transitions.Add(1)
				safeStr(func() string { return u.Fn(h) })
				if snap(h) != hs {
					r.Violation("C10/purity.intermediateChanged:"+f.name+"→"+u.Name, "purity", c10Case{Op: f.name + " then " + u.Name, A: g.AsText()}, "the result of the first operation changed when the second was applied to it")
					hs = snap(h)
				}
				if snap(g) != snaps[i] {
					r.Violation("C10/purity.operandChangedViaResult:"+f.name+"→"+u.Name, "purity", c10Case{Op: f.name + " then " + u.Name, A: g.AsText()}, "the original changed when an operation was applied to a result derived from it (aliasing)")
					snaps[i] = snap(g)
				}
			}
			for _, o := range C10Binary[:5] {
				safeStr(func() string { return o.Fn(h, g) })
				safeStr(func() string { return o.Fn(g, h) })
			}
			// collections built from results share storage with them: summaries / dumps must not write into it
			gc := geom.NewGeometryCollection([]geom.Geometry{h, g, h}).AsGeometry()
			for _, u := range C10Unary {
				safeStr(func() string { return u.Fn(gc) })
			}
			if snap(h) != hs || snap(g) != snaps[i] {
				r.Violation("C10/purity.changedViaCollection:"+f.name, "purity", c10Case{Op: f.name + " then collection ops", A: g.AsText()}, "")
				snaps[i] = snap(g)
			}
			r.Nontrivial(f.name + "|" + g.AsText())
		}
	}
	checkAll("after chains")
	r.Bound(fmt.Sprintf("purity: depth-2 chains %d first ops × %d second ops × %d operands, plus collections built from results", len(geomToGeom), len(C10Unary), len(ops)))
	// sequences handed in through NewSequence: the caller's slice is retained, never written;
	// sub-slices of one backing array (Sequence.Slice) must not be written through either
	floats := []float64{0, 0, 1, 0, 2, 0, 3, 0, 3, 3, 0, 3, 0, 0}
	keep := append([]float64{}, floats...)
	seq := geom.NewSequence(floats, geom.DimXY)
	views := []geom.Geometry{geom.NewLineString(seq).AsGeometry(), geom.NewLineString(seq.Slice(0, 3)).AsGeometry(), geom.NewLineString(seq.Slice(2, 5)).AsGeometry(),
		geom.NewPolygon([]geom.LineString{geom.NewLineString(seq)}).AsGeometry()}
	vs := make([]string, len(views))
	for i, v := range views {
		vs[i] = snap(v)
	}
	for vi, v := range views {
		for _, u := range C10Unary {
			safeStr(func() string { return u.Fn(v) })
		}
		for _, w := range views {
			gc := geom.NewGeometryCollection([]geom.Geometry{v, w}).AsGeometry()
			for _, u := range C10Unary {
				safeStr(func() string { return u.Fn(gc) })
			}
			for _, o := range C10Binary {
				safeStr(func() string { return o.Fn(v, w) })
			}
		}
		for i := range floats {
			if floats[i] != keep[i] {
				r.Violation("C10/purity.callerSliceWritten", "purity", c10Case{Op: "ops on a NewSequence view", A: v.AsText()}, fmt.Sprint(floats))
				copy(floats, keep)
			}
		}
		for i, w := range views {
			if snap(w) != vs[i] {
				r.Violation("C10/purity.overlappingViewChanged", "purity", c10Case{Op: "ops on a Sequence.Slice view", A: views[vi].AsText(), B: w.AsText()}, snap(w))
				vs[i] = snap(w)
			}
		}
	}
	r.Bound("purity: geometries sharing one backing array through NewSequence / Sequence.Slice: every op on every view and pair, array and sibling views re-observed")
	// member slices handed to the constructors: the geometry is a value of its own, so writing to the
	// caller's slice afterwards (re-using a buffer for the next geometry) must not show through
	{
		p1, p2, pz := geom.NewPointXY(1, 1), geom.NewPointXY(2, 2), geom.NewPointXYZ(3, 3, 3)
		l1, l2 := geom.NewLineStringXY(0, 0, 1, 1), geom.NewLineStringXY(5, 5, 6, 6)
		lz := geom.NewLineStringXYZ(0, 0, 1, 1, 1, 2)
		r1, r2 := geom.NewLineStringXY(0, 0, 4, 0, 4, 4, 0, 0), geom.NewLineStringXY(10, 0, 14, 0, 14, 4, 10, 0)
		g1, g2 := geom.NewPolygon([]geom.LineString{r1}), geom.NewPolygon([]geom.LineString{r2})
		type ctor struct {
			name  string
			build func() (geom.Geometry, func())
		}
		ctors := []ctor{
			{"NewMultiPoint", func() (geom.Geometry, func()) {
				s := []geom.Point{p1, p2}
				return geom.NewMultiPoint(s).AsGeometry(), func() { s[0], s[1] = p2, geom.Point{} }
			}},
			{"NewMultiPoint(mixed types)", func() (geom.Geometry, func()) {
				s := []geom.Point{p1, pz}
				return geom.NewMultiPoint(s).AsGeometry(), func() { s[0] = pz }
			}},
			{"NewMultiLineString", func() (geom.Geometry, func()) {
				s := []geom.LineString{l1, l2}
				return geom.NewMultiLineString(s).AsGeometry(), func() { s[0] = l2 }
			}},
			{"NewMultiLineString(mixed types)", func() (geom.Geometry, func()) {
				s := []geom.LineString{l1, lz}
				return geom.NewMultiLineString(s).AsGeometry(), func() { s[1] = l1 }
			}},
			{"NewPolygon", func() (geom.Geometry, func()) {
				s := []geom.LineString{r1}
				return geom.NewPolygon(s).AsGeometry(), func() { s[0] = r2 }
			}},
			{"NewMultiPolygon", func() (geom.Geometry, func()) {
				s := []geom.Polygon{g1, g2}
				return geom.NewMultiPolygon(s).AsGeometry(), func() { s[0] = g2 }
			}},
			{"NewGeometryCollection", func() (geom.Geometry, func()) {
				s := []geom.Geometry{p1.AsGeometry(), l1.AsGeometry()}
				return geom.NewGeometryCollection(s).AsGeometry(), func() { s[0] = l2.AsGeometry() }
			}},
			{"NewGeometryCollection(mixed types)", func() (geom.Geometry, func()) {
				s := []geom.Geometry{pz.AsGeometry(), l1.AsGeometry()}
				return geom.NewGeometryCollection(s).AsGeometry(), func() { s[1] = lz.AsGeometry() }
			}},
		}
		for _, c := range ctors {
			g, scribble := c.build()
			before := snap(g)
			scribble()
			r.Transitions.Add(1)
			r.Evaluations.Add(1)
			if snap(g) != before {
				r.Violation("C10/purity.constructorAliasesCallerSlice:"+c.name, "purity", c10Case{Op: c.name, A: before}, "the geometry changed when the caller wrote to the slice it had passed to the constructor: "+snap(g))
			}
		}
		r.Bound(fmt.Sprintf("purity: %d constructors from member slices (uniform and mixed coordinate types), caller's slice overwritten afterwards", len(ctors)))
	}
	// R-trees
	trees, boxes := C10Trees()
	for k, t := range trees {
		before := fmt.Sprint(t.VerifCheck(), t.Count())
		ref := map[string]string{}
		for _, q := range append([]rtree.Box{{MinX: -1e9, MinY: -1e9, MaxX: 1e9, MaxY: 1e9}, {MinX: 0, MinY: 0, MaxX: 2, MaxY: 2}}, boxes[k]...) {
			for _, o := range C10Tree {
				key := fmt.Sprint(o.Name, q)
				a, b := o.Fn(t, q), o.Fn(t, q)
				r.Transitions.Add(2)
				r.Evaluations.Add(1)
				if a != b {
					r.Violation("C10/determinism.secondCallDiffers:"+o.Name, "purity", c10Case{Op: o.Name, A: fmt.Sprint("tree ", k, " query ", q)}, a+" vs "+b)
				}
				ref[key] = a
			}
		}
		// a search is a read: one issued from inside another search's callback on the same tree must
		// not disturb the outer one (the sequential face of "shared trees can be searched concurrently")
		for _, q := range boxes[k] {
			var plain, nested []int
			_ = t.PrioritySearch(q, func(id int) error { plain = append(plain, id); return nil })
			_ = t.PrioritySearch(q, func(id int) error {
				nested = append(nested, id)
				if len(nested) > 4*t.Count()+16 {
					return fmt.Errorf("runaway search") // a disturbed heap must not be allowed to loop forever
				}
				far := rtree.Box{MinX: q.MaxX + 50, MinY: q.MaxY - 70, MaxX: q.MaxX + 51, MaxY: q.MaxY - 69}
				t.Nearest(far)
				_ = t.RangeSearch(far, func(int) error { return nil })
				return nil
			})
			r.Transitions.Add(2)
			r.Evaluations.Add(1)
			if fmt.Sprint(plain) != fmt.Sprint(nested) {
				r.Violation("C10/purity.nestedSearchDisturbsOuter", "purity", c10Case{Op: "PrioritySearch with searches from its callback", A: fmt.Sprint("tree ", k, " query ", q)}, fmt.Sprint(nested, " vs ", plain))
				break
			}
		}
		if fmt.Sprint(t.VerifCheck(), t.Count()) != before {
			r.Violation("C10/purity.treeChanged", "purity", c10Case{Op: "searches", A: fmt.Sprint("tree ", k)}, "")
		}
	}
	r.Bound(fmt.Sprintf("purity: %d trees × every item box as query × 4 search ops, each twice, structure re-observed through the verif hook", len(trees)))
	// construction is an operation too: loading the same items again (with loads of other sizes in
	// between, so that any state surviving a load is in a different phase) gives a tree with the same
	// observable value, i.e. the same visit sequence for every search
	visitAll := func(t *rtree.RTree) string {
		var ids []int
		big := rtree.Box{MinX: -1e300, MinY: -1e300, MaxX: 1e300, MaxY: 1e300}
		_ = t.RangeSearch(big, func(id int) error { ids = append(ids, id); return nil })
		ids = append(ids, -1)
		_ = t.PrioritySearch(rtree.Box{}, func(id int) error { ids = append(ids, id); return nil })
		return fmt.Sprint(ids)
	}
	loads := 0
	for fam := range c11Families {
		for _, n := range []int{1, 4, 5, 6, 9, 16, 17, 23, 64, 100} {
			boxes := c11Families[fam].gen(n)
			mk := func() *rtree.RTree {
				items := make([]rtree.BulkItem, len(boxes))
				for i, b := range boxes {
					items[i] = rtree.BulkItem{Box: b, RecordID: i}
				}
				return rtree.BulkLoad(items)
			}
			first := visitAll(mk())
			for rep := 0; rep < 3; rep++ {
				other := make([]rtree.BulkItem, 5+rep*7)
				for i := range other {
					other[i] = rtree.BulkItem{Box: rtree.Box{MinX: float64(i * 3 % 7), MinY: float64(i), MaxX: float64(i*3%7 + 1), MaxY: float64(i + 2)}, RecordID: i}
				}
				rtree.BulkLoad(other)
				loads++
				r.Transitions.Add(2)
				r.Evaluations.Add(1)
				if again := visitAll(mk()); again != first {
					r.Violation("C10/determinism.bulkLoadAgainDiffers", "purity", c10Case{Op: "BulkLoad", A: fmt.Sprintf("family %d, %d items, repetition %d", fam, n, rep)}, "the same items loaded again give a tree whose searches visit in a different order")
					break
				}
			}
		}
	}
	r.Bound(fmt.Sprintf("determinism of construction: %d layout families × 10 sizes loaded again 3 times with other loads in between (%d comparisons of complete visit sequences)", len(c11Families), loads))
	// the same for geometries: an operand decoded again from its own WKB is the same value, so every
	// unary operation gives the same answer on the copy after unrelated work (state surviving between calls)
	for _, g := range ops {
		cp, err := geom.UnmarshalWKB(g.AsBinary(), geom.NoValidate{})
		if err != nil {
			continue
		}
		for _, u := range C10Unary {
			a := safeStr(func() string { return u.Fn(g) })
			safeStr(func() string { return C10Unary[0].Fn(ops[len(ops)/2]) })
			b := safeStr(func() string { return u.Fn(cp) })
			r.Transitions.Add(2)
			r.Evaluations.Add(1)
			if a != b {
				r.Violation("C10/determinism.copyDiffers:"+u.Name, "purity", c10Case{Op: u.Name, A: g.AsText()}, a+" vs "+b)
			}
		}
	}
	// decoding is an operation whose argument is a buffer: decoding the same buffer again gives the
	// same value, and the buffer is what it was (both byte orders for WKB, every element big endian
	// or only some)
	decodes := 0
	for _, g := range ops {
		node := refcodec.Describe(g)
		ne := node.NumElements()
		var orderSets [][]bool
		all := make([]bool, ne)
		alt := make([]bool, ne)
		for i := range all {
			all[i], alt[i] = true, i%2 == 1
		}
		orderSets = append(orderSets, nil, all, alt)
		type buf struct {
			name string
			b    []byte
			dec  func([]byte) string
		}
		var bufs []buf
		wkbDec := func(b []byte) string {
			x, err := geom.UnmarshalWKB(b, geom.NoValidate{})
			return fmt.Sprint(snap(x), err)
		}
		for _, o := range orderSets {
			b, _ := refcodec.WKB(node, o)
			bufs = append(bufs, buf{"UnmarshalWKB", b, wkbDec})
			bufs = append(bufs, buf{"Geometry.Scan", append([]byte{}, b...), func(b []byte) string {
				var x geom.Geometry
				err := x.Scan(b)
				return fmt.Sprint(snap(x), err)
			}})
		}
		if tw, err := geom.MarshalTWKB(g, 0); err == nil {
			bufs = append(bufs, buf{"UnmarshalTWKB", tw, func(b []byte) string {
				x, err := geom.UnmarshalTWKB(b, geom.NoValidate{})
				return fmt.Sprint(snap(x), err)
			}})
		}
		if js, err := g.MarshalJSON(); err == nil {
			bufs = append(bufs, buf{"UnmarshalJSON", js, func(b []byte) string {
				var x geom.Geometry
				err := x.UnmarshalJSON(b)
				return fmt.Sprint(snap(x), err)
			}})
		}
		for _, bf := range bufs {
			keep := append([]byte{}, bf.b...)
			a := safeStr(func() string { return bf.dec(bf.b) })
			b := safeStr(func() string { return bf.dec(bf.b) })
			decodes++
			r.Transitions.Add(2)
			r.Evaluations.Add(1)
			if a != b {
				r.Violation("C10/determinism.secondDecodeDiffers:"+bf.name, "purity", c10Case{Op: bf.name, A: g.AsText()}, a+" vs "+b)
			}
			if string(keep) != string(bf.b) {
				r.Violation("C10/purity.inputBufferWritten:"+bf.name, "purity", c10Case{Op: bf.name, A: g.AsText()}, "the caller's buffer was modified by decoding it")
			}
		}
	}
	r.Bound(fmt.Sprintf("determinism of decoding: %d buffers (WKB little / big / mixed endian, through UnmarshalWKB and Scan; TWKB; GeoJSON) decoded twice, buffer re-observed", decodes))
	r.Bound(fmt.Sprintf("determinism across copies: %d unary ops on each operand and on its WKB round-trip copy with unrelated work in between", len(C10Unary)))
	r.Sample("purity", c10Case{Op: "Densify then Summary", A: ops[5].AsText()})
}

// ---- 3. schedules: static no-synchronisation pass + free-running race detector -----------

var syncImport = regexp.MustCompile(`^"(sync|sync/atomic)"$`)

func c10Static(r *engine.Run) bool {
	ok := true
	for _, pkg := range []string{"geom", "rtree", "carto"} {
		fset := token.NewFileSet()
		files, _ := filepath.Glob(filepath.Join(engine.Repo, pkg, "*.go"))
		pkgVars := map[string]bool{}
		var parsed []*ast.File
		for _, f := range files {
			if strings.HasSuffix(f, "_test.go") {
				continue
			}
			af, err := parser.ParseFile(fset, f, nil, 0)
			if err != nil {
				r.EngineError("static pass cannot parse " + f + ": " + err.Error())
				return false
			}
			parsed = append(parsed, af)
			for _, d := range af.Decls {
				if gd, isGen := d.(*ast.GenDecl); isGen && gd.Tok == token.VAR {
					for _, sp := range gd.Specs {
						for _, n := range sp.(*ast.ValueSpec).Names {
							pkgVars[n.Name] = true
						}
					}
				}
			}
		}
		for _, af := range parsed {
			name := fset.Position(af.Pos()).Filename
			for _, im := range af.Imports {
				if syncImport.MatchString(im.Path.Value) {
					r.Violation("C10/static.syncImport", "static", map[string]string{"file": name, "import": im.Path.Value}, "the schedule argument (no synchronisation ⇒ one equivalence class of interleavings) no longer applies")
					ok = false
				}
			}
			for _, d := range af.Decls {
				fd, isFn := d.(*ast.FuncDecl)
				if !isFn || fd.Body == nil {
					continue
				}
				inInit := fd.Name.Name == "init" && fd.Recv == nil
				ast.Inspect(fd.Body, func(n ast.Node) bool {
					flag := func(what string) {
						r.Violation("C10/static."+what, "static", map[string]string{"file": name, "func": fd.Name.Name, "pos": fset.Position(n.Pos()).String()}, "concurrency primitive or shared mutable state in library code")
						ok = false
					}
					switch x := n.(type) {
					case *ast.GoStmt:
						flag("goStatement")
					case *ast.SendStmt, *ast.SelectStmt:
						flag("channelOperation")
					case *ast.ChanType:
						flag("channelType")
					case *ast.UnaryExpr:
						if x.Op == token.ARROW {
							flag("channelOperation")
						}
					case *ast.AssignStmt:
						for _, l := range x.Lhs {
							if id, isID := l.(*ast.Ident); isID && pkgVars[id.Name] && (id.Obj == nil || id.Obj.Kind == ast.Var && isPkgLevel(id.Obj)) && !inInit && x.Tok != token.DEFINE {
								flag("packageVariableAssignment")
							}
						}
					case *ast.IncDecStmt:
						if id, isID := x.X.(*ast.Ident); isID && pkgVars[id.Name] && (id.Obj == nil || isPkgLevel(id.Obj)) && !inInit {
							flag("packageVariableAssignment")
						}
					}
					return true
				})
			}
		}
	}
	return ok
}

func isPkgLevel(o *ast.Object) bool {
	_, isSpec := o.Decl.(*ast.ValueSpec)
	return isSpec
}

func c10Race(r *engine.Run) {
	bin := filepath.Join(engine.Out, "bin", "verifrace")
	if _, err := os.Stat(bin); err != nil {
		r.EngineError("race binary missing (run.sh builds it with go build -race): " + err.Error())
		return
	}
	cmd := exec.Command(bin)
	cmd.Env = append(os.Environ(), "GORACE=halt_on_error=1 exitcode=66")
	out, err := cmd.CombinedOutput()
	s := string(out)
	r.Extra["race_run_output_tail"] = tail(s, 300)
	if strings.Contains(s, "WARNING: DATA RACE") {
		// first two frames of the report identify the accesses
		r.Violation("C10/race", "race", map[string]string{"report": tail(s[:min(len(s), 4000)], 4000)}, "data race between goroutines sharing operands (free-running race detector)")
		return
	}
	if err != nil || !strings.Contains(s, "RACE-OK") {
		r.EngineError("race binary failed: " + fmt.Sprint(err) + " " + tail(s, 500))
		return
	}
	var calls int64
	fmt.Sscanf(s[strings.Index(s, "calls=")+6:], "%d", &calls)
	r.Transitions.Add(calls)
	r.Evaluations.Add(3)
	r.Extra["schedules_per_harness"] = 1
	r.Extra["race_detector_calls"] = calls
	r.Bound("schedules: static pass found no go statement, channel, sync/atomic import or package-variable write outside init in geom, rtree, carto ⇒ threads have no synchronisation edges and every interleaving is equivalent to the sequential runs; the same op bodies ran free under the race detector with 2, 4 and 16 goroutines on shared operands and trees without a report")
}

func tail(s string, n int) string {
	if len(s) > n {
		return s[len(s)-n:]
	}
	return s
}

func min(a, b int) int {
	if a < b {
		return a
	}
	return b
}

func c10Main(r *engine.Run) {
	r.Rule = "Ω = 32 unary ops × 27 operands (every degeneracy class: empties, repeated points, self-touching lines, holes, overlapping collection members, Z/M), 17 binary ops × all ordered pairs, 4 search ops × 6 bulk-loaded trees: (1) purity — operands and intermediate results re-observed (WKB + accessor walk) after every call and every depth-2 chain, shared backing arrays re-observed, second call bit-identical; (2) determinism — every map iteration of the overlay is a choice point of an explorer that enumerates orders up to a deviation bound (see map_order_* keys); (3) schedules — static no-synchronisation pass plus the free-running race detector on the same bodies. non-trivial = (first op, operand) chains and (op, pair) explored under map-order deviations"
	c10Purity(r)
	c10MapOrder(r)
	if c10Static(r) {
		c10Race(r)
	}
}

func c10Replay(r *engine.Run, sub string, raw json.RawMessage) error {
	return fmt.Errorf("C10 cases are (op, operands, schedule) descriptions; re-run ./run.sh C10 quick (deterministic) to reproduce")
}

func init() {
	engine.Register(&engine.Check{ID: "C10", Main: c10Main, Replay: c10Replay})
}

package checks

import (
	"fmt"
	"math"

	"github.com/peterstace/simplefeatures/geom"
	"verif/engine"
	"verif/universe"
)

func envOfLattice(t universe.Affine, rings ...[]universe.LPt) refEnv {
	e := refEnv{Empty: true}
	for _, r := range rings {
		for _, p := range r {
			x, y := t.Apply(p)
			e = e.addXY(x, y)
		}
	}
	return e
}

var c12Transforms = []universe.Affine{
	universe.Identity,
	{A: 1, D: 1, TX: -5, TY: 7, Name: "translate(-5,7)"},
	{A: 128, D: 128, TX: 1000, TY: -1000, Name: "scale128+translate"},
	{A: -1, D: 1, Name: "reflectX"},
	{A: 0, B: -1, C: 1, D: 0, Name: "rot90"},
	{A: 0.9553364891256060, B: -0.2955202066613396, C: 0.2955202066613396, D: 0.9553364891256060, TX: 1e6, TY: 1e-3, Name: "rot0.3rad+1e6"},
}

func c12Union(r *engine.Run, a, b geom.Geometry) {
	r.Evaluations.Add(1)
	r.Transitions.Add(1)
	c := map[string]string{"a": a.AsText(), "b": b.AsText()}
	u, err := geom.Union(a, b)
	if err != nil {
		r.Violation("C12/union.error", "union", c, err.Error())
		return
	}
	want := a.Envelope().ExpandToIncludeEnvelope(b.Envelope())
	got := u.Envelope()
	if want.IsEmpty() != got.IsEmpty() {
		r.Violation("C12/union.envelope", "union", c, got.String())
		return
	}
	if want.IsEmpty() {
		return
	}
	wmn, wmx, _ := want.MinMaxXYs()
	gmn, gmx, _ := got.MinMaxXYs()
	mag := math.Max(math.Max(math.Abs(wmx.X), math.Abs(wmn.X)), math.Max(math.Abs(wmx.Y), math.Abs(wmn.Y)))
	tol := 1e-9 * mag
	if math.Abs(wmn.X-gmn.X) > tol || math.Abs(wmn.Y-gmn.Y) > tol || math.Abs(wmx.X-gmx.X) > tol || math.Abs(wmx.Y-gmx.Y) > tol {
		r.Violation("C12/union.envelope", "union", c, got.String())
	}
	if !want.Intersects(got) {
		return
	}
	r.Nontrivial("union " + c["a"] + "|" + c["b"])
}

func c12Lattice(r *engine.Run) {
	polys := universe.SimplePolygons(3, 9)
	paths := universe.Paths(3, 3)
	r.States.Add(int64(len(polys) + len(paths)))
	n := len(polys) + len(paths)
	done := r.Parallel(n, func(i int) {
		for _, t := range c12Transforms {
			var g geom.Geometry
			var want refEnv
			if i < len(polys) {
				g = t.Polygon(polys[i]).AsGeometry()
				want = envOfLattice(t, polys[i])
			} else {
				p := paths[i-len(polys)]
				g = t.Line(p).AsGeometry()
				want = envOfLattice(t, p)
			}
			c := c12GeomCase{Shape: "lattice", Sup: t.Name, WKT: g.AsText()}
			c12Geom(r, g, want, c)
			// tightness: each side is touched by a control point (follows from
			// equality with min/max, asserted here through the library's own
			// Contains/Covers so those are exercised on real geometry envelopes)
			env := g.Envelope()
			dc := g.DumpCoordinates()
			var touch [4]bool
			mn, mx, _ := env.MinMaxXYs()
			for k := 0; k < dc.Length(); k++ {
				xy := dc.GetXY(k)
				if !env.Contains(xy) {
					r.Violation("C12/geom.Envelope.containsControlPoint", "lattice", c, fmt.Sprint(xy))
				}
				touch[0] = touch[0] || xy.X == mn.X
				touch[1] = touch[1] || xy.X == mx.X
				touch[2] = touch[2] || xy.Y == mn.Y
				touch[3] = touch[3] || xy.Y == mx.Y
			}
			if touch != [4]bool{true, true, true, true} {
				r.Violation("C12/geom.Envelope.tight", "lattice", c, fmt.Sprint(touch))
			}
		}
	})
	if done {
		r.Bound(fmt.Sprintf("lattice geometry envelopes: all %d simple polygons and %d paths (≤3 vertices) on 3×3 × %d affine maps", len(polys), len(paths), len(c12Transforms)))
	}
	// every vertex sequence of 4 (thorough: 5) lattice points as a LineString, closed or not, with
	// repeats: the envelope and its invariance under Reverse / ForceCoordinatesType (whose added Z/M
	// are zeros, i.e. equal to some of the X/Y values) must not depend on how the sequence ends
	{
		pts := universe.LatticePoints(3)
		maxN := 4
		if r.Thorough() {
			maxN = 5
		}
		var seqs [][]universe.LPt
		for n := 4; n <= maxN; n++ {
			allSeqs(pts, n, func(sq []universe.LPt) {
				distinct := false
				for _, p := range sq {
					distinct = distinct || p != sq[0]
				}
				if distinct {
					seqs = append(seqs, append([]universe.LPt{}, sq...))
				}
			})
		}
		id := universe.Identity
		r.States.Add(int64(len(seqs)))
		if r.Parallel(len(seqs), func(i int) {
			g := id.Line(seqs[i]).AsGeometry()
			c12Geom(r, g, envOfLattice(id, seqs[i]), c12GeomCase{Shape: "vertex sequence", Sup: "identity", WKT: g.AsText()})
		}) {
			r.Bound(fmt.Sprintf("every vertex sequence of 4..%d points of 3×3 as a LineString (%d): envelope and its invariants", maxN, len(seqs)))
		}
	}
	// longer sequences, one extreme at a time: for every length 5..13 (every remainder of any
	// unrolled or blocked scan), every position p and each of the four directions, a zig-zag whose
	// p-th point alone sets that side of the envelope — as LineString in 4 coordinate types, and
	// closed into a polygon shell
	{
		n := 0
		for length := 5; length <= 13; length++ {
			for p := 0; p < length; p++ {
				for dir := 0; dir < 4; dir++ {
					fl := make([][2]float64, length)
					for k := range fl {
						fl[k] = [2]float64{float64(k), float64(k % 2)}
					}
					switch dir {
					case 0:
						fl[p][0] = 100
					case 1:
						fl[p][0] = -100
					case 2:
						fl[p][1] = 100
					default:
						fl[p][1] = -100
					}
					want := refEnv{Empty: true}
					for _, q := range fl {
						want = want.addXY(q[0], q[1])
					}
					for _, ct := range allCT {
						var seq []float64
						for k, q := range fl {
							seq = append(seq, q[0], q[1])
							if ct.Is3D() {
								seq = append(seq, q[1]) // Z repeats Y, M repeats X: payload equal to an ordinate must not confuse the scan
							}
							if ct.IsMeasured() {
								seq = append(seq, q[0]+float64(k))
							}
						}
						g := geom.NewLineString(geom.NewSequence(seq, ct)).AsGeometry()
						n++
						c12Geom(r, g, want, c12GeomCase{Shape: fmt.Sprintf("zig-zag of %d points, point %d extreme in direction %d", length, p, dir), Sup: ct.String(), WKT: g.AsText()})
					}
				}
			}
		}
		r.States.Add(int64(n))
		r.Bound(fmt.Sprintf("sequences of 5..13 points with a single extreme at every position in each direction × 4 coordinate types (%d lines)", n))
	}
	// Union envelopes: all ordered pairs over {points, segments, polygons with ≤4 vertices (thorough: ≤5)}
	var ops []geom.Geometry
	id := universe.Identity
	for _, p := range universe.LatticePoints(3) {
		ops = append(ops, id.Point(p).AsGeometry())
	}
	for _, p := range universe.Paths(3, 2) {
		if p[0].X < p[1].X || (p[0].X == p[1].X && p[0].Y < p[1].Y) {
			ops = append(ops, id.Line(p).AsGeometry())
		}
	}
	maxV := 4
	if r.Thorough() {
		maxV = 5
	}
	for _, p := range polys {
		if len(p)-1 <= maxV {
			ops = append(ops, id.Polygon(p).AsGeometry())
		}
	}
	ops = append(ops, geom.Geometry{}, geom.Polygon{}.AsGeometry(),
		geom.NewMultiPoint([]geom.Point{geom.NewPointXY(1, 2), {}, geom.NewPointXY(2, 1)}).AsGeometry(),
		geom.NewMultiPoint([]geom.Point{{}, geom.NewPointXY(2, 2)}).AsGeometry(),
		geom.NewGeometryCollection([]geom.Geometry{geom.NewMultiPoint([]geom.Point{geom.NewPointXY(1, 1), {}}).AsGeometry(), geom.NewLineStringXY(1, 2, 2, 2).AsGeometry()}).AsGeometry(),
		geom.NewMultiLineString([]geom.LineString{{}, geom.NewLineStringXY(1, 0, 2, 1)}).AsGeometry(),
		geom.NewMultiPolygon([]geom.Polygon{{}, geom.NewPolygonXY([]float64{1, 1, 2, 1, 2, 2, 1, 1})}).AsGeometry())
	m := len(ops)
	done = r.Parallel(m*m, func(k int) {
		c12Union(r, ops[k/m], ops[k%m])
	})
	if done {
		r.Bound(fmt.Sprintf("Union envelope = join: all %d² ordered pairs of 3×3 points, segments, polygons with ≤%d vertices, empties", m, maxV))
	}
	r.Sample("union", map[string]string{"a": ops[50].AsText(), "b": ops[m-10].AsText()})
}

package checks

import (
	"encoding/json"
	"fmt"
	"math"
	"math/big"

	"github.com/peterstace/simplefeatures/geom"
	"verif/engine"
	"verif/universe"
)

// ---- reference model: closed-interval arithmetic on (x0,x1,y0,y1) ∪ ⊥ ------

type refEnv struct {
	Empty          bool
	X0, Y0, X1, Y1 float64
}

func (e refEnv) lib() geom.Envelope {
	if e.Empty {
		return geom.Envelope{}
	}
	return geom.NewEnvelope(geom.XY{X: e.X0, Y: e.Y0}, geom.XY{X: e.X1, Y: e.Y1})
}

func (e refEnv) join(o refEnv) refEnv {
	if e.Empty {
		return o
	}
	if o.Empty {
		return e
	}
	return refEnv{false, math.Min(e.X0, o.X0), math.Min(e.Y0, o.Y0), math.Max(e.X1, o.X1), math.Max(e.Y1, o.Y1)}
}

func (e refEnv) addXY(x, y float64) refEnv {
	return e.join(refEnv{false, x, y, x, y})
}

func (e refEnv) intersects(o refEnv) bool {
	return !e.Empty && !o.Empty && e.X0 <= o.X1 && o.X0 <= e.X1 && e.Y0 <= o.Y1 && o.Y0 <= e.Y1
}

func (e refEnv) covers(o refEnv) bool {
	return !e.Empty && !o.Empty && e.X0 <= o.X0 && o.X1 <= e.X1 && e.Y0 <= o.Y0 && o.Y1 <= e.Y1
}

func (e refEnv) contains(x, y float64) bool {
	fin := func(f float64) bool { return !math.IsNaN(f) && !math.IsInf(f, 0) }
	return !e.Empty && fin(x) && fin(y) && e.X0 <= x && x <= e.X1 && e.Y0 <= y && y <= e.Y1
}

func gap(a0, a1, b0, b1 float64) float64 { // distance between intervals
	if b0 > a1 {
		return b0 - a1
	}
	if a0 > b1 {
		return a0 - b1
	}
	return 0
}

func (e refEnv) dist(o refEnv) (float64, bool) {
	if e.Empty || o.Empty {
		return 0, false
	}
	return math.Hypot(gap(e.X0, e.X1, o.X0, o.X1), gap(e.Y0, e.Y1, o.Y0, o.Y1)), true
}

// sameEnv compares a library envelope with the reference, exactly.
func sameEnv(l geom.Envelope, r refEnv) bool {
	mn, mx, ok := l.MinMaxXYs()
	if r.Empty {
		return !ok && l.IsEmpty()
	}
	return ok && !l.IsEmpty() && mn.X == r.X0 && mn.Y == r.Y0 && mx.X == r.X1 && mx.Y == r.Y1
}

func envStr(l geom.Envelope) string { return l.String() }

type c12EnvCase struct {
	Envs []refEnv  `json:"envs"`
	XY   []float64 `json:"xy,omitempty"`
}

func latticeEnvs(n int) []refEnv {
	out := []refEnv{{Empty: true}}
	for x0 := 0; x0 < n; x0++ {
		for x1 := x0; x1 < n; x1++ {
			for y0 := 0; y0 < n; y0++ {
				for y1 := y0; y1 < n; y1++ {
					out = append(out, refEnv{false, float64(x0), float64(y0), float64(x1), float64(y1)})
				}
			}
		}
	}
	return out
}

// c12Points: NewEnvelope over a point list is the box of the points, whatever their order.
func c12Points(r *engine.Run, pts []geom.XY) {
	ref := refEnv{Empty: true}
	fold := geom.Envelope{}
	var flat []float64
	for i, p := range pts {
		flat = append(flat, p.X, p.Y)
		if i == 0 {
			ref = refEnv{false, p.X, p.Y, p.X, p.Y}
		} else {
			ref.X0, ref.Y0, ref.X1, ref.Y1 = math.Min(ref.X0, p.X), math.Min(ref.Y0, p.Y), math.Max(ref.X1, p.X), math.Max(ref.Y1, p.Y)
		}
		fold = fold.ExpandToIncludeXY(p)
	}
	r.Transitions.Add(2)
	r.Evaluations.Add(1)
	c := c12EnvCase{XY: flat}
	if l := geom.NewEnvelope(pts...); !sameEnv(l, ref) {
		r.Violation("C12/env.NewEnvelope.points", "envpts", c, envStr(l))
	}
	if !sameEnv(fold, ref) {
		r.Violation("C12/env.ExpandToIncludeXY.fold", "envpts", c, envStr(fold))
	}
}

func c12Unary(r *engine.Run, e refEnv) {
	c := c12EnvCase{Envs: []refEnv{e}}
	bad := func(m, d string) { r.Violation("C12/env."+m, "env1", c, d) }
	l := e.lib()
	r.Transitions.Add(18)
	r.Evaluations.Add(1)
	if !sameEnv(l, e) {
		bad("NewEnvelope", envStr(l))
	}
	if l.IsEmpty() != e.Empty {
		bad("IsEmpty", "")
	}
	isPt := !e.Empty && e.X0 == e.X1 && e.Y0 == e.Y1
	isLn := !e.Empty && (e.X0 == e.X1) != (e.Y0 == e.Y1)
	isRc := !e.Empty && e.X0 != e.X1 && e.Y0 != e.Y1
	if l.IsPoint() != isPt || l.IsLine() != isLn || l.IsRectangle() != isRc {
		bad("classification", fmt.Sprint(l.IsPoint(), l.IsLine(), l.IsRectangle()))
	}
	w, h, a := 0.0, 0.0, 0.0
	if !e.Empty {
		w, h = e.X1-e.X0, e.Y1-e.Y0
		a = w * h
	}
	if l.Width() != w || l.Height() != h || l.Area() != a {
		bad("WidthHeightArea", fmt.Sprint(l.Width(), l.Height(), l.Area()))
	}
	if l.Validate() != nil {
		bad("Validate", "finite envelope rejected")
	}
	// Min / Max / Center
	chkPt := func(name string, p geom.Point, x, y float64) {
		xy, ok := p.XY()
		if e.Empty {
			if ok || !p.IsEmpty() {
				bad(name, "non-empty point for empty envelope")
			}
			return
		}
		if !ok || xy.X != x || xy.Y != y || p.CoordinatesType() != geom.DimXY {
			bad(name, p.AsText())
		}
	}
	chkPt("Min", l.Min(), e.X0, e.Y0)
	chkPt("Max", l.Max(), e.X1, e.Y1)
	chkPt("Center", l.Center(), (e.X0+e.X1)/2, (e.Y0+e.Y1)/2)
	// AsBox
	b, ok := l.AsBox()
	if ok != !e.Empty || (ok && (b.MinX != e.X0 || b.MinY != e.Y0 || b.MaxX != e.X1 || b.MaxY != e.Y1)) {
		bad("AsBox", fmt.Sprint(b, ok))
	}
	// AsGeometry
	g := l.AsGeometry()
	switch {
	case e.Empty:
		if !g.IsEmpty() || !g.IsGeometryCollection() {
			bad("AsGeometry", g.AsText())
		}
	case isPt:
		if !g.IsPoint() || g.AsText() != fmt.Sprintf("POINT(%v %v)", e.X0, e.Y0) {
			bad("AsGeometry", g.AsText())
		}
	case isLn:
		if !g.IsLineString() || g.MustAsLineString().Coordinates().Length() != 2 || g.Length() != w+h {
			bad("AsGeometry", g.AsText())
		}
	default:
		if !g.IsPolygon() || g.Validate() != nil || g.Area() != a || g.MustAsPolygon().NumInteriorRings() != 0 ||
			g.MustAsPolygon().ExteriorRing().Coordinates().Length() != 5 {
			bad("AsGeometry", g.AsText())
		}
	}
	if !sameEnv(g.Envelope(), e) {
		bad("AsGeometry.Envelope", g.AsText())
	}
	// BoundingDiagonal
	d := l.BoundingDiagonal()
	switch {
	case e.Empty:
		if !d.IsEmpty() || !d.IsGeometryCollection() {
			bad("BoundingDiagonal", d.AsText())
		}
	case isPt:
		if !d.IsPoint() || !sameEnv(d.Envelope(), e) {
			bad("BoundingDiagonal", d.AsText())
		}
	default:
		ok := d.IsLineString()
		if ok {
			s := d.MustAsLineString().Coordinates()
			ok = s.Length() == 2 && s.GetXY(0) == (geom.XY{X: e.X0, Y: e.Y0}) && s.GetXY(1) == (geom.XY{X: e.X1, Y: e.Y1})
		}
		if !ok {
			bad("BoundingDiagonal", d.AsText())
		}
	}
	// TransformXY with monotone maps
	type tf struct {
		name string
		f    func(float64, float64) (float64, float64)
	}
	for _, t := range []tf{
		{"translate", func(x, y float64) (float64, float64) { return x + 7, y - 3 }},
		{"scale2", func(x, y float64) (float64, float64) { return 2 * x, 2 * y }},
		{"reflectX", func(x, y float64) (float64, float64) { return -x, y }},
		{"reflectXY", func(x, y float64) (float64, float64) { return -x, -y }},
		{"swap", func(x, y float64) (float64, float64) { return y, x }},
	} {
		got := l.TransformXY(func(p geom.XY) geom.XY { x, y := t.f(p.X, p.Y); return geom.XY{X: x, Y: y} })
		want := refEnv{Empty: true}
		if !e.Empty {
			ax, ay := t.f(e.X0, e.Y0)
			bx, by := t.f(e.X1, e.Y1)
			want = refEnv{false, math.Min(ax, bx), math.Min(ay, by), math.Max(ax, bx), math.Max(ay, by)}
		}
		if !sameEnv(got, want) {
			bad("TransformXY."+t.name, envStr(got))
		}
	}
}

// c12UnaryExtreme: Center is the midpoint (exactly, computed without overflow), for any finite envelope.
func c12UnaryExtreme(r *engine.Run, e refEnv) {
	if e.Empty {
		return
	}
	c := c12EnvCase{Envs: []refEnv{e}}
	l := e.lib()
	r.Transitions.Add(2)
	r.Evaluations.Add(1)
	xy, ok := l.Center().XY()
	mid := func(a, b float64) float64 {
		f, _ := new(big.Float).Quo(new(big.Float).Add(big.NewFloat(a), big.NewFloat(b)), big.NewFloat(2)).Float64()
		return f
	}
	if !ok || xy.X != mid(e.X0, e.X1) || xy.Y != mid(e.Y0, e.Y1) {
		r.Violation("C12/env.Center.extremeMagnitude", "env1", c, fmt.Sprint(xy, ok))
	}
	if !sameEnv(l, e) || l.Validate() != nil {
		r.Violation("C12/env.NewEnvelope.extremeMagnitude", "env1", c, envStr(l))
	}
	// classification by comparison of the bounds (never through a product that may under- or overflow)
	isPt := e.X0 == e.X1 && e.Y0 == e.Y1
	isLn := (e.X0 == e.X1) != (e.Y0 == e.Y1)
	isRc := e.X0 != e.X1 && e.Y0 != e.Y1
	if l.IsEmpty() || l.IsPoint() != isPt || l.IsLine() != isLn || l.IsRectangle() != isRc {
		r.Violation("C12/env.classification.extremeMagnitude", "env1", c, fmt.Sprint(l.IsEmpty(), l.IsPoint(), l.IsLine(), l.IsRectangle()))
	}
	if g := l.AsGeometry(); g.IsPolygon() != isRc || g.IsLineString() != isLn || g.IsPoint() != isPt {
		r.Violation("C12/env.AsGeometry.extremeMagnitude", "env1", c, g.AsText())
	}
	if l.Width() != e.X1-e.X0 || l.Height() != e.Y1-e.Y0 {
		r.Violation("C12/env.WidthHeight.extremeMagnitude", "env1", c, fmt.Sprint(l.Width(), l.Height()))
	}
}

func c12XY(r *engine.Run, e refEnv, x, y float64) {
	c := c12EnvCase{Envs: []refEnv{e}, XY: []float64{x, y}}
	l := e.lib()
	r.Transitions.Add(2)
	r.Evaluations.Add(1)
	if l.Contains(geom.XY{X: x, Y: y}) != e.contains(x, y) {
		r.Violation("C12/env.Contains", "envxy", c, "")
	}
	fin := !math.IsNaN(x) && !math.IsInf(x, 0) && !math.IsNaN(y) && !math.IsInf(y, 0)
	if fin {
		got := l.ExpandToIncludeXY(geom.XY{X: x, Y: y})
		want := e.addXY(x, y)
		if !sameEnv(got, want) {
			r.Violation("C12/env.ExpandToIncludeXY", "envxy", c, envStr(got))
		}
		if !got.Contains(geom.XY{X: x, Y: y}) || (!e.Empty && !got.Covers(l)) {
			r.Violation("C12/env.ExpandToIncludeXY.covers", "envxy", c, envStr(got))
		}
	}
}

func c12Pair(r *engine.Run, a, b refEnv) {
	c := c12EnvCase{Envs: []refEnv{a, b}}
	bad := func(m, d string) { r.Violation("C12/env."+m, "env2", c, d) }
	la, lb := a.lib(), b.lib()
	r.Transitions.Add(4)
	r.Evaluations.Add(1)
	if la.Intersects(lb) != a.intersects(b) {
		bad("Intersects", "")
	}
	if la.Covers(lb) != a.covers(b) {
		bad("Covers", "")
	}
	d, ok := la.Distance(lb)
	wd, wok := a.dist(b)
	if ok != wok || (ok && math.Abs(d-wd) > 4e-16*wd) {
		bad("Distance", fmt.Sprint(d, ok))
	}
	if ok && (d == 0) != a.intersects(b) {
		bad("Distance.zeroIffIntersects", fmt.Sprint(d))
	}
	j := la.ExpandToIncludeEnvelope(lb)
	if !sameEnv(j, a.join(b)) {
		bad("ExpandToIncludeEnvelope", envStr(j))
	}
	if a.intersects(b) && !b.covers(a) && !a.covers(b) {
		r.Nontrivial(fmt.Sprint("pair", a, b))
	}
}

func c12Triple(r *engine.Run, la, lb, lc geom.Envelope, a, b, cc refEnv) {
	bad := func(m string) { r.Violation("C12/envlaw."+m, "env3", c12EnvCase{Envs: []refEnv{a, b, cc}}, "") }
	r.Transitions.Add(6)
	r.Evaluations.Add(1)
	ab := la.ExpandToIncludeEnvelope(lb)
	bc := lb.ExpandToIncludeEnvelope(lc)
	if ab.ExpandToIncludeEnvelope(lc) != la.ExpandToIncludeEnvelope(bc) {
		bad("joinAssociative")
	}
	// Covers is the order of the join: a covers c  <=>  join(a,c) == a (non-empty c)
	if !cc.Empty && !a.Empty && la.Covers(lc) != (la.ExpandToIncludeEnvelope(lc) == la) {
		bad("coversIsJoinOrder")
	}
	// transitivity of Covers
	if la.Covers(lb) && lb.Covers(lc) && !la.Covers(lc) {
		bad("coversTransitive")
	}
	// monotonicity: a covers b, b intersects c => a intersects c
	if la.Covers(lb) && lb.Intersects(lc) && !la.Intersects(lc) {
		bad("intersectsMonotone")
	}
	// distance monotone under covering
	if la.Covers(lb) {
		d1, ok1 := la.Distance(lc)
		d2, ok2 := lb.Distance(lc)
		if ok1 && ok2 && d1 > d2 {
			bad("distanceMonotone")
		}
	}
}

// ---- geometry envelopes ------------------------------------------------------

type recSup struct {
	inner universe.Supplier
	env   refEnv
	// shellOnly: holes are not recorded. Used with suppliers that do not make
	// valid polygons (float classes): the property speaks of geometries, whose
	// holes lie inside the shell, so the shell alone determines the envelope.
	shellOnly bool
}

func (s *recSup) Prim(idx int, kind byte, ring int, n int) []geom.Coordinates {
	cs := s.inner.Prim(idx, kind, ring, n)
	if s.shellOnly && kind == 'R' && ring > 0 {
		return cs
	}
	for _, c := range cs {
		if s.env.Empty {
			s.env = refEnv{false, c.X, c.Y, c.X, c.Y}
		} else {
			s.env = s.env.addXY(c.X, c.Y)
		}
	}
	return cs
}

type c12GeomCase struct {
	Shape string `json:"shape"`
	CT    string `json:"ctype"`
	Sup   string `json:"supplier"`
	WKT   string `json:"wkt"`
}

var allCT = []geom.CoordinatesType{geom.DimXY, geom.DimXYZ, geom.DimXYM, geom.DimXYZM}

func reverseMembers(g geom.Geometry) (geom.Geometry, bool) {
	switch g.Type() {
	case geom.TypeMultiPoint:
		m := g.MustAsMultiPoint()
		n := m.NumPoints()
		if n < 2 {
			return g, false
		}
		ps := make([]geom.Point, n)
		for i := range ps {
			ps[i] = m.PointN(n - 1 - i)
		}
		return geom.NewMultiPoint(ps).AsGeometry(), true
	case geom.TypeMultiLineString:
		m := g.MustAsMultiLineString()
		n := m.NumLineStrings()
		if n < 2 {
			return g, false
		}
		ps := make([]geom.LineString, n)
		for i := range ps {
			ps[i] = m.LineStringN(n - 1 - i)
		}
		return geom.NewMultiLineString(ps).AsGeometry(), true
	case geom.TypeMultiPolygon:
		m := g.MustAsMultiPolygon()
		n := m.NumPolygons()
		if n < 2 {
			return g, false
		}
		ps := make([]geom.Polygon, n)
		for i := range ps {
			ps[i] = m.PolygonN(n - 1 - i)
		}
		return geom.NewMultiPolygon(ps).AsGeometry(), true
	case geom.TypeGeometryCollection:
		m := g.MustAsGeometryCollection()
		n := m.NumGeometries()
		if n < 2 {
			return g, false
		}
		ps := make([]geom.Geometry, n)
		for i := range ps {
			ps[i] = m.GeometryN(n - 1 - i)
		}
		return geom.NewGeometryCollection(ps).AsGeometry(), true
	}
	return g, false
}

func members(g geom.Geometry) []geom.Geometry {
	var out []geom.Geometry
	switch g.Type() {
	case geom.TypeMultiPoint:
		m := g.MustAsMultiPoint()
		for i := 0; i < m.NumPoints(); i++ {
			out = append(out, m.PointN(i).AsGeometry())
		}
	case geom.TypeMultiLineString:
		m := g.MustAsMultiLineString()
		for i := 0; i < m.NumLineStrings(); i++ {
			out = append(out, m.LineStringN(i).AsGeometry())
		}
	case geom.TypeMultiPolygon:
		m := g.MustAsMultiPolygon()
		for i := 0; i < m.NumPolygons(); i++ {
			out = append(out, m.PolygonN(i).AsGeometry())
		}
	case geom.TypeGeometryCollection:
		m := g.MustAsGeometryCollection()
		for i := 0; i < m.NumGeometries(); i++ {
			out = append(out, m.GeometryN(i))
		}
	case geom.TypePolygon:
		p := g.MustAsPolygon()
		if !p.IsEmpty() {
			out = append(out, p.ExteriorRing().AsGeometry())
			for i := 0; i < p.NumInteriorRings(); i++ {
				out = append(out, p.InteriorRingN(i).AsGeometry())
			}
		}
	}
	return out
}

func c12Geom(r *engine.Run, g geom.Geometry, want refEnv, c c12GeomCase) {
	bad := func(m, d string) { r.Violation("C12/geom."+m, "geom", c, d) }
	r.Evaluations.Add(1)
	r.Transitions.Add(12)
	env := g.Envelope()
	if !sameEnv(env, want) {
		bad("Envelope", envStr(env))
		return
	}
	if env.IsEmpty() != g.IsEmpty() {
		bad("Envelope.emptyIffEmpty", envStr(env))
	}
	// independent of the recording supplier: min/max over DumpCoordinates
	dc := g.DumpCoordinates()
	var viaDump refEnv
	viaDump.Empty = true
	for i := 0; i < dc.Length(); i++ {
		xy := dc.GetXY(i)
		viaDump = viaDump.addXY(xy.X, xy.Y)
	}
	if g.Validate() == nil && !sameEnv(env, viaDump) {
		bad("Envelope.vsDumpCoordinates", envStr(env))
	}
	type tr struct {
		name string
		g    geom.Geometry
	}
	trs := []tr{{"Reverse", g.Reverse()}, {"Force2D", g.Force2D()}, {"ForceCW", g.ForceCW()}, {"ForceCCW", g.ForceCCW()}}
	for _, ct := range allCT {
		trs = append(trs, tr{"ForceCoordinatesType" + ct.String(), g.ForceCoordinatesType(ct)})
	}
	if rm, ok := reverseMembers(g); ok {
		trs = append(trs, tr{"memberReorder", rm})
	}
	for _, t := range trs {
		if !sameEnv(t.g.Envelope(), want) {
			bad("Envelope.invariant."+t.name, envStr(t.g.Envelope()))
		}
	}
	if ms := members(g); g.Type() != geom.TypePolygon {
		j := refEnv{Empty: true}
		var lj geom.Envelope
		for _, m := range ms {
			me := m.Envelope()
			lj = lj.ExpandToIncludeEnvelope(me)
			if mn, mx, ok := me.MinMaxXYs(); ok {
				j = j.join(refEnv{false, mn.X, mn.Y, mx.X, mx.Y})
			}
		}
		switch g.Type() {
		case geom.TypePoint, geom.TypeLineString:
		default:
			if !sameEnv(env, j) || lj != env {
				bad("Envelope.joinOfMembers", envStr(env))
			}
		}
	} else if len(ms) > 0 {
		// polygon: the shell's envelope covers every ring's
		if !sameEnv(ms[0].Envelope(), want) && g.Validate() == nil {
			bad("Envelope.polygonShell", envStr(env))
		}
	}
}

var floatXY = []float64{0, math.Copysign(0, -1), 1, -1, 0.1, 1.0 / 3, 9007199254740993, -9007199254740991, 1e15 + 0.3, 5e-324, -5e-324,
	2.2250738585072014e-308, 1.7976931348623157e308, -1.7976931348623157e308, 123456.78901234567, -0.30000000000000004}
var floatZM = append(append([]float64{}, floatXY...), math.NaN(), math.Inf(1), math.Inf(-1))

func c12Main(r *engine.Run) {
	r.Rule = "envelope lattice {0..N-1}^2 ∪ {empty}: all singles, pairs, triples × XY args; geometry envelopes over S(d,w) × 4 ctypes × suppliers (cell lattice, float classes at every rotation); Union pairs. non-trivial = properly overlapping envelope pair, or geometry shape with an empty member or depth ≥ 2"
	n := 4
	envs := latticeEnvs(n)
	r.States.Add(int64(len(envs)))
	for _, e := range envs {
		c12Unary(r, e)
		r.Sample("env1", e)
	}
	args := []float64{-1, 0, 1, 2, 3, 4, 1.5, math.NaN(), math.Inf(1), math.Inf(-1)}
	for _, e := range envs {
		for _, x := range args {
			for _, y := range args {
				c12XY(r, e, x, y)
			}
		}
	}
	r.Bound(fmt.Sprintf("env × XY: %d envelopes × %d² arguments", len(envs), len(args)))
	// NewEnvelope from k points: every sequence of 0..4 points of the 3×3 lattice (thorough 0..5), in
	// order (the extreme may be first, in the middle or last), against min/max and against the fold
	// of ExpandToIncludeXY over the same points
	{
		maxK := 4
		if r.Thorough() {
			maxK = 5
		}
		var cnt int64
		var rec func(pts []geom.XY)
		rec = func(pts []geom.XY) {
			c12Points(r, pts)
			cnt++
			if len(pts) == maxK {
				return
			}
			for x := 0; x < 3; x++ {
				for y := 0; y < 3; y++ {
					rec(append(pts, geom.XY{X: float64(x), Y: float64(y)}))
				}
			}
		}
		rec(nil)
		r.States.Add(cnt)
		r.Bound(fmt.Sprintf("NewEnvelope(points...): all %d sequences of 0..%d points of the 3×3 lattice", cnt, maxK))
	}
	for _, a := range envs {
		for _, b := range envs {
			c12Pair(r, a, b)
		}
	}
	// the same lattice at extreme magnitudes (geometry envelopes come from any finite coordinates):
	// scaled by 1e-200, 1e200, 8e307 (sums overflow) and 5e-324 (subnormal), singles and all ordered pairs of the 3×3 lattice
	for _, sc := range []float64{1e-200, 1e200, 8e307, 5e-324} {
		var scaled []refEnv
		for _, e := range latticeEnvs(3) {
			if !e.Empty {
				e = refEnv{false, e.X0 * sc, e.Y0 * sc, e.X1 * sc, e.Y1 * sc}
			}
			scaled = append(scaled, e)
		}
		for _, a := range scaled {
			c12UnaryExtreme(r, a)
			for _, b := range scaled {
				c12Pair(r, a, b)
			}
		}
	}
	r.Bound("envelope lattice 3×3 scaled by 1e-200, 1e200, 8e307 and 5e-324: singles (Center, Width/Height finite and exact) and all ordered pairs")
	r.Sample("env2", c12EnvCase{Envs: []refEnv{envs[5], envs[57]}})
	r.Bound(fmt.Sprintf("all ordered envelope pairs over the %d×%d lattice + empty: %d", n, n, len(envs)*len(envs)))
	// triples: quick uses the 3x3 lattice (37^3), thorough the 4x4 one (101^3)
	tenvs := envs
	if !r.Thorough() {
		tenvs = latticeEnvs(3)
	}
	libs := make([]geom.Envelope, len(tenvs))
	for i, e := range tenvs {
		libs[i] = e.lib()
	}
	if r.Parallel(len(tenvs), func(i int) {
		for j := range tenvs {
			for k := range tenvs {
				c12Triple(r, libs[i], libs[j], libs[k], tenvs[i], tenvs[j], tenvs[k])
			}
		}
	}) {
		r.Bound(fmt.Sprintf("all ordered envelope triples: %d^3", len(tenvs)))
	}
	r.Sample("env3", c12EnvCase{Envs: []refEnv{tenvs[3], tenvs[11], tenvs[20]}})

	// geometry envelopes
	d, w := 2, 2
	if r.Thorough() {
		d, w = 3, 3
	}
	shapes := universe.Shapes(d, w)
	r.States.Add(int64(len(shapes)))
	offs := []int{0, 5}
	if r.Thorough() {
		offs = nil
		for o := 0; o < len(floatXY); o++ {
			offs = append(offs, o)
		}
	}
	done := r.Parallel(len(shapes), func(i int) {
		s := shapes[i]
		for _, ct := range allCT {
			sups := []struct {
				name string
				s    universe.Supplier
			}{{"cell", &universe.CellSupplier{}}, {"cell(-5,7)x3", &universe.CellSupplier{OX: -5, OY: 7, Scale: 3}}}
			for _, o := range offs {
				sups = append(sups, struct {
					name string
					s    universe.Supplier
				}{fmt.Sprintf("float+%d", o), &universe.FloatSupplier{XYAlpha: floatXY, ZMAlpha: floatZM, Off: o}})
			}
			for _, sp := range sups {
				rs := &recSup{inner: sp.s, env: refEnv{Empty: true}, shellOnly: sp.name[0] == 'f'}
				g := universe.Build(s, ct, rs)
				c := c12GeomCase{s.String(), ct.String(), sp.name, ""}
				if p := engine.SafeCall(func() { c.WKT = g.AsText(); c12Geom(r, g, rs.env, c) }); p != nil {
					r.Violation("C12/geom.panic", "geom", c, fmt.Sprint(p))
				}
				if i%97 == 0 && ct == geom.DimXYZ {
					r.Sample("geom", c)
				}
			}
		}
		if s.HasEmptyMember() || s.Depth() >= 2 {
			r.Nontrivial("shape " + s.String())
		}
	})
	if done {
		r.Bound(fmt.Sprintf("geometry envelopes: S(%d,%d) = %d shapes × 4 ctypes × %d suppliers", d, w, len(shapes), 2+len(offs)))
	}
	c12Lattice(r)
}

func c12Replay(r *engine.Run, sub string, raw json.RawMessage) error {
	switch sub {
	case "env1", "envxy", "env2", "env3", "envpts":
		var c c12EnvCase
		if err := json.Unmarshal(raw, &c); err != nil {
			return err
		}
		switch sub {
		case "envpts":
			var pts []geom.XY
			for i := 0; i+1 < len(c.XY); i += 2 {
				pts = append(pts, geom.XY{X: c.XY[i], Y: c.XY[i+1]})
			}
			c12Points(r, pts)
		case "env1":
			c12Unary(r, c.Envs[0])
		case "envxy":
			c12XY(r, c.Envs[0], c.XY[0], c.XY[1])
		case "env2":
			c12Pair(r, c.Envs[0], c.Envs[1])
		case "env3":
			c12Triple(r, c.Envs[0].lib(), c.Envs[1].lib(), c.Envs[2].lib(), c.Envs[0], c.Envs[1], c.Envs[2])
		}
		return nil
	case "geom", "lattice", "union":
		var c struct {
			WKT string `json:"wkt"`
			A   string `json:"a"`
			B   string `json:"b"`
		}
		if err := json.Unmarshal(raw, &c); err != nil {
			return err
		}
		if sub == "union" {
			a, err := geom.UnmarshalWKT(c.A, geom.NoValidate{})
			if err != nil {
				return err
			}
			b, err := geom.UnmarshalWKT(c.B, geom.NoValidate{})
			if err != nil {
				return err
			}
			c12Union(r, a, b)
			return nil
		}
		g, err := geom.UnmarshalWKT(c.WKT, geom.NoValidate{})
		if err != nil {
			return err
		}
		dc := g.DumpCoordinates()
		want := refEnv{Empty: true}
		for i := 0; i < dc.Length(); i++ {
			xy := dc.GetXY(i)
			want = want.addXY(xy.X, xy.Y)
		}
		c12Geom(r, g, want, c12GeomCase{WKT: c.WKT})
		return nil
	}
	return fmt.Errorf("unknown sub %q", sub)
}

func init() {
	engine.Register(&engine.Check{ID: "C12", Main: c12Main, Replay: c12Replay})
}

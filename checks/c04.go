package checks

import (
	"bytes"
	"database/sql/driver"
	"encoding/hex"
	"encoding/json"
	"fmt"

	"github.com/peterstace/simplefeatures/geom"
	"verif/engine"
	"verif/refcodec"
	"verif/universe"
)

type shapeCase struct {
	D      int    `json:"d"`
	W      int    `json:"w"`
	Idx    int    `json:"idx"`
	Shape  string `json:"shape"`
	CT     int    `json:"ctype"`
	Sup    string `json:"supplier"` // "float" or "cell"
	Off    int    `json:"off"`
	Orders []bool `json:"orders,omitempty"`
	Trail  int    `json:"trailing,omitempty"`
	Hex    string `json:"hex,omitempty"`
	Note   string `json:"note,omitempty"`
}

// wideGeoms: collections with many direct members (33, 64, 65, 500: beyond any small constant a
// parser might confuse with a depth or a buffer size), with an empty member in the middle, and a
// collection whose later member is itself wide. Index-addressed for replay.
func wideGeoms(ct geom.CoordinatesType) []geom.Geometry {
	pt := func(i int) geom.Point {
		c := geom.Coordinates{XY: geom.XY{X: float64(i%17) + 0.5, Y: float64(i/17) - 0.25}, Z: float64(1000 + i), M: float64(2000 + i), Type: ct}
		return geom.NewPoint(c)
	}
	line := func(i int) geom.LineString {
		a, b := pt(i).Coordinates, pt(i+1).Coordinates
		ca, _ := a()
		cb, _ := b()
		var fl []float64
		for _, c := range []geom.Coordinates{ca, cb} {
			fl = append(fl, c.X, c.Y)
			if ct.Is3D() {
				fl = append(fl, c.Z)
			}
			if ct.IsMeasured() {
				fl = append(fl, c.M)
			}
		}
		return geom.NewLineString(geom.NewSequence(fl, ct))
	}
	sq := func(i int) geom.Polygon {
		x, y := float64(3*(i%20)), float64(3*(i/20))
		var fl []float64
		for k, c := range [][2]float64{{x, y}, {x + 1, y}, {x + 1, y + 1}, {x, y + 1}, {x, y}} {
			fl = append(fl, c[0], c[1])
			if ct.Is3D() {
				fl = append(fl, float64(k))
			}
			if ct.IsMeasured() {
				fl = append(fl, float64(10+k))
			}
		}
		return geom.NewPolygon([]geom.LineString{geom.NewLineString(geom.NewSequence(fl, ct))})
	}
	var out []geom.Geometry
	for _, n := range []int{33, 64, 65, 500} {
		var ps []geom.Point
		var gs []geom.Geometry
		for i := 0; i < n; i++ {
			if i == n/2 {
				ps = append(ps, geom.NewEmptyPoint(ct))
			}
			ps = append(ps, pt(i))
			gs = append(gs, pt(i).AsGeometry())
		}
		out = append(out, geom.NewMultiPoint(ps).AsGeometry(), geom.NewGeometryCollection(gs).AsGeometry())
	}
	var ls []geom.LineString
	var pg []geom.Polygon
	var nest []geom.Geometry
	for i := 0; i < 40; i++ {
		ls = append(ls, line(i))
		pg = append(pg, sq(i))
		nest = append(nest, geom.NewGeometryCollection([]geom.Geometry{pt(i).AsGeometry()}).AsGeometry())
	}
	out = append(out, geom.NewMultiLineString(ls).AsGeometry(), geom.NewMultiPolygon(pg).AsGeometry(), geom.NewGeometryCollection(nest).AsGeometry())
	var head []geom.Geometry
	var tail []geom.Point
	for i := 0; i < 19; i++ {
		head = append(head, pt(i).AsGeometry())
	}
	for i := 0; i < 20; i++ {
		tail = append(tail, pt(40+i))
	}
	out = append(out, geom.NewGeometryCollection(append(head, geom.NewMultiPoint(tail).AsGeometry())).AsGeometry(),
		geom.NewGeometryCollection(append([]geom.Geometry{geom.NewMultiPoint(tail).AsGeometry()}, head...)).AsGeometry())
	return out
}

func (c shapeCase) build() (geom.Geometry, error) {
	if c.Sup == "huge" {
		return geom.Geometry{}, fmt.Errorf("the 12000-element cases are replayed by re-running the check")
	}
	if c.Sup == "wide" {
		ws := wideGeoms(geom.CoordinatesType(c.CT))
		if c.Idx < 0 || c.Idx >= len(ws) {
			return geom.Geometry{}, fmt.Errorf("wide index out of range")
		}
		return ws[c.Idx], nil
	}
	shapes := append(universe.Shapes(c.D, c.W), universe.ShortRingShapes()...)
	if c.Idx < 0 || c.Idx >= len(shapes) {
		return geom.Geometry{}, fmt.Errorf("shape index out of range")
	}
	var sup universe.Supplier
	if c.Sup == "cell" {
		sup = &universe.CellSupplier{}
	} else {
		sup = &universe.FloatSupplier{XYAlpha: floatXY, ZMAlpha: floatZM, Off: c.Off}
	}
	return universe.Build(shapes[c.Idx], geom.CoordinatesType(c.CT), sup), nil
}

var wkbTrailers = [][]byte{nil, {0}, {0x01, 0x02, 0x00, 0x00, 0x00, 0xff, 0xfe, 0x7f, 0x80, 0x00, 0x13, 0x37, 0xc0, 0xff, 0xee, 0x42, 0x99}}

// orderVectors enumerates byte-order assignments for e elements: all 2^e when
// e ≤ full, otherwise every vector within maxDev deviations of all-LE and of all-BE.
func orderVectors(e, full, maxDev int) [][]bool {
	var out [][]bool
	if e <= full {
		for m := 0; m < 1<<e; m++ {
			v := make([]bool, e)
			for i := range v {
				v[i] = m&(1<<i) != 0
			}
			out = append(out, v)
		}
		return out
	}
	for _, base := range []bool{false, true} {
		v := make([]bool, e)
		for i := range v {
			v[i] = base
		}
		out = append(out, append([]bool{}, v...))
		for i := 0; i < e; i++ {
			v[i] = !base
			out = append(out, append([]bool{}, v...))
			if maxDev >= 2 {
				for j := i + 1; j < e; j++ {
					v[j] = !base
					out = append(out, append([]bool{}, v...))
					v[j] = base
				}
			}
			v[i] = base
		}
	}
	return out
}

func c04One(r *engine.Run, g geom.Geometry, c shapeCase, full, maxDev int) {
	bad := func(k, d string, cc shapeCase) { r.Violation("C04/"+k, "shape", cc, d) }
	var n refcodec.Node
	if p := engine.SafeCall(func() { n = refcodec.Describe(g) }); p != nil {
		bad("describe.panic", fmt.Sprint(p), c)
		return
	}
	if s := refcodec.Consistent(n); s != "" {
		bad("inconsistentCoordinatesType", s, c)
		return
	}
	want, _ := refcodec.WKB(n, nil)
	got := g.AsBinary()
	r.Transitions.Add(2)
	if !bytes.Equal(got, want) {
		c2 := c
		c2.Hex = hex.EncodeToString(got)
		bad("AsBinary.vsReference", "reference "+hex.EncodeToString(want), c2)
		return
	}
	prefix := []byte("x:\x00\xff")
	if ap := g.AppendWKB(append([]byte{}, prefix...)); !bytes.Equal(ap, append(append([]byte{}, prefix...), want...)) {
		bad("AppendWKB", hex.EncodeToString(ap), c)
	}
	for vi, ov := range orderVectors(n.NumElements(), full, maxDev) {
		enc, _ := refcodec.WKB(n, ov)
		tr := wkbTrailers[vi%len(wkbTrailers)]
		in := append(append([]byte{}, enc...), tr...)
		keep := append([]byte{}, in...)
		cc := c
		cc.Orders, cc.Trail, cc.Hex = ov, len(tr), hex.EncodeToString(in)
		var g2 geom.Geometry
		var err error
		r.Transitions.Add(1)
		r.Evaluations.Add(1)
		if p := engine.SafeCall(func() { g2, err = geom.UnmarshalWKB(in, geom.NoValidate{}) }); p != nil {
			bad("UnmarshalWKB.panic", fmt.Sprint(p), cc)
			continue
		}
		if err != nil {
			bad("UnmarshalWKB.error", err.Error(), cc)
			continue
		}
		if !bytes.Equal(in, keep) {
			bad("UnmarshalWKB.mutatedInput", hex.EncodeToString(in), cc)
		}
		if d := refcodec.Diff(n, refcodec.Describe(g2)); d != "" {
			bad("decode.notIdentical", d, cc)
			continue
		}
		if re := g2.AsBinary(); !bytes.Equal(re, want) {
			bad("reencode.differs", hex.EncodeToString(re), cc)
		}
		// decoding must not alias the input: clobber the buffer and look again
		for i := range in {
			in[i] = 0xAA
		}
		if d := refcodec.Diff(n, refcodec.Describe(g2)); d != "" {
			bad("decode.aliasesInput", d, cc)
		}
	}
}

// c04Scan: Value/Scan round trip of every concrete type, Geometry and
// NullGeometry with []byte and string sources; wrong destination type rejected
// and left unchanged.
func c04Scan(r *engine.Run, g geom.Geometry, c shapeCase) {
	bad := func(k, d string) { r.Violation("C04/scan."+k, "shape", c, d) }
	n := refcodec.Describe(g)
	val := func(v driver.Valuer) []byte {
		x, err := v.Value()
		b, ok := x.([]byte)
		if err != nil || !ok {
			bad("Value", fmt.Sprint(x, err))
			return nil
		}
		return b
	}
	want, _ := refcodec.WKB(n, nil)
	var concrete driver.Valuer
	switch g.Type() {
	case geom.TypePoint:
		concrete = g.MustAsPoint()
	case geom.TypeLineString:
		concrete = g.MustAsLineString()
	case geom.TypePolygon:
		concrete = g.MustAsPolygon()
	case geom.TypeMultiPoint:
		concrete = g.MustAsMultiPoint()
	case geom.TypeMultiLineString:
		concrete = g.MustAsMultiLineString()
	case geom.TypeMultiPolygon:
		concrete = g.MustAsMultiPolygon()
	default:
		concrete = g.MustAsGeometryCollection()
	}
	for _, v := range []driver.Valuer{g, concrete, geom.NullGeometry{Geometry: g, Valid: true}} {
		if b := val(v); b != nil && !bytes.Equal(b, want) {
			bad("Value.bytes", hex.EncodeToString(b))
		}
	}
	if x, err := (geom.NullGeometry{Geometry: g}).Value(); x != nil || err != nil {
		bad("NullGeometry.Value.invalid", fmt.Sprint(x, err))
	}
	be, _ := refcodec.WKB(n, []bool{true, false, true, true})
	type scanner interface{ Scan(interface{}) error }
	dsts := func() []scanner {
		return []scanner{new(geom.GeometryCollection), new(geom.Point), new(geom.LineString), new(geom.Polygon), new(geom.MultiPoint), new(geom.MultiLineString), new(geom.MultiPolygon)}
	}
	asGeom := func(s scanner) geom.Geometry {
		switch v := s.(type) {
		case *geom.Point:
			return v.AsGeometry()
		case *geom.LineString:
			return v.AsGeometry()
		case *geom.Polygon:
			return v.AsGeometry()
		case *geom.MultiPoint:
			return v.AsGeometry()
		case *geom.MultiLineString:
			return v.AsGeometry()
		case *geom.MultiPolygon:
			return v.AsGeometry()
		case *geom.GeometryCollection:
			return v.AsGeometry()
		}
		return geom.Geometry{}
	}
	for si, src := range []interface{}{want, string(want), be, string(be)} {
		r.Transitions.Add(9)
		r.Evaluations.Add(1)
		var gg geom.Geometry
		if err := gg.Scan(src); err != nil {
			bad("Geometry.Scan", err.Error())
		} else if d := refcodec.Diff(n, refcodec.Describe(gg)); d != "" {
			bad("Geometry.Scan.notIdentical", d)
		}
		// a receiver that already holds another value (rows scanned into one variable)
		used := geom.NewGeometryCollection([]geom.Geometry{geom.NewPointXYZM(9, 9, 9, 9).AsGeometry(), geom.NewLineStringXY(7, 7, 8, 8).AsGeometry()}).AsGeometry()
		if err := used.Scan(src); err != nil {
			bad("Geometry.Scan.reusedReceiver", err.Error())
		} else if d := refcodec.Diff(n, refcodec.Describe(used)); d != "" {
			bad("Geometry.Scan.reusedReceiver.notIdentical", d)
		}
		usedNull := geom.NullGeometry{Geometry: geom.NewPointXY(9, 9).AsGeometry(), Valid: true}
		if err := usedNull.Scan(src); err != nil || !usedNull.Valid || refcodec.Diff(n, refcodec.Describe(usedNull.Geometry)) != "" {
			bad("NullGeometry.Scan.reusedReceiver", fmt.Sprint(err, usedNull.Valid))
		}
		var ng geom.NullGeometry
		if err := ng.Scan(src); err != nil || !ng.Valid {
			bad("NullGeometry.Scan", fmt.Sprint(err, ng.Valid))
		} else if d := refcodec.Diff(n, refcodec.Describe(ng.Geometry)); d != "" {
			bad("NullGeometry.Scan.notIdentical", d)
		}
		for di, dst := range dsts() {
			// pre-load the destination so "unchanged on error" is observable
			marker := geom.NewPointXY(7, 7).AsGeometry()
			_ = marker
			before := refcodec.Describe(asGeom(dst))
			err := dst.Scan(src)
			match := geom.GeometryType(di) == g.Type()
			if match {
				if err != nil {
					bad("concrete.Scan", fmt.Sprintf("source %d: %v", si, err))
				} else if d := refcodec.Diff(n, refcodec.Describe(asGeom(dst))); d != "" {
					bad("concrete.Scan.notIdentical", d)
				}
			} else {
				if err == nil {
					bad("concrete.Scan.acceptsWrongType", fmt.Sprintf("%T", dst))
				} else if d := refcodec.Diff(before, refcodec.Describe(asGeom(dst))); d != "" {
					bad("concrete.Scan.wrongTypeChangedDestination", d)
				}
			}
		}
	}
	var ng geom.NullGeometry
	ng.Valid = true
	if err := ng.Scan(nil); err != nil || ng.Valid {
		bad("NullGeometry.Scan.nil", fmt.Sprint(err, ng.Valid))
	}
	var gg geom.Geometry
	if err := gg.Scan(nil); err == nil {
		bad("Geometry.Scan.acceptsNil", "")
	}
	if err := gg.Scan(42); err == nil {
		bad("Geometry.Scan.acceptsInt", "")
	}
}

func c04Main(r *engine.Run) {
	r.Rule = "structural shapes S(d,w) (7 types, empty members at every position incl. empty Points in MultiPoint/GeometryCollection, nesting to depth d) × 4 coordinate types × float-class ordinates at every alphabet rotation (subnormal, ±0, max, 17-digit; NaN/±Inf in Z/M) × per-element byte-order vectors × trailing bytes; reference = independent WKB writer + structural walker with bit comparison. Scan/Value on the valid (cell lattice) instantiation of every shape for all 7×9 destination/source type combinations. non-trivial = shapes with an empty member, depth ≥ 2 or non-XY"
	d, w, full, maxDev := 2, 2, 3, 1
	offs := []int{0, 3, 7, 12}
	if r.Thorough() {
		d, w, full, maxDev = 4, 2, 8, 2
		offs = nil
		for o := 0; o < len(floatZM); o++ {
			offs = append(offs, o)
		}
	}
	shapes := append(universe.Shapes(d, w), universe.ShortRingShapes()...)
	r.States.Add(int64(len(shapes)))
	done := r.Parallel(len(shapes), func(i int) {
		s := shapes[i]
		for _, ct := range allCT {
			for _, o := range offs {
				c := shapeCase{D: d, W: w, Idx: i, Shape: s.String(), CT: int(ct), Sup: "float", Off: o}
				g := universe.Build(s, ct, &universe.FloatSupplier{XYAlpha: floatXY, ZMAlpha: floatZM, Off: o})
				if p := engine.SafeCall(func() { c04One(r, g, c, full, maxDev) }); p != nil {
					r.Violation("C04/panic", "shape", c, fmt.Sprint(p))
				}
			}
			c := shapeCase{D: d, W: w, Idx: i, Shape: s.String(), CT: int(ct), Sup: "cell"}
			g := universe.Build(s, ct, &universe.CellSupplier{})
			if p := engine.SafeCall(func() {
				c04One(r, g, c, 2, 1)
				if g.Validate() == nil { // Scan validates; short-ring shapes are invalid by construction
					c04Scan(r, g, c)
				}
			}); p != nil {
				r.Violation("C04/panic", "shape", c, fmt.Sprint(p))
			}
			if s.HasEmptyMember() || s.Depth() >= 2 || ct != geom.DimXY {
				r.Nontrivial(fmt.Sprint(s.String(), ct))
			}
			if i%211 == 0 && ct == geom.DimXYM {
				r.Sample("shape", c)
			}
		}
	})
	for _, ct := range allCT {
		ws := wideGeoms(ct)
		r.States.Add(int64(len(ws)))
		for i, g := range ws {
			c := shapeCase{Idx: i, Shape: fmt.Sprintf("wide #%d (%s, %d members)", i, g.Type(), len(members(g))), CT: int(ct), Sup: "wide"}
			if p := engine.SafeCall(func() {
				c04One(r, g, c, 0, 1)
				c04Scan(r, g, c)
			}); p != nil {
				r.Violation("C04/panic", "shape", c, fmt.Sprint(p))
			}
		}
	}
	// a nested collection that comes after (and before) 12 000 other elements in document order:
	// encode, decode, compare structurally; Scan into the concrete type
	{
		pt := func(i int) geom.Point { return geom.NewPointXY(float64(i%97)+0.5, float64(i/97)) }
		var many []geom.Point
		for i := 0; i < 12000; i++ {
			many = append(many, pt(i))
		}
		inner := geom.NewGeometryCollection([]geom.Geometry{pt(3).AsGeometry()}).AsGeometry()
		for vi, g := range []geom.Geometry{
			geom.NewGeometryCollection([]geom.Geometry{geom.NewMultiPoint(many).AsGeometry(), inner}).AsGeometry(),
			geom.NewGeometryCollection([]geom.Geometry{inner, geom.NewMultiPoint(many).AsGeometry()}).AsGeometry(),
		} {
			c := shapeCase{Idx: vi, Shape: "collection with a 12000-point MultiPoint and a nested collection", Sup: "huge"}
			r.States.Add(1)
			r.Transitions.Add(2)
			r.Evaluations.Add(1)
			b := g.AsBinary()
			h, err := geom.UnmarshalWKB(b)
			if err != nil {
				r.Violation("C04/UnmarshalWKB.error", "shape", c, err.Error())
				continue
			}
			if d := refcodec.Diff(refcodec.Describe(g), refcodec.Describe(h)); d != "" {
				r.Violation("C04/decode.notIdentical", "shape", c, d)
			}
			var gc geom.GeometryCollection
			if err := gc.Scan(b); err != nil {
				r.Violation("C04/scan.concrete.Scan", "shape", c, err.Error())
			}
		}
	}
	r.Bound("wide collections: 33 / 64 / 65 / 500 direct members (MultiPoint with an empty member in the middle, GeometryCollection), 40-member MultiLineString / MultiPolygon / collection of collections, a collection whose last (first) member is a 20-point MultiPoint × 4 ctypes")
	if done {
		r.Bound(fmt.Sprintf("S(%d,%d) = %d shapes × 4 ctypes × %d float rotations × byte-order vectors (all 2^e for e ≤ %d elements, else ≤ %d deviations from all-LE/all-BE) × 3 trailers; Scan/Value on every shape", d, w, len(shapes), len(offs), full, maxDev))
	}
}

func c04Replay(r *engine.Run, sub string, raw json.RawMessage) error {
	var c shapeCase
	if err := json.Unmarshal(raw, &c); err != nil {
		return err
	}
	g, err := c.build()
	if err != nil {
		return err
	}
	c04One(r, g, c, 8, 2)
	if c.Sup == "cell" || c.Sup == "wide" {
		c04Scan(r, g, c)
	}
	return nil
}

func init() {
	engine.Register(&engine.Check{ID: "C04", Main: c04Main, Replay: c04Replay})
}

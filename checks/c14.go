package checks

import (
	"encoding/json"
	"fmt"
	"math"
	"math/big"

	"github.com/peterstace/simplefeatures/geom"
	"verif/engine"
	"verif/exact"
	"verif/oracle"
	"verif/universe"
)

// ---- exact measures -----------------------------------------------------------

type measures struct {
	area, signed exact.R
	length       float64
	dim          int // highest non-empty dimension, -1 empty
	cx, cy       float64
}

// ringMoments: signed area A and first moments (∫x dA, ∫y dA) of a closed ring.
func ringMoments(r []exact.Pt) (a, mx, my exact.R) {
	six := exact.Int(6)
	for i := 0; i+1 < len(r); i++ {
		c := exact.Cross(r[i], r[i+1])
		a = a.Add(c)
		mx = mx.Add(r[i].X.Add(r[i+1].X).Mul(c))
		my = my.Add(r[i].Y.Add(r[i+1].Y).Mul(c))
	}
	return a.Half(), mx.Div(six), my.Div(six)
}

func exactMeasures(x *exact.G) measures {
	var m measures
	m.dim = x.Dim()
	var sa, smx, smy exact.R
	for _, p := range x.Polys {
		for i, r := range p.Rings {
			a, mx, my := ringMoments(r)
			m.signed = m.signed.Add(a)
			if a.Sign() < 0 {
				a, mx, my = a.Neg(), mx.Neg(), my.Neg()
			}
			if i > 0 {
				a, mx, my = a.Neg(), mx.Neg(), my.Neg()
			}
			sa, smx, smy = sa.Add(a), smx.Add(mx), smy.Add(my)
		}
	}
	m.area = sa
	bf := func(f float64) *big.Float { return new(big.Float).SetPrec(200).SetFloat64(f) }
	ln := bf(0)
	lx, ly := bf(0), bf(0)
	for _, l := range x.Lines {
		for i := 0; i+1 < len(l); i++ {
			d := exact.SqrtBig(exact.Dist2(l[i], l[i+1]))
			ln.Add(ln, d)
			mid := exact.Mid(l[i], l[i+1])
			lx.Add(lx, new(big.Float).SetPrec(200).Mul(d, mid.X.BigFloat()))
			ly.Add(ly, new(big.Float).SetPrec(200).Mul(d, mid.Y.BigFloat()))
		}
	}
	m.length, _ = ln.Float64()
	switch {
	case m.dim == 2 && sa.Sign() != 0:
		m.cx, m.cy = smx.Div(sa).Float(), smy.Div(sa).Float()
	case m.dim == 1 && ln.Sign() != 0:
		m.cx, _ = new(big.Float).SetPrec(200).Quo(lx, ln).Float64()
		m.cy, _ = new(big.Float).SetPrec(200).Quo(ly, ln).Float64()
	case m.dim == 0 || (m.dim == 1 && ln.Sign() == 0):
		var sx, sy exact.R
		pts := x.Points
		if m.dim == 1 {
			for _, l := range x.Lines {
				pts = append(pts, l[0])
			}
		}
		for _, p := range pts {
			sx, sy = sx.Add(p.X), sy.Add(p.Y)
		}
		n := exact.Int(int64(len(pts)))
		m.cx, m.cy = sx.Div(n).Float(), sy.Div(n).Float()
	}
	return m
}

type measCase struct {
	WKT  string `json:"wkt"`
	Note string `json:"note,omitempty"`
}

func closeRel(a, b, scale float64) bool { return math.Abs(a-b) <= 1e-9*math.Max(scale, 1e-300) }

// c14Check compares Area / SignedArea / Length / Centroid with the exact values.
func c14Check(r *engine.Run, g geom.Geometry, note string) (float64, float64, geom.Point) {
	c := measCase{WKT: g.AsText(), Note: note}
	bad := func(k, d string) { r.Violation("C14/"+k, "geom", c, d) }
	x := oracle.FromGeom(g)
	m := exactMeasures(x)
	mag := magnitudeOrOne(x)
	var area, signed, length float64
	var cen geom.Point
	r.Transitions.Add(4)
	r.Evaluations.Add(1)
	if p := engine.SafeCall(func() {
		area, signed, length, cen = g.Area(), g.Area(geom.SignedArea), g.Length(), g.Centroid()
	}); p != nil {
		bad("panic", fmt.Sprint(p))
		return 0, 0, geom.Point{}
	}
	if !closeRel(area, m.area.Float(), mag*mag) {
		bad("Area", fmt.Sprintf("library %v exact %v", area, m.area.Float()))
	}
	if !closeRel(signed, m.signed.Float(), mag*mag) {
		bad("SignedArea", fmt.Sprintf("library %v exact %v", signed, m.signed.Float()))
	}
	if !closeRel(length, m.length, mag) {
		bad("Length", fmt.Sprintf("library %v exact %v", length, m.length))
	}
	xy, ok := cen.XY()
	if cen.CoordinatesType() != geom.DimXY {
		bad("Centroid.notXY", cen.AsText())
	}
	if m.dim < 0 {
		if ok {
			bad("Centroid.emptyInput", cen.AsText())
		}
	} else if !ok {
		bad("Centroid.emptyResult", "")
	} else if !closeRel(xy.X, m.cx, mag) || !closeRel(xy.Y, m.cy, mag) {
		bad(fmt.Sprintf("Centroid.dim%d", m.dim), fmt.Sprintf("library %v exact (%v %v)", xy, m.cx, m.cy))
	}
	return area, length, cen
}

func magnitudeOrOne(x *exact.G) float64 { return magnitude(x) }

// c14Relations: representation invariance, Reverse, ForceCW/CCW, Z/M, translation, transform option.
func c14Relations(r *engine.Run, g geom.Geometry, note string) {
	c := measCase{WKT: g.AsText(), Note: note}
	bad := func(k, d string) { r.Violation("C14/relation."+k, "geom", c, d) }
	x := oracle.FromGeom(g)
	mag := magnitude(x)
	a0, l0, c0 := g.Area(), g.Length(), g.Centroid()
	s0 := g.Area(geom.SignedArea)
	same := func(k string, h geom.Geometry) {
		r.Transitions.Add(3)
		a, l, cc := h.Area(), h.Length(), h.Centroid()
		p0, ok0 := c0.XY()
		p1, ok1 := cc.XY()
		if !closeRel(a, a0, mag*mag) || !closeRel(l, l0, mag) || ok0 != ok1 || (ok0 && (!closeRel(p0.X, p1.X, mag) || !closeRel(p0.Y, p1.Y, mag))) {
			bad(k, fmt.Sprintf("area %v→%v length %v→%v centroid %s→%s", a0, a, l0, l, c0.AsText(), cc.AsText()))
		}
	}
	rev := g.Reverse()
	same("Reverse", rev)
	if !closeRel(rev.Area(geom.SignedArea), -s0, mag*mag) {
		bad("Reverse.negatesSignedArea", fmt.Sprint(s0, rev.Area(geom.SignedArea)))
	}
	same("ForceCW", g.ForceCW())
	same("ForceCCW", g.ForceCCW())
	if ccw := g.ForceCCW().Area(geom.SignedArea); !closeRel(ccw, a0, mag*mag) {
		bad("ForceCCW.signedAreaPositive", fmt.Sprint(ccw, a0))
	}
	same("ForceCoordinatesType(XYZM)", g.ForceCoordinatesType(geom.DimXYZM))
	if rm, ok := reverseMembers(g); ok {
		same("memberReorder", rm)
	}
	// additivity over members
	if ms := oracle.Members(g); len(ms) > 0 {
		var sa, sl float64
		for _, m := range ms {
			sa += m.Area()
			sl += m.Length()
		}
		if !closeRel(sa, a0, mag*mag) || !closeRel(sl, l0, mag) {
			bad("additivity", fmt.Sprint(sa, a0, sl, l0))
		}
	}
	// translation: invariance of area/length, equivariance of the centroid
	for _, t := range [][2]float64{{1000, -1000}, {-1000, 1000}, {0.5, 0.25}} {
		h := g.TransformXY(func(p geom.XY) geom.XY { return geom.XY{X: p.X + t[0], Y: p.Y + t[1]} })
		a, l, cc := h.Area(), h.Length(), h.Centroid()
		m2 := mag + 1000
		p0, ok0 := c0.XY()
		p1, ok1 := cc.XY()
		if !closeRel(a, a0, m2*m2) || !closeRel(l, l0, m2) || ok0 != ok1 || (ok0 && (!closeRel(p1.X, p0.X+t[0], m2) || !closeRel(p1.Y, p0.Y+t[1], m2))) {
			bad("translation", fmt.Sprintf("by %v: area %v→%v length %v→%v centroid %s→%s", t, a0, a, l0, l, c0.AsText(), cc.AsText()))
		}
	}
	// Area(WithTransform f) == Area(TransformXY f), signed too
	for name, f := range map[string]func(geom.XY) geom.XY{
		"identity":  func(p geom.XY) geom.XY { return p },
		"scale2":    func(p geom.XY) geom.XY { return geom.XY{X: 2 * p.X, Y: 2 * p.Y} },
		"shear":     func(p geom.XY) geom.XY { return geom.XY{X: p.X + 3*p.Y, Y: p.Y} },
		"translate": func(p geom.XY) geom.XY { return geom.XY{X: p.X - 7, Y: p.Y + 11} },
		"mirror":    func(p geom.XY) geom.XY { return geom.XY{X: -p.X, Y: p.Y} },
	} {
		r.Transitions.Add(4)
		h := g.TransformXY(f)
		m2 := 8 * (mag + 11)
		if a, b := g.Area(geom.WithTransform(f)), h.Area(); !closeRel(a, b, m2*m2) {
			bad("WithTransform."+name, fmt.Sprint(a, b))
		}
		if a, b := g.Area(geom.WithTransform(f), geom.SignedArea), h.Area(geom.SignedArea); !closeRel(a, b, m2*m2) {
			bad("WithTransform.signed."+name, fmt.Sprint(a, b))
		}
		if a, b := g.Area(geom.SignedArea, geom.WithTransform(f)), h.Area(geom.SignedArea); !closeRel(a, b, m2*m2) {
			bad("WithTransform.signedFirst."+name, fmt.Sprint(a, b))
		}
	}
}

func c14Main(r *engine.Run) {
	r.Rule = "valid lattice geometries of every type (all simple 3×3 polygons, polygons with 1..3 holes on 6×6 under every ring start/direction, all ≤4-vertex lines with repeated points, Multi* with empty members, mixed-dimension and nested collections, the 3×3 operand alphabet) and exact/float affine images: Area, SignedArea, Length, Centroid compared with exact rational shoelace/moments and 200-bit square roots; relations: Reverse, ForceCW/CCW, Z/M, member order, additivity, translation invariance/equivariance, WithTransform. non-trivial = geometries with a hole, an empty member or mixed dimensions"
	id := universe.Identity
	level := 1 // the whole universe is cheap enough for the quick tier too
	var geoms []geom.Geometry
	var notes []string
	add := func(g geom.Geometry, n string) { geoms = append(geoms, g); notes = append(notes, n) }
	for _, o := range BuildAlphabet(id, level).All() {
		add(o.G, "alphabet "+o.Kind)
	}
	for _, o := range HolesFamily(id) {
		add(o.G, "holes family")
	}
	// lines with repeated points: every sequence of ≤4 vertices on 3×3 with ≥ 2 distinct points
	pts := universe.LatticePoints(3)
	for n := 2; n <= 4; n++ {
		allSeqs(pts, n, func(s []universe.LPt) {
			distinct := false
			for _, p := range s {
				if p != s[0] {
					distinct = true
				}
			}
			if distinct && (level == 1 || (s[0].X+s[n-1].Y)%2 == 0) {
				add(id.Line(s).AsGeometry(), "line with repeats")
			}
		})
	}
	// polygons with 1..3 holes: shell 0..5, holes from a pool of disjoint squares/triangles, every ring start and direction of shell and first hole
	shell := []universe.LPt{{0, 0}, {5, 0}, {5, 5}, {0, 5}, {0, 0}}
	pool := [][]universe.LPt{{{1, 1}, {2, 1}, {2, 2}, {1, 2}, {1, 1}}, {{3, 1}, {4, 1}, {4, 3}, {3, 1}}, {{1, 3}, {3, 3}, {2, 4}, {1, 3}}, {{0, 5}, {1, 4}, {2, 5}, {0, 5}}}
	for mask := 1; mask < 16; mask++ {
		var hs [][]universe.LPt
		for b := 0; b < 4; b++ {
			if mask&(1<<b) != 0 {
				hs = append(hs, pool[b])
			}
		}
		if len(hs) > 3 || (mask&8 != 0 && mask&4 != 0) {
			continue
		}
		for k := 0; k < len(shell)-1; k++ {
			for _, rev := range []bool{false, true} {
				for hk := 0; hk < len(hs[0])-1; hk++ {
					rings := [][]universe.LPt{rotateRing(shell, k, rev), rotateRing(hs[0], hk, hk%2 == 0)}
					rings = append(rings, hs[1:]...)
					p := id.Polygon(rings...)
					if p.Validate() == nil {
						add(p.AsGeometry(), "polygon with holes, representation orbit")
					}
				}
			}
		}
	}
	// MultiPolygons whose members have holes and different centroids (weights must be the members' areas, holes removed)
	donutAt := func(x int, rev bool) geom.Polygon {
		sh := []universe.LPt{{x, 0}, {x + 4, 0}, {x + 4, 4}, {x, 4}, {x, 0}}
		ho := []universe.LPt{{x + 1, 1}, {x + 1, 3}, {x + 3, 3}, {x + 3, 1}, {x + 1, 1}}
		if rev {
			return id.Polygon(rotateRing(sh, 1, true), rotateRing(ho, 2, true))
		}
		return id.Polygon(sh, ho)
	}
	plainAt := func(x, w int) geom.Polygon {
		return id.Polygon([]universe.LPt{{x, 0}, {x + w, 0}, {x + w, 2}, {x, 2}, {x, 0}})
	}
	// a member whose hole is wound like its shell (neither CW nor CCW as a whole): its weight is
	// still its area, shell minus hole
	sameWound := func(x int, rev bool) geom.Polygon {
		sh := []universe.LPt{{x, 0}, {x + 4, 0}, {x + 4, 4}, {x, 4}, {x, 0}}
		ho := []universe.LPt{{x + 1, 1}, {x + 3, 1}, {x + 3, 3}, {x + 1, 3}, {x + 1, 1}}
		if rev {
			return id.Polygon(rotateRing(sh, 0, true), rotateRing(ho, 1, true))
		}
		return id.Polygon(sh, ho)
	}
	for _, ms := range [][]geom.Polygon{
		{sameWound(0, false), plainAt(6, 2)}, {plainAt(6, 3), sameWound(0, true)}, {sameWound(0, false), sameWound(10, true), plainAt(5, 1)}, {donutAt(0, false), sameWound(10, false)},
		{donutAt(0, false), plainAt(6, 2)}, {plainAt(6, 2), donutAt(0, true)}, {donutAt(0, false), donutAt(10, true), plainAt(6, 1)},
		{donutAt(0, true), {}, plainAt(5, 4)}, {plainAt(-4, 3), donutAt(0, false), plainAt(6, 2)},
	} {
		add(geom.NewMultiPolygon(ms).AsGeometry(), "multipolygon with hole members")
		var gs []geom.Geometry
		for _, m := range ms {
			gs = append(gs, m.AsGeometry())
		}
		add(geom.NewGeometryCollection(gs).AsGeometry(), "collection of polygons with holes")
	}
	// mixed-dimension / nested / empty-member collections
	sqp := id.Polygon([]universe.LPt{{0, 0}, {2, 0}, {2, 2}, {0, 2}, {0, 0}}).AsGeometry()
	ln := id.Line([]universe.LPt{{0, 0}, {3, 4}}).AsGeometry()
	pt := id.Point(universe.LPt{X: 7, Y: 1}).AsGeometry()
	for _, ms := range [][]geom.Geometry{
		{geom.Polygon{}.AsGeometry(), pt}, {geom.LineString{}.AsGeometry(), ln, pt}, {sqp, ln, pt}, {pt, geom.NewGeometryCollection([]geom.Geometry{ln, geom.NewEmptyPoint(geom.DimXY).AsGeometry()}).AsGeometry()},
		{geom.NewEmptyPoint(geom.DimXY).AsGeometry(), sqp, id.Polygon([]universe.LPt{{4, 0}, {8, 0}, {8, 4}, {4, 4}, {4, 0}}).AsGeometry()},
		{geom.NewGeometryCollection([]geom.Geometry{geom.Polygon{}.AsGeometry()}).AsGeometry(), ln, id.Line([]universe.LPt{{0, 0}, {0, 1}}).AsGeometry()},
		{geom.NewMultiPoint([]geom.Point{{}, geom.NewPointXY(1, 1), geom.NewPointXY(1, 1), geom.NewPointXY(4, 1)}).AsGeometry()},
		{geom.NewMultiLineString([]geom.LineString{{}, id.Line([]universe.LPt{{0, 0}, {1, 0}}), id.Line([]universe.LPt{{5, 5}, {5, 8}, {5, 8}})}).AsGeometry()},
	} {
		add(geom.NewGeometryCollection(ms).AsGeometry(), "mixed collection")
		for i := range ms {
			rot := append(append([]geom.Geometry{}, ms[i:]...), ms[:i]...)
			add(geom.NewGeometryCollection(rot).AsGeometry(), "mixed collection (rotated members)")
		}
	}
	// member product: every ordered collection of 1..3 members drawn from a pool that has, in every
	// dimension, a plain member, an empty one, a Multi* with an EMPTY member at the front / in the
	// middle / at the back, and nested collections (weights per member, not per leaf type)
	{
		e := geom.NewEmptyPoint(geom.DimXY)
		mpt := func(ps ...geom.Point) geom.Geometry { return geom.NewMultiPoint(ps).AsGeometry() }
		l2 := id.Line([]universe.LPt{{5, 5}, {5, 8}})
		sq2 := id.Polygon([]universe.LPt{{4, 0}, {8, 0}, {8, 4}, {4, 4}, {4, 0}})
		pool := []geom.Geometry{
			pt, e.AsGeometry(), mpt(geom.NewPointXY(1, 1), geom.NewPointXY(4, 1)), mpt(e, geom.NewPointXY(1, 1), geom.NewPointXY(4, 2)),
			mpt(geom.NewPointXY(2, 5), e), mpt(geom.NewPointXY(2, 5), e, e, geom.NewPointXY(0, 3)), mpt(),
			ln, geom.LineString{}.AsGeometry(), geom.NewMultiLineString([]geom.LineString{{}, id.Line([]universe.LPt{{0, 0}, {1, 0}}), l2}).AsGeometry(),
			geom.NewMultiLineString([]geom.LineString{l2, {}}).AsGeometry(),
			sqp, geom.Polygon{}.AsGeometry(), geom.NewMultiPolygon([]geom.Polygon{{}, sq2}).AsGeometry(), donutAt(10, false).AsGeometry(),
			geom.NewGeometryCollection([]geom.Geometry{id.Point(universe.LPt{X: 3, Y: 3}).AsGeometry(), mpt(e, geom.NewPointXY(9, 9))}).AsGeometry(),
			geom.NewGeometryCollection([]geom.Geometry{l2.AsGeometry(), geom.Polygon{}.AsGeometry()}).AsGeometry(),
			geom.NewGeometryCollection([]geom.Geometry{sq2.AsGeometry(), l2.AsGeometry(), geom.NewGeometryCollection([]geom.Geometry{pt}).AsGeometry()}).AsGeometry(),
			geom.GeometryCollection{}.AsGeometry(),
		}
		for _, a := range pool {
			add(geom.NewGeometryCollection([]geom.Geometry{a}).AsGeometry(), "member product 1")
			for _, b := range pool {
				add(geom.NewGeometryCollection([]geom.Geometry{a, b}).AsGeometry(), "member product 2")
				for _, c := range pool {
					add(geom.NewGeometryCollection([]geom.Geometry{a, b, c}).AsGeometry(), "member product 3")
				}
			}
		}
	}
	r.States.Add(int64(len(geoms)))
	if r.Parallel(len(geoms), func(i int) {
		g := geoms[i]
		c14Check(r, g, notes[i])
		if p := engine.SafeCall(func() { c14Relations(r, g, notes[i]) }); p != nil {
			r.Violation("C14/relation.panic", "geom", measCase{WKT: g.AsText(), Note: notes[i]}, fmt.Sprint(p))
		}
		x := oracle.FromGeom(g)
		holes := false
		for _, p := range x.Polys {
			holes = holes || len(p.Rings) > 1
		}
		dims := 0
		if len(x.Polys) > 0 {
			dims++
		}
		if len(x.Lines) > 0 {
			dims++
		}
		if len(x.Points) > 0 {
			dims++
		}
		if holes || dims > 1 {
			r.Nontrivial(g.AsText())
		}
		if i%401 == 0 {
			r.Sample("geom", measCase{WKT: g.AsText(), Note: notes[i]})
		}
	}) {
		r.Bound(fmt.Sprintf("%d lattice geometries × (4 measures vs exact + 20 relations)", len(geoms)))
	}
	if r.Thorough() {
		// 4×4 lattice: every simple polygon of ≤7 vertices, alone and (≤5 vertices) as the hole of a
		// frame, under a ring start/direction that depends on the index
		p4 := universe.SimplePolygons(4, 8)
		n4 := len(p4)
		// 5×5 lattice (slopes k/4, larger areas and moments): every simple polygon of ≤5 vertices
		p4 = append(p4, universe.SimplePolygons(5, 5)...)
		frame := []universe.LPt{{-1, -1}, {5, -1}, {5, 5}, {-1, 5}, {-1, -1}}
		r.States.Add(int64(len(p4)))
		if r.Parallel(len(p4), func(i int) {
			ring := rotateRing(p4[i], i%(len(p4[i])-1), i%2 == 1)
			c14Check(r, id.Polygon(ring).AsGeometry(), "4×4/5×5 simple polygon")
			if len(p4[i])-1 <= 5 {
				g := id.Polygon(rotateRing(frame, i%4, i%3 == 0), ring).AsGeometry()
				c14Check(r, g, "frame with a 4×4/5×5 simple polygon as hole")
				if i%7 == 0 {
					c14Relations(r, g, "frame with a 4×4/5×5 simple polygon as hole")
				}
			}
		}) {
			r.Bound(fmt.Sprintf("4×4 lattice: all %d simple polygons of ≤8 vertices; 5×5 lattice: all %d of ≤5 vertices; every one of ≤5 vertices also as the hole of a frame", n4, len(p4)-n4))
		}
	}
	// affine images of the alphabet (exact and general-position float)
	for _, t := range append(append([]universe.Affine{}, c02ExactAffines...), floatAffines()...) {
		ops := BuildAlphabet(t, 0).All()
		if r.Parallel(len(ops), func(i int) { c14Check(r, ops[i].G, "image "+t.Name) }) {
			r.Bound(fmt.Sprintf("affine image %s of the reduced alphabet (%d geometries)", t.Name, len(ops)))
		}
	}
}

func c14Replay(r *engine.Run, sub string, raw json.RawMessage) error {
	var c measCase
	if err := json.Unmarshal(raw, &c); err != nil {
		return err
	}
	g, err := geom.UnmarshalWKT(c.WKT, geom.NoValidate{})
	if err != nil {
		return err
	}
	c14Check(r, g, c.Note)
	c14Relations(r, g, c.Note)
	return nil
}

func init() {
	engine.Register(&engine.Check{ID: "C14", Main: c14Main, Replay: c14Replay})
}

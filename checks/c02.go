package checks

import (
	"encoding/json"
	"fmt"
	"sync/atomic"

	"github.com/peterstace/simplefeatures/geom"
	"verif/engine"
	"verif/oracle"
	"verif/universe"
)

type pairCase struct {
	A    string `json:"a"`
	B    string `json:"b"`
	Note string `json:"note,omitempty"`
}

// refMatch is an independent DE-9IM pattern matcher.
func refMatch(m, pat string) bool {
	for i := 0; i < 9; i++ {
		c, p := m[i], pat[i]
		switch p {
		case '*':
		case 'T':
			if c == 'F' {
				return false
			}
		default:
			if c != p {
				return false
			}
		}
	}
	return true
}

func refAny(m string, pats ...string) bool {
	for _, p := range pats {
		if refMatch(m, p) {
			return true
		}
	}
	return false
}

func transpose9(m string) string {
	b := []byte(m)
	return string([]byte{b[0], b[3], b[6], b[1], b[4], b[7], b[2], b[5], b[8]})
}

type predicate struct {
	name string
	fn   func(a, b geom.Geometry) (bool, error)
	ref  func(m string, dimA, dimB int, emptyA, emptyB bool) bool
}

var c02Predicates = []predicate{
	{"Equals", geom.Equals, func(m string, _, _ int, ea, eb bool) bool { return (ea && eb) || refMatch(m, "T*F**FFF*") }},
	{"Disjoint", geom.Disjoint, func(m string, _, _ int, _, _ bool) bool { return refMatch(m, "FF*FF****") }},
	{"Touches", geom.Touches, func(m string, _, _ int, _, _ bool) bool {
		return refAny(m, "FT*******", "F**T*****", "F***T****")
	}},
	{"Contains", geom.Contains, func(m string, _, _ int, _, _ bool) bool { return refMatch(m, "T*****FF*") }},
	{"Covers", geom.Covers, func(m string, _, _ int, _, _ bool) bool {
		return refAny(m, "T*****FF*", "*T****FF*", "***T**FF*", "****T*FF*")
	}},
	{"Within", geom.Within, func(m string, _, _ int, _, _ bool) bool { return refMatch(m, "T*F**F***") }},
	{"CoveredBy", geom.CoveredBy, func(m string, _, _ int, _, _ bool) bool {
		return refAny(m, "T*F**F***", "*TF**F***", "**FT*F***", "**F*TF***")
	}},
	{"Crosses", geom.Crosses, func(m string, da, db int, _, _ bool) bool {
		switch {
		case da < db:
			return refMatch(m, "T*T******")
		case da > db:
			return refMatch(m, "T*****T**")
		case da == 1:
			return refMatch(m, "0********")
		}
		return false
	}},
	{"Overlaps", geom.Overlaps, func(m string, da, db int, _, _ bool) bool {
		switch {
		case da == db && (da == 0 || da == 2):
			return refMatch(m, "T*T***T**")
		case da == 1 && db == 1:
			return refMatch(m, "1*T***T**")
		}
		return false
	}},
	{"Intersects", func(a, b geom.Geometry) (bool, error) { return geom.Intersects(a, b), nil },
		func(m string, _, _ int, _, _ bool) bool { return !refMatch(m, "FF*FF****") }},
}

// c02Pair checks Relate in both orders and every predicate in both orders
// against the exact matrix of (a, b).
func c02Pair(r *engine.Run, a, b Operand, preds bool) {
	c := pairCase{A: a.WKT, B: b.WKT}
	p := oracle.NewPair(a.X, b.X)
	want := p.DE9IM()
	r.Evaluations.Add(1)
	r.Outcome(want)
	if !refMatch(want, "FF*FF****") {
		r.Nontrivial(a.WKT + "|" + b.WKT)
	}
	type ord struct {
		x, y Operand
		m    string
		tag  string
	}
	for _, o := range []ord{{a, b, want, "ab"}, {b, a, transpose9(want), "ba"}} {
		var got string
		var err error
		r.Transitions.Add(1)
		if pnc := engine.SafeCall(func() { got, err = geom.Relate(o.x.G, o.y.G) }); pnc != nil {
			r.Violation("C02/relate.panic", "pair", pairCase{o.x.WKT, o.y.WKT, ""}, fmt.Sprint(pnc))
			continue
		}
		if err != nil {
			r.Violation("C02/relate.error", "pair", pairCase{o.x.WKT, o.y.WKT, ""}, err.Error())
			continue
		}
		if got != o.m {
			key := "C02/relate.matrix:" + o.x.Kind + "/" + o.y.Kind
			if o.x.X.IsEmpty() || o.y.X.IsEmpty() {
				key = "C02/relate.matrix.emptyOperand"
			}
			r.Violation(key, "pair", pairCase{o.x.WKT, o.y.WKT, ""}, fmt.Sprintf("library %s, exact %s", got, o.m))
		}
		if !preds {
			continue
		}
		da, db := o.x.X.Dim(), o.y.X.Dim()
		for _, pr := range c02Predicates {
			var gotP bool
			r.Transitions.Add(1)
			if pnc := engine.SafeCall(func() { gotP, err = pr.fn(o.x.G, o.y.G) }); pnc != nil || err != nil {
				r.Violation("C02/"+pr.name+".panicOrError", "pair", pairCase{o.x.WKT, o.y.WKT, ""}, fmt.Sprint(pnc, err))
				continue
			}
			if wantP := pr.ref(o.m, da, db, o.x.X.IsEmpty(), o.y.X.IsEmpty()); gotP != wantP {
				r.Violation("C02/predicate."+pr.name, "pair", pairCase{o.x.WKT, o.y.WKT, ""}, fmt.Sprintf("library %v, documented pattern on exact matrix %s (dims %d,%d) gives %v", gotP, o.m, da, db, wantP))
			}
		}
	}
	_ = c
}

// c02RelateMatches checks RelateMatches against its definition on every
// matrix over {F,0,1,2}^9 for a family of patterns, and malformed inputs.
func c02RelateMatches(r *engine.Run) {
	base := []string{"T*F**FFF*", "FF*FF****", "FT*******", "F**T*****", "F***T****", "T*****FF*", "*T****FF*", "***T**FF*", "****T*FF*",
		"T*F**F***", "*TF**F***", "**FT*F***", "**F*TF***", "T*T******", "T*****T**", "0********", "T*T***T**", "1*T***T**", "*********", "212101212"}
	pats := map[string]bool{}
	for _, b := range base {
		pats[b] = true
		if r.Thorough() {
			for i := 0; i < 9; i++ {
				for _, ch := range "TF*012" {
					q := []byte(b)
					q[i] = byte(ch)
					pats[string(q)] = true
				}
			}
		}
	}
	var plist []string
	for p := range pats {
		plist = append(plist, p)
	}
	const n = 262144
	sym := "F012"
	done := r.Parallel(n, func(i int) {
		var m [9]byte
		x := i
		for k := 0; k < 9; k++ {
			m[k] = sym[x&3]
			x >>= 2
		}
		ms := string(m[:])
		for _, p := range plist {
			got, err := geom.RelateMatches(ms, p)
			if err != nil || got != refMatch(ms, p) {
				r.Violation("C02/RelateMatches", "matches", map[string]string{"matrix": ms, "pattern": p}, fmt.Sprint(got, err))
			}
		}
		r.Transitions.Add(int64(len(plist)))
	})
	r.Evaluations.Add(n)
	r.States.Add(n)
	if done {
		r.Bound(fmt.Sprintf("RelateMatches: all 4^9 matrices × %d patterns", len(plist)))
	}
	for _, bad := range [][2]string{{"FFFFFFFF", "*********"}, {"FFFFFFFFF", "********"}, {"FFFFFFFF3", "*********"}, {"FFFFFFFFF", "********X"}, {"", ""}, {"FFFFFFFFFF", "**********"}, {"TFFFFFFFF", "*********"}} {
		if _, err := geom.RelateMatches(bad[0], bad[1]); err == nil {
			r.Violation("C02/RelateMatches.acceptsMalformed", "matches", map[string]string{"matrix": bad[0], "pattern": bad[1]}, "")
		}
	}
	r.Sample("matches", map[string]string{"matrix": "0F1FF0102", "pattern": "T*T***T**"})
}

func c02Main(r *engine.Run) {
	r.Rule = "ordered pairs of valid lattice geometries (3×3 alphabet of points, segments, paths, all simple polygons, Multi*, GeometryCollections with pairwise-disjoint members, empties of every type; 6×6 holes family; affine images): Relate in both orders and every named predicate compared with the DE-9IM read off the exact joint arrangement. non-trivial = pairs whose exact matrix is not the disjoint pattern; outcomes = distinct exact matrices seen"
	c02RelateMatches(r)
	level := 0
	if r.Thorough() {
		level = 1
	}
	alpha := BuildAlphabet(universe.Identity, level)
	var ops []Operand
	for _, o := range alpha.All() {
		if o.MembersDisjoint {
			ops = append(ops, o)
		}
	}
	n := len(ops)
	r.States.Add(int64(n))
	done := r.Parallel(n*n, func(k int) {
		i, j := k/n, k%n
		if i > j {
			return
		}
		c02Pair(r, ops[i], ops[j], true)
	})
	if done {
		r.Bound(fmt.Sprintf("all %d² ordered pairs of the 3×3 alphabet (level %d: %d points, %d segments, %d paths, %d polygons, %d multis, %d collections, %d empties)", n, level, len(alpha.Points), len(alpha.Segs), len(alpha.Paths), len(alpha.Polys), len(alpha.Multis), len(alpha.GCs), len(alpha.Empties)))
	}
	r.Sample("pair", pairCase{A: ops[n/2].WKT, B: ops[n-3].WKT})
	// holes family
	hf := []Operand{}
	for _, o := range HolesFamily(universe.Identity) {
		if o.MembersDisjoint {
			hf = append(hf, o)
		}
	}
	m := len(hf)
	done = r.Parallel(m*m, func(k int) {
		if k/m <= k%m {
			c02Pair(r, hf[k/m], hf[k%m], true)
		}
	})
	if done {
		r.Bound(fmt.Sprintf("all %d² ordered pairs of the 6×6 holes family", m))
	}
	r.Sample("pair", pairCase{A: hf[0].WKT, B: hf[4].WKT})
	{
		bigA := bigOperands(universe.Identity)
		var jobs [][2]Operand
		for _, sh := range [][2]float64{{0, 0}, {0.5, 0.5}, {1, 0}, {3, 2.5}, {7, 0}} {
			s := universe.Affine{A: 1, D: 1, TX: sh[0], TY: sh[1], Name: fmt.Sprintf("shift(%g,%g)", sh[0], sh[1])}
			bigB := bigOperands(s)
			for _, a := range bigA {
				for _, b := range bigB {
					jobs = append(jobs, [2]Operand{a, b})
				}
			}
			for _, b := range bigB {
				for i := 0; i < len(ops); i += len(ops)/25 + 1 {
					jobs = append(jobs, [2]Operand{ops[i], b})
				}
			}
		}
		if r.Parallel(len(jobs), func(k int) { c02Pair(r, jobs[k][0], jobs[k][1], true) }) {
			r.Bound(fmt.Sprintf("many-part operands × 5 translations × each other and a reduced alphabet: %d pairs", len(jobs)))
		}
	}
	{
		lvl := 0
		if r.Thorough() {
			lvl = 1
		}
		tj := TJunctionPairs(lvl)
		if r.Parallel(len(tj), func(k int) { c02Pair(r, tj[k][0], tj[k][1], true) }) {
			r.Bound(fmt.Sprintf("T-junction family: %d pairs (a vertex of B on the interior of a long edge of A at every integer position)", len(tj)))
		}
		cp := ConcurrentPairs(lvl)
		if r.Parallel(len(cp), func(k int) { c02Pair(r, cp[k][0], cp[k][1], k%4 == 0) }) {
			r.Bound(fmt.Sprintf("concurrent family: %d pairs with three edge interiors through one non-vertex lattice point", len(cp)))
		}
	}
	// chained: results of the set operations (single geometries or collections of pairwise
	// disjoint members) related to every operand of a reduced alphabet, clearance permitting
	{
		parts := 13
		if r.Thorough() {
			parts = 29
		}
		full := HolesFamily(universe.Identity)
		var chainA []Operand
		for _, o := range chainAlphabet(ops, full, parts) {
			if o.MembersDisjoint {
				chainA = append(chainA, o)
			}
		}
		var kept atomic.Int64
		if done, fed := chainResults(r, chainA, func(res Operand) {
			if res.G.IsGeometryCollection() && !flatDisjoint(flatten([]geom.Geometry{res.G})) {
				return
			}
			for _, c := range chainA {
				if !arrClearanceOK(oracle.NewPair(res.X, c.X).Arr, magnitude(res.X, c.X)) {
					continue
				}
				kept.Add(1)
				c02Pair(r, res, c, true)
			}
		}); done {
			r.Bound(fmt.Sprintf("chained: %d results of set operations on pairs of a %d-operand alphabet related to every operand of it (%d pairs kept by the clearance filter)", fed, len(chainA), kept.Load()))
		}
	}
	// star family: MultiLineStrings meeting at one node in every member order
	star, probes := StarFamily(universe.Identity, level), StarProbes(universe.Identity)
	done = r.Parallel(len(star), func(i int) {
		for _, p := range probes {
			c02Pair(r, star[i], p, i%5 == 0)
		}
	})
	if done {
		r.Bound(fmt.Sprintf("star family: %d MultiLineStrings (every ordered 2-,3-(,4-)tuple of members meeting at the centre) × %d probes", len(star), len(probes)))
	}
	r.Sample("pair", pairCase{A: star[len(star)/2].WKT, B: probes[0].WKT})
	// affine images (exact ones and general-position float ones) on a fixed stride of the pair list
	if r.Thorough() {
		// 4×4 lattice: a fixed stride of all pairs of the ≤4-vertex polygons, segments and paths
		l4 := Lattice4(universe.Identity)
		n4 := len(l4)
		const stride4 = 7
		if r.Parallel(n4*n4/stride4, func(k int) {
			kk := k * stride4
			i, j := kk/n4, kk%n4
			if i > j {
				i, j = j, i
			}
			_ = kk
			c02Pair(r, l4[i], l4[j], kk%4 == 0)
		}) {
			r.Bound(fmt.Sprintf("4×4 lattice alphabet (%d operands): every %d-th ordered pair", n4, stride4))
		}
	}
	c02Affine(r, level)
}

var c02ExactAffines = []universe.Affine{
	{A: 1, D: 1, TX: -7, TY: 1000, Name: "translate(-7,1000)"},
	{A: 128, D: 128, TX: -100, TY: 3, Name: "scale128"},
	{A: 0, B: -1, C: 1, D: 0, TX: 5, TY: 5, Name: "rot90"},
	{A: 1, B: 1, C: 0, D: 1, Name: "shear"},
	{A: -3, B: 0, C: 0, D: 2, TX: 1024, TY: -1024, Name: "reflect-stretch"},
}

// c02Affine: under an exact affine map the matrix must be the same as the
// oracle computes on the mapped operands (the oracle is re-run on the image, so
// this also covers non-lattice magnitudes).
func c02Affine(r *engine.Run, level int) {
	for _, t := range c02ExactAffines {
		alpha := BuildAlphabet(t, 0)
		var ops []Operand
		for _, o := range alpha.All() {
			if o.MembersDisjoint {
				ops = append(ops, o)
			}
		}
		n := len(ops)
		stride := 7
		if level == 1 {
			stride = 2
		}
		done := r.Parallel(n*n/stride, func(k int) {
			kk := k * stride
			i, j := kk/n, kk%n
			if i > j {
				i, j = j, i
			}
			c02Pair(r, ops[i], ops[j], level == 1)
		})
		if done {
			r.Bound(fmt.Sprintf("affine image %s: every %d-th pair of the reduced alphabet (%d operands)", t.Name, stride, n))
		}
	}
}

func parsePair(raw json.RawMessage) (Operand, Operand, error) {
	var c pairCase
	if err := json.Unmarshal(raw, &c); err != nil {
		return Operand{}, Operand{}, err
	}
	a, err := geom.UnmarshalWKT(c.A, geom.NoValidate{})
	if err != nil {
		return Operand{}, Operand{}, err
	}
	b, err := geom.UnmarshalWKT(c.B, geom.NoValidate{})
	if err != nil {
		return Operand{}, Operand{}, err
	}
	return mkOp(a, "replay"), mkOp(b, "replay"), nil
}

func c02Replay(r *engine.Run, sub string, raw json.RawMessage) error {
	if sub != "pair" {
		return fmt.Errorf("sub %q has no single-case replay; re-run the check", sub)
	}
	a, b, err := parsePair(raw)
	if err != nil {
		return err
	}
	c02Pair(r, a, b, true)
	return nil
}

func init() {
	engine.Register(&engine.Check{ID: "C02", Main: c02Main, Replay: c02Replay})
}

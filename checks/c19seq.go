package checks

import (
	"fmt"
	"math"
	"strings"

	"github.com/peterstace/simplefeatures/carto"
	"github.com/peterstace/simplefeatures/geom"

	"verif/engine"
)

// Sequence exploration of the (mutable) projection objects. The reference model of a projection
// object is its configuration record: the last value given to each setter. Every sequence of
// operations over a small alphabet (each setter with two argument values, Forward, Reverse) up to a
// depth bound is run on one live object; at every Forward/Reverse step the answer must be
// bit-identical to that of a fresh object configured with the model's record (setters applied in
// a fixed order, never-called setters left at their defaults). This decides that setters are
// independent of their order and of earlier uses, and that Forward/Reverse do not change state.

type c19SeqOp struct {
	name string
	slot int // setter slot (−1 for uses)
	arg  int // argument index for setters; 0 Forward, 1 Reverse for uses
}

type c19SeqProj struct {
	name    string
	fresh   func() proj
	setters []func(p proj, arg int) // by slot
}

func c19SeqProjs(R float64) []c19SeqProj {
	origins := []geom.XY{{X: 10, Y: 35}, {X: -120, Y: -20}}
	pars := [][2]float64{{20, 50}, {-35, -10}}
	return []c19SeqProj{
		{"AlbersEqualAreaConic", func() proj { return carto.NewAlbersEqualAreaConic(R) }, []func(proj, int){
			func(p proj, a int) { p.(*carto.AlbersEqualAreaConic).SetOrigin(origins[a]) },
			func(p proj, a int) { p.(*carto.AlbersEqualAreaConic).SetStandardParallels(pars[a][0], pars[a][1]) }}},
		{"EquidistantConic", func() proj { return carto.NewEquidistantConic(R) }, []func(proj, int){
			func(p proj, a int) { p.(*carto.EquidistantConic).SetOrigin(origins[a]) },
			func(p proj, a int) { p.(*carto.EquidistantConic).SetStandardParallels(pars[a][0], pars[a][1]) }}},
		{"LambertConformalConic", func() proj { return carto.NewLambertConformalConic(R) }, []func(proj, int){
			func(p proj, a int) { p.(*carto.LambertConformalConic).SetOrigin(origins[a]) },
			func(p proj, a int) { p.(*carto.LambertConformalConic).SetStandardParallels(pars[a][0], pars[a][1]) }}},
		{"AzimuthalEquidistant", func() proj { return carto.NewAzimuthalEquidistant(R) }, []func(proj, int){
			func(p proj, a int) { p.(*carto.AzimuthalEquidistant).SetCenter(origins[a]) }}},
		{"Orthographic", func() proj { return carto.NewOrthographic(R) }, []func(proj, int){
			func(p proj, a int) { p.(*carto.Orthographic).SetCenter(origins[a]) }}},
		{"Equirectangular", func() proj { return carto.NewEquirectangular(R) }, []func(proj, int){
			func(p proj, a int) { p.(*carto.Equirectangular).SetCentralMeridian(origins[a].X) },
			func(p proj, a int) { p.(*carto.Equirectangular).SetStandardParallels(pars[a][0]) }}},
		{"LambertCylindricalEqualArea", func() proj { return carto.NewLambertCylindricalEqualArea(R) }, []func(proj, int){
			func(p proj, a int) { p.(*carto.LambertCylindricalEqualArea).SetCentralMeridian(origins[a].X) }}},
		{"Sinusoidal", func() proj { return carto.NewSinusoidal(R) }, []func(proj, int){
			func(p proj, a int) { p.(*carto.Sinusoidal).SetCentralMeridian(origins[a].X) }}},
	}
}

func sameXYBits(a, b geom.XY) bool {
	eq := func(x, y float64) bool { return math.Float64bits(x) == math.Float64bits(y) || (x != x && y != y) }
	return eq(a.X, b.X) && eq(a.Y, b.Y)
}

func c19Sequences(r *engine.Run) {
	depth := 4
	if r.Thorough() {
		depth = 7
	}
	probe := geom.XY{X: 23.5, Y: 41.25}
	var states, steps int64
	for _, R := range []float64{1, 6371008.8} {
		for _, sp := range c19SeqProjs(R) {
			var ops []c19SeqOp
			for s := range sp.setters {
				for a := 0; a < 2; a++ {
					ops = append(ops, c19SeqOp{fmt.Sprintf("set%d(%d)", s, a), s, a})
				}
			}
			ops = append(ops, c19SeqOp{"Forward", -1, 0}, c19SeqOp{"Reverse", -1, 1})
			total := 1
			for i := 0; i < depth; i++ {
				total *= len(ops)
			}
			sp := sp
			done := r.Parallel(total, func(code int) {
				live := sp.fresh()
				model := make([]int, len(sp.setters)) // −1 = never set
				for i := range model {
					model[i] = -1
				}
				var trace []string
				c := code
				for step := 0; step < depth; step++ {
					op := ops[c%len(ops)]
					c /= len(ops)
					trace = append(trace, op.name)
					if op.slot >= 0 {
						sp.setters[op.slot](live, op.arg)
						model[op.slot] = op.arg
						continue
					}
					ref := sp.fresh()
					for s, a := range model {
						if a >= 0 {
							sp.setters[s](ref, a)
						}
					}
					var got, want geom.XY
					if op.arg == 0 {
						got, want = live.Forward(probe), ref.Forward(probe)
					} else {
						q := ref.Forward(probe)
						got, want = live.Reverse(q), ref.Reverse(q)
					}
					if !sameXYBits(got, want) {
						r.Violation("C19/sequence."+sp.name+"."+op.name, "sequence", map[string]interface{}{"projection": sp.name, "radius": R, "trace": strings.Join(trace, " ")},
							fmt.Sprintf("live object %v, fresh object with the same configuration %v", got, want))
						return
					}
				}
			})
			if !done {
				return
			}
			states += int64(total)
			steps += int64(total * depth)
		}
	}
	r.States.Add(states)
	r.Transitions.Add(steps)
	r.Evaluations.Add(steps)
	r.Bound(fmt.Sprintf("projection objects as state machines: every operation sequence of length %d over {each setter × 2 values, Forward, Reverse} on 8 projection types × 2 radii (%d sequences); every use compared bit-for-bit with a fresh object configured from the model record", depth, states))
}

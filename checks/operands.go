package checks

import (
	"sort"

	"github.com/peterstace/simplefeatures/geom"
	"verif/exact"
	"verif/oracle"
	"verif/universe"
)

// Operand is a valid geometry of the lattice universe with its exact model.
type Operand struct {
	G    geom.Geometry
	X    *exact.G
	WKT  string
	Kind string // point, seg, path, poly, multi, gc, empty, holes
	// MembersDisjoint: for collections, members are pairwise disjoint (so the
	// OGC interior/boundary is defined and C02 applies).
	MembersDisjoint bool
	Overlapping     bool // a GC whose members overlap
}

func mkOp(g geom.Geometry, kind string) Operand {
	return Operand{G: g, X: oracle.FromGeom(g), WKT: g.AsText(), Kind: kind, MembersDisjoint: true}
}

func lexLess(a, b universe.LPt) bool { return a.X < b.X || (a.X == b.X && a.Y < b.Y) }

func flatDisjoint(gs []geom.Geometry) bool {
	for i := range gs {
		for j := i + 1; j < len(gs); j++ {
			a, b := oracle.FromGeom(gs[i]), oracle.FromGeom(gs[j])
			if a.IsEmpty() || b.IsEmpty() {
				continue
			}
			p := oracle.NewPair(a, b)
			for _, in := range p.VIn {
				if in[0] && in[1] {
					return false
				}
			}
			for _, in := range p.EIn {
				if in[0] && in[1] {
					return false
				}
			}
			for _, in := range p.FIn {
				if in[0] && in[1] {
					return false
				}
			}
		}
	}
	return true
}

// Alphabet holds the lattice operand families by kind.
type Alphabet struct {
	Points, Segs, Paths, Polys, Multis, GCs, Empties, Holes []Operand
}

func (a *Alphabet) All() []Operand {
	var out []Operand
	for _, l := range [][]Operand{a.Empties, a.Points, a.Segs, a.Paths, a.Polys, a.Multis, a.GCs, a.Holes} {
		out = append(out, l...)
	}
	return out
}

// BuildAlphabet constructs the operand alphabet on the 3×3 lattice under the
// affine map t. level 0 = reduced (quick), 1 = full (thorough).
func BuildAlphabet(t universe.Affine, level int) *Alphabet {
	a := &Alphabet{}
	pts := universe.LatticePoints(3)
	for _, p := range pts {
		a.Points = append(a.Points, mkOp(t.Point(p).AsGeometry(), "point"))
	}
	var segs [][]universe.LPt
	for _, s := range universe.Paths(3, 2) {
		if lexLess(s[0], s[1]) {
			segs = append(segs, s)
		}
	}
	for _, s := range segs {
		a.Segs = append(a.Segs, mkOp(t.Line(s).AsGeometry(), "seg"))
	}
	for _, p := range universe.Paths(3, 3) {
		if len(p) != 3 {
			continue
		}
		// a path and its reverse are the same point set; keep one (thorough keeps both)
		if level == 0 && lexLess(p[2], p[0]) {
			continue
		}
		if level == 0 && (p[0].X+2*p[1].Y+p[2].X)%3 != 0 {
			continue // quick: a fixed third of them
		}
		a.Paths = append(a.Paths, mkOp(t.Line(p).AsGeometry(), "path"))
	}
	// a few longer paths: closed triangle, bow-tie, self-touching "6", zig-zag with collinear overlap
	for _, p := range [][]universe.LPt{
		{{0, 0}, {2, 0}, {1, 2}, {0, 0}},
		{{0, 0}, {2, 2}, {2, 0}, {0, 2}},
		{{0, 0}, {2, 0}, {2, 2}, {1, 0}},
		{{0, 0}, {2, 0}, {1, 0}, {1, 2}},
		{{0, 1}, {2, 1}, {2, 2}, {0, 2}, {0, 1}},
	} {
		a.Paths = append(a.Paths, mkOp(t.Line(p).AsGeometry(), "path"))
	}
	maxV := 9
	if level == 0 {
		maxV = 4
	}
	polys := universe.SimplePolygons(3, maxV)
	for _, p := range polys {
		a.Polys = append(a.Polys, mkOp(t.Polygon(p).AsGeometry(), "poly"))
	}
	// Multi*: point pairs, segment pairs (incl. sharing end points, crossing, overlapping), valid polygon pairs
	for i := 0; i < len(pts); i++ {
		for j := i + 1; j < len(pts); j += 1 + 2*(1-level) {
			a.Multis = append(a.Multis, mkOp(geom.NewMultiPoint([]geom.Point{t.Point(pts[i]), t.Point(pts[j])}).AsGeometry(), "multi"))
		}
	}
	a.Multis = append(a.Multis,
		mkOp(geom.NewMultiPoint([]geom.Point{t.Point(pts[4]), t.Point(pts[4])}).AsGeometry(), "multi"),
		mkOp(geom.NewMultiPoint([]geom.Point{t.Point(pts[0]), geom.NewEmptyPoint(geom.DimXY), t.Point(pts[8])}).AsGeometry(), "multi"),
		mkOp(geom.NewMultiPoint([]geom.Point{t.Point(pts[5]), geom.NewEmptyPoint(geom.DimXY), t.Point(pts[7])}).AsGeometry(), "multi"),
		mkOp(geom.NewMultiPoint([]geom.Point{geom.NewEmptyPoint(geom.DimXY), t.Point(pts[4])}).AsGeometry(), "multi"))
	segStep := 5
	if level == 1 {
		segStep = 2
	}
	for i := 0; i < len(segs); i += segStep {
		for j := i + 1; j < len(segs); j += segStep - 1 {
			a.Multis = append(a.Multis, mkOp(geom.NewMultiLineString([]geom.LineString{t.Line(segs[i]), t.Line(segs[j])}).AsGeometry(), "multi"))
		}
	}
	a.Multis = append(a.Multis, mkOp(geom.NewMultiLineString([]geom.LineString{t.Line(segs[3]), geom.LineString{}, t.Line([]universe.LPt{{0, 0}, {1, 1}, {2, 0}})}).AsGeometry(), "multi"))
	tris := universe.SimplePolygons(3, 3+level)
	triStep := 7
	if level == 1 {
		triStep = 3
	}
	for i := 0; i < len(tris); i += triStep {
		for j := i + 1; j < len(tris); j += triStep + 1 {
			mp := geom.NewMultiPolygon([]geom.Polygon{t.Polygon(tris[i]), t.Polygon(tris[j])})
			if ok, _ := oracle.Valid(mp.AsGeometry()); ok {
				a.Multis = append(a.Multis, mkOp(mp.AsGeometry(), "multi"))
			}
		}
	}
	// GeometryCollections over reduced member alphabets, flat and nested, with empties
	rp := []geom.Geometry{t.Point(pts[0]).AsGeometry(), t.Point(pts[4]).AsGeometry(), t.Point(pts[5]).AsGeometry()}
	rs := []geom.Geometry{}
	for _, i := range []int{0, 7, 13, 20, 27, 33} {
		rs = append(rs, t.Line(segs[i%len(segs)]).AsGeometry())
	}
	rs = append(rs, t.Line([]universe.LPt{{0, 2}, {1, 0}, {2, 2}}).AsGeometry())
	ry := []geom.Geometry{}
	for _, i := range []int{0, 11, 29, 47, 60, 75} {
		ry = append(ry, t.Polygon(tris[i%len(tris)]).AsGeometry())
	}
	ry = append(ry, t.Polygon([]universe.LPt{{0, 0}, {2, 0}, {2, 2}, {0, 2}, {0, 0}}).AsGeometry(),
		t.Polygon([]universe.LPt{{0, 0}, {1, 0}, {1, 1}, {0, 1}, {0, 0}}).AsGeometry(),
		t.Polygon([]universe.LPt{{1, 0}, {2, 0}, {2, 2}, {1, 2}, {1, 0}}).AsGeometry())
	addGC := func(ms ...geom.Geometry) {
		g := geom.NewGeometryCollection(ms).AsGeometry()
		o := mkOp(g, "gc")
		o.MembersDisjoint = flatDisjoint(flatten(ms))
		o.Overlapping = !o.MembersDisjoint
		a.GCs = append(a.GCs, o)
	}
	cats := [][]geom.Geometry{rp, rs, ry}
	for ci := range cats {
		for cj := ci; cj < len(cats); cj++ {
			for i, x := range cats[ci] {
				for j, y := range cats[cj] {
					if ci == cj && j <= i {
						continue
					}
					if level == 0 && (i+2*j+ci)%2 == 1 {
						continue
					}
					addGC(x, y)
				}
			}
		}
	}
	addGC(rp[1], geom.Polygon{}.AsGeometry())
	addGC(geom.LineString{}.AsGeometry(), ry[6], geom.NewEmptyPoint(geom.DimXY).AsGeometry())
	addGC(geom.NewGeometryCollection([]geom.Geometry{rp[0], rs[2]}).AsGeometry(), ry[7])
	addGC(geom.NewGeometryCollection([]geom.Geometry{geom.NewGeometryCollection([]geom.Geometry{ry[8]}).AsGeometry()}).AsGeometry(), ry[7], rs[6])
	addGC(ry[6], ry[7], rs[1], rp[2])
	addGC(geom.NewMultiPoint([]geom.Point{t.Point(pts[2]), t.Point(pts[6])}).AsGeometry(), rs[4])
	// nested collections with an empty member of a higher dimension than the non-empty content
	// (the dimension of a collection is that of its non-empty parts, at any nesting depth)
	eP, eL, eY := geom.Point{}.AsGeometry(), geom.LineString{}.AsGeometry(), geom.Polygon{}.AsGeometry()
	gcOf := func(ms ...geom.Geometry) geom.Geometry { return geom.NewGeometryCollection(ms).AsGeometry() }
	for _, content := range []geom.Geometry{rp[1], rs[6], rs[0], ry[6]} {
		for _, e := range []geom.Geometry{eP, eL, eY, geom.MultiPolygon{}.AsGeometry(), geom.MultiLineString{}.AsGeometry()} {
			addGC(gcOf(e, content))
			addGC(gcOf(content, e))
			addGC(gcOf(gcOf(e), content))
			addGC(gcOf(gcOf(gcOf(e, content))))
			addGC(e, gcOf(content))
		}
	}
	// repeated consecutive vertices (zero-length segments) in lines, rings and their multis
	rep := func(ps []universe.LPt, at int) []universe.LPt {
		out := append([]universe.LPt{}, ps[:at+1]...)
		out = append(out, ps[at])
		return append(out, ps[at+1:]...)
	}
	sqr := []universe.LPt{{0, 0}, {2, 0}, {2, 2}, {0, 2}, {0, 0}}
	tri := []universe.LPt{{0, 0}, {2, 0}, {0, 2}, {0, 0}}
	zig := []universe.LPt{{0, 2}, {1, 0}, {2, 2}}
	for at := 0; at < 3; at++ {
		a.Paths = append(a.Paths, mkOp(t.Line(rep(zig, at)).AsGeometry(), "path"))
		a.Polys = append(a.Polys, mkOp(t.Polygon(rep(sqr, at+1)).AsGeometry(), "poly"), mkOp(t.Polygon(rep(tri, at)).AsGeometry(), "poly"))
		a.Multis = append(a.Multis,
			mkOp(geom.NewMultiLineString([]geom.LineString{t.Line(rep(zig, at)), t.Line([]universe.LPt{{0, 0}, {0, 0}, {2, 0}})}).AsGeometry(), "multi"),
			mkOp(geom.NewMultiPolygon([]geom.Polygon{t.Polygon(rep([]universe.LPt{{0, 0}, {1, 0}, {1, 1}, {0, 1}, {0, 0}}, at+1)), t.Polygon(rep([]universe.LPt{{1, 1}, {2, 1}, {2, 2}, {1, 2}, {1, 1}}, at))}).AsGeometry(), "multi"))
	}
	// a repeated vertex at the centre of the lattice: the zero-length segment lies strictly inside
	// the envelopes of other operands' segments that it is not on
	vee := []universe.LPt{{0, 0}, {1, 1}, {1, 1}, {2, 0}}
	cap := []universe.LPt{{0, 2}, {1, 1}, {1, 1}, {1, 1}, {2, 2}}
	dart := []universe.LPt{{0, 0}, {2, 0}, {1, 1}, {1, 1}, {0, 2}, {0, 0}}
	a.Paths = append(a.Paths, mkOp(t.Line(vee).AsGeometry(), "path"), mkOp(t.Line(cap).AsGeometry(), "path"))
	a.Polys = append(a.Polys, mkOp(t.Polygon(dart).AsGeometry(), "poly"))
	a.Multis = append(a.Multis,
		mkOp(geom.NewMultiLineString([]geom.LineString{t.Line(vee)}).AsGeometry(), "multi"),
		mkOp(geom.NewMultiLineString([]geom.LineString{t.Line(cap), t.Line([]universe.LPt{{0, 0}, {0, 1}, {0, 1}})}).AsGeometry(), "multi"),
		mkOp(geom.NewMultiPolygon([]geom.Polygon{t.Polygon(dart)}).AsGeometry(), "multi"))
	// loops drawn by several open members (all end points cancel under the mod-2 rule: no boundary),
	// and a loop with a tail (two boundary points)
	for _, ms := range [][][]universe.LPt{
		{{{0, 0}, {2, 0}}, {{2, 0}, {0, 2}}, {{0, 2}, {0, 0}}},
		{{{0, 0}, {2, 0}, {2, 2}}, {{2, 2}, {0, 2}, {0, 0}}},
		{{{0, 0}, {1, 0}}, {{1, 0}, {1, 1}}, {{1, 1}, {0, 0}}, {{1, 1}, {2, 2}}},
	} {
		var ls []geom.LineString
		for _, m := range ms {
			ls = append(ls, t.Line(m))
		}
		a.Multis = append(a.Multis, mkOp(geom.NewMultiLineString(ls).AsGeometry(), "multi"))
	}
	// empties of every type
	for _, g := range []geom.Geometry{
		{}, geom.Point{}.AsGeometry(), geom.LineString{}.AsGeometry(), geom.Polygon{}.AsGeometry(),
		geom.MultiPoint{}.AsGeometry(), geom.MultiLineString{}.AsGeometry(), geom.MultiPolygon{}.AsGeometry(),
		geom.NewGeometryCollection([]geom.Geometry{geom.Point{}.AsGeometry(), geom.Polygon{}.AsGeometry()}).AsGeometry(),
		geom.NewMultiPoint([]geom.Point{{}}).AsGeometry(),
	} {
		a.Empties = append(a.Empties, mkOp(g, "empty"))
	}
	sort.SliceStable(a.GCs, func(i, j int) bool { return len(a.GCs[i].WKT) < len(a.GCs[j].WKT) })
	return a
}

func flatten(gs []geom.Geometry) []geom.Geometry {
	var out []geom.Geometry
	for _, g := range gs {
		if g.IsGeometryCollection() {
			out = append(out, flatten(oracle.Members(g))...)
		} else {
			out = append(out, g)
		}
	}
	return out
}

// HolesFamily: polygons with holes on a 6×6 lattice and the shapes that
// interact with the holes (fill them, nest in them, touch them), plus
// collections of overlapping pairs.
func HolesFamily(t universe.Affine) []Operand {
	sq := func(x0, y0, x1, y1 int) []universe.LPt {
		return []universe.LPt{{x0, y0}, {x1, y0}, {x1, y1}, {x0, y1}, {x0, y0}}
	}
	cw := func(r []universe.LPt) []universe.LPt {
		o := make([]universe.LPt, len(r))
		for i := range r {
			o[i] = r[len(r)-1-i]
		}
		return o
	}
	polys := []geom.Polygon{
		t.Polygon(sq(0, 0, 5, 5), cw(sq(1, 1, 4, 4))),                                 // donut
		t.Polygon(sq(0, 0, 5, 5), cw(sq(1, 1, 2, 2)), cw(sq(3, 3, 4, 4))),             // two holes
		t.Polygon(sq(0, 0, 5, 5), cw([]universe.LPt{{0, 0}, {3, 1}, {1, 3}, {0, 0}})), // hole touching the shell at a vertex
		t.Polygon(sq(0, 0, 5, 5), cw(sq(1, 1, 3, 3)), cw(sq(3, 3, 4, 4))),             // holes touching each other
		t.Polygon(sq(1, 1, 4, 4)),                                                     // exactly fills the donut hole
		t.Polygon(sq(2, 2, 3, 3)),                                                     // nested inside the hole
		t.Polygon(sq(0, 0, 3, 3)),                                                     // overlaps hole and ring
		t.Polygon(sq(2, 0, 3, 5)),                                                     // bar through everything
		t.Polygon(sq(1, 1, 2, 2)),                                                     // fills one small hole
		t.Polygon([]universe.LPt{{1, 1}, {4, 1}, {4, 4}, {1, 1}}),                     // half of the hole
		t.Polygon(sq(0, 0, 5, 5)),                                                     // the full square
		t.Polygon(sq(2, 2, 12, 12), cw(sq(3, 3, 11, 11))),                             // big thin frame overlapping
	}
	var out []Operand
	for _, p := range polys {
		out = append(out, mkOp(p.AsGeometry(), "holes"))
	}
	lines := []geom.LineString{
		t.Line([]universe.LPt{{0, 0}, {5, 5}}),
		t.Line([]universe.LPt{{1, 1}, {4, 1}, {4, 4}}),
		t.Line([]universe.LPt{{2, 2}, {3, 3}}),
		t.Line([]universe.LPt{{0, 2}, {5, 2}}),
		t.Line([]universe.LPt{{1, 0}, {1, 5}}),
	}
	for _, l := range lines {
		out = append(out, mkOp(l.AsGeometry(), "holes"))
	}
	for _, p := range []universe.LPt{{2, 2}, {1, 1}, {0, 0}, {1, 3}, {5, 5}, {3, 0}} {
		out = append(out, mkOp(t.Point(p).AsGeometry(), "holes"))
	}
	// collections of two (overlapping) polygons, and polygon + line/point
	for i := 0; i < len(polys); i++ {
		for j := i + 1; j < len(polys); j++ {
			ms := []geom.Geometry{polys[i].AsGeometry(), polys[j].AsGeometry()}
			o := mkOp(geom.NewGeometryCollection(ms).AsGeometry(), "holes")
			o.MembersDisjoint = flatDisjoint(ms)
			o.Overlapping = !o.MembersDisjoint
			out = append(out, o)
		}
	}
	for i := 0; i < 4; i++ {
		for j := range lines {
			ms := []geom.Geometry{polys[i].AsGeometry(), lines[j].AsGeometry()}
			o := mkOp(geom.NewGeometryCollection(ms).AsGeometry(), "holes")
			o.MembersDisjoint = flatDisjoint(ms)
			o.Overlapping = !o.MembersDisjoint
			out = append(out, o)
		}
	}
	mp := geom.NewMultiPolygon([]geom.Polygon{polys[0], polys[5]})
	out = append(out, mkOp(mp.AsGeometry(), "holes"))
	// MultiPolygons whose holed member is first / last / in the middle, the hole otherwise unoccupied
	// (what lies strictly inside the hole is nearest to the hole ring, not to any shell)
	far, far2 := t.Polygon(sq(7, 7, 9, 9)), t.Polygon(sq(-4, 0, -2, 2))
	for _, ms := range [][]geom.Polygon{{polys[0], far}, {far, polys[0]}, {far, polys[1], far2}, {{}, far2, polys[0]}} {
		out = append(out, mkOp(geom.NewMultiPolygon(ms).AsGeometry(), "holes"))
	}
	out = append(out, mkOp(geom.NewGeometryCollection([]geom.Geometry{lines[2].AsGeometry(), geom.NewMultiPolygon([]geom.Polygon{far, polys[0]}).AsGeometry()}).AsGeometry(), "holes"))
	out[len(out)-1].MembersDisjoint = true
	// the same overlapping pairs nested one level down, split over two nested collections, and next to a third member
	gc := func(ms ...geom.Geometry) geom.Geometry { return geom.NewGeometryCollection(ms).AsGeometry() }
	for _, pr := range [][2]int{{0, 10}, {0, 4}, {1, 6}, {3, 7}, {2, 10}, {0, 11}} {
		p, q := polys[pr[0]].AsGeometry(), polys[pr[1]].AsGeometry()
		for _, g := range []geom.Geometry{gc(gc(p, q)), gc(gc(p), gc(q)), gc(polys[5].AsGeometry(), gc(p, q)), gc(gc(gc(q, p)), lines[0].AsGeometry())} {
			o := mkOp(g, "holes")
			o.MembersDisjoint = false
			o.Overlapping = true
			out = append(out, o)
		}
	}
	return out
}

// StarFamily: MultiLineStrings whose members meet at the centre of the 3×3
// lattice 2, 3, 4 ways, as end points and as pass-through vertices, in every
// member order (the mod-2 boundary rule is order-independent; an
// implementation that toggles flags while it scans members need not be).
// level 0: every ordered triple over a pool of 8; level 1: pool of 14, ordered
// triples plus ordered quadruples over the pool of 8.
func StarFamily(t universe.Affine, level int) []Operand {
	c := universe.LPt{X: 1, Y: 1}
	pool := [][]universe.LPt{
		{c, {2, 1}}, {{1, 2}, c}, {c, {0, 1}}, {{0, 0}, c}, // spokes (both directions occur)
		{{0, 1}, c, {2, 1}}, {{1, 0}, c, {1, 2}}, // straight pass-throughs
		{{2, 2}, c, {2, 0}}, // elbow through the centre
		{c, {1, 0}},
		{{2, 2}, c}, {c, {0, 2}}, {{2, 0}, c},
		{{0, 0}, c, {2, 2}}, {{0, 1}, c, {1, 2}}, {c, {2, 1}, {2, 2}, c}, // diagonal pass-through, elbow, closed loop at the centre
	}
	n := 8
	if level == 1 {
		n = len(pool)
	}
	var out []Operand
	mk := func(idx ...int) {
		var ls []geom.LineString
		for _, i := range idx {
			ls = append(ls, t.Line(pool[i]))
		}
		out = append(out, mkOp(geom.NewMultiLineString(ls).AsGeometry(), "star"))
	}
	for i := 0; i < n; i++ {
		for j := 0; j < n; j++ {
			if i != j {
				mk(i, j)
			}
			for k := 0; k < n; k++ {
				if i != j && j != k && i != k {
					mk(i, j, k)
				}
			}
		}
	}
	if level == 1 {
		for i := 0; i < 8; i++ {
			for j := 0; j < 8; j++ {
				for k := 0; k < 8; k++ {
					for l := 0; l < 8; l++ {
						if i != j && i != k && i != l && j != k && j != l && k != l {
							mk(i, j, k, l)
						}
					}
				}
			}
		}
	}
	return out
}

// StarProbes are the operands the star family is related to.
func StarProbes(t universe.Affine) []Operand {
	var out []Operand
	for _, g := range []geom.Geometry{
		t.Point(universe.LPt{X: 1, Y: 1}).AsGeometry(),
		t.Point(universe.LPt{X: 2, Y: 1}).AsGeometry(),
		t.Line([]universe.LPt{{0, 2}, {1, 1}}).AsGeometry(),
		t.Line([]universe.LPt{{1, 0}, {1, 1}, {2, 1}}).AsGeometry(),
		t.Polygon([]universe.LPt{{1, 1}, {2, 1}, {2, 2}, {1, 2}, {1, 1}}).AsGeometry(),
		t.Polygon([]universe.LPt{{0, 0}, {2, 0}, {2, 2}, {0, 2}, {0, 0}}).AsGeometry(),
		geom.NewMultiPoint([]geom.Point{t.Point(universe.LPt{X: 1, Y: 1}), t.Point(universe.LPt{X: 0, Y: 1})}).AsGeometry(),
		{},
	} {
		out = append(out, mkOp(g, "probe"))
	}
	return out
}

// Lattice4 returns the 4×4-lattice alphabet used by the thorough tiers: every
// simple polygon with ≤4 vertices, every segment and every 3-vertex path with
// distinct end points (one direction), as operands.
func Lattice4(t universe.Affine) []Operand {
	var out []Operand
	for _, p := range universe.SimplePolygons(4, 4) {
		out = append(out, mkOp(t.Polygon(p).AsGeometry(), "poly4"))
	}
	for _, s := range universe.Paths(4, 2) {
		if lexLess(s[0], s[1]) {
			out = append(out, mkOp(t.Line(s).AsGeometry(), "seg4"))
		}
	}
	for i, s := range universe.Paths(4, 3) {
		if len(s) == 3 && lexLess(s[0], s[2]) && i%3 == 0 {
			out = append(out, mkOp(t.Line(s).AsGeometry(), "path4"))
		}
	}
	return out
}

// ConcurrentPairs: operand pairs in which three edge interiors pass through one lattice point that
// is a vertex of none of them, with directions whose crossing parameters are not dyadic (so the
// three pairwise float crossing points differ in the last place and must be snapped to one node).
// A is a MultiLineString of two segments or a triangle with one edge through the point; B is the
// third segment or the other two.
func ConcurrentPairs(level int) [][2]Operand {
	centres := []universe.LPt{{4, -2}, {1, 1}, {5, 0}, {0, 0}}
	// extents (a,b): the crossing parameter is a/(a+b); k·fl(a/k) ≠ a only when k = a+b is not of the
	// form 2^i+2^j (7, 11, 25, 49 here), which is what makes the three float crossing points differ
	exts := [][2]int{{1, 2}, {14, 11}, {3, 4}, {1, 48}, {5, 6}}
	dirs := []universe.LPt{{1, 0}, {0, 1}, {1, 1}, {1, -1}, {2, 1}, {1, -2}, {5, 9}, {3, -7}, {9, 5}, {7, 3}}
	if level == 0 {
		centres = centres[:2]
		exts = exts[:4]
		dirs = dirs[:7]
	}
	id := universe.Identity
	// every configuration is mapped by one of the 8 symmetries of the square (chosen by a running
	// index), so that the rounded crossing points fall on every side of the exact one: node snapping
	// looks at the 8 neighbouring buckets and each of them must matter for some member of the family
	symIdx := 0
	sym := func(p universe.LPt) universe.LPt {
		s := symIdx % 8
		if s&1 != 0 {
			p.X = -p.X
		}
		if s&2 != 0 {
			p.Y = -p.Y
		}
		if s&4 != 0 {
			p.X, p.Y = p.Y, p.X
		}
		return p
	}
	seg := func(c, d universe.LPt, e [2]int) []universe.LPt {
		return []universe.LPt{sym(universe.LPt{X: c.X - e[0]*d.X, Y: c.Y - e[0]*d.Y}), sym(universe.LPt{X: c.X + e[1]*d.X, Y: c.Y + e[1]*d.Y})}
	}
	var out [][2]Operand
	for _, c := range centres {
		for i := range dirs {
			for j := i + 1; j < len(dirs); j++ {
				for k := range dirs {
					if k == i || k == j {
						continue
					}
					for _, e1 := range exts {
						for _, e2 := range exts {
							for _, e3 := range exts {
								symIdx++
								s1, s2, s3 := seg(c, dirs[i], e1), seg(c, dirs[j], e2), seg(c, dirs[k], e3)
								a := geom.NewMultiLineString([]geom.LineString{id.Line(s1), id.Line(s2)}).AsGeometry()
								b := id.Line(s3).AsGeometry()
								out = append(out, [2]Operand{mkOp(a, "multi"), mkOp(b, "seg")})
								if k > j && e1 == e2 {
									// triangle with the edge s3 through the centre, apex on the left of it
									d := dirs[k]
									apex := sym(universe.LPt{X: c.X - 3*d.Y, Y: c.Y + 3*d.X})
									tri := id.Polygon([]universe.LPt{s3[0], s3[1], apex, s3[0]}).AsGeometry()
									out = append(out, [2]Operand{mkOp(tri, "poly"), mkOp(a, "multi")})
								}
							}
						}
					}
				}
			}
		}
	}
	return out
}

// TJunctionPairs: B ends (or has a vertex) exactly on the interior of a long edge of A, at every
// integer position of edges of length 22 and 26 — positions p/L that are not dyadic, so a touch
// point that is recomputed from the crossing formula instead of taken from the vertex comes out
// an ulp away from it. A is the square (as Polygon or as its boundary LineString); B is a segment
// arriving from outside, a segment leaving inwards, or a triangle standing on the edge.
func TJunctionPairs(level int) [][2]Operand {
	id := universe.Identity
	sizes := []int{22}
	if level > 0 {
		sizes = append(sizes, 26)
	}
	var out [][2]Operand
	for _, S := range sizes {
		ring := []universe.LPt{{0, 0}, {S, 0}, {S, S}, {0, S}, {0, 0}}
		ringCW := []universe.LPt{{0, 0}, {0, S}, {S, S}, {S, 0}, {0, 0}}
		as := []Operand{mkOp(id.Polygon(ring).AsGeometry(), "poly"), mkOp(id.Polygon(ringCW).AsGeometry(), "poly"), mkOp(id.Line(ring).AsGeometry(), "path")}
		for p := 2; p <= S-2; p++ {
			bs := []geom.Geometry{
				id.Line([]universe.LPt{{p, 0}, {p + 2, -5}}).AsGeometry(),                               // from outside, bottom edge
				id.Line([]universe.LPt{{p - 1, 4}, {p, 0}}).AsGeometry(),                                // from inside, ends on the bottom edge
				id.Line([]universe.LPt{{S + 4, p + 1}, {S, p}, {S + 4, p - 1}}).AsGeometry(),            // a vertex (not an end) on the right edge
				id.Polygon([]universe.LPt{{p, S}, {p + 1, S + 3}, {p - 1, S + 3}, {p, S}}).AsGeometry(), // triangle standing on the top edge, outside
				id.Polygon([]universe.LPt{{0, p}, {3, p - 1}, {3, p + 1}, {0, p}}).AsGeometry(),         // triangle inside, apex on the left edge
				id.Point(universe.LPt{X: p, Y: S}).AsGeometry(),
			}
			for bi, b := range bs {
				a := as[(p+bi)%len(as)]
				if level > 0 {
					for _, a := range as {
						out = append(out, [2]Operand{a, mkOp(b, "tj")})
					}
					continue
				}
				out = append(out, [2]Operand{a, mkOp(b, "tj")})
			}
		}
	}
	return out
}

package checks

import (
	"encoding/json"
	"fmt"
	"math"
	"sort"

	"github.com/peterstace/simplefeatures/geom"
	"verif/engine"
	"verif/exact"
	"verif/oracle"
	"verif/universe"
)

type ipt struct{ x, y int64 }

func icross(o, a, b ipt) int64 { return (a.x-o.x)*(b.y-o.y) - (a.y-o.y)*(b.x-o.x) }

// refHull is an independent (gift wrapping) exact hull of integer points:
// returns the distinct extreme points in counter-clockwise order starting at
// the lowest-leftmost one; collinear boundary points are not vertices.
func refHull(pts []ipt) []ipt {
	uniq := map[ipt]bool{}
	var ps []ipt
	for _, p := range pts {
		if !uniq[p] {
			uniq[p] = true
			ps = append(ps, p)
		}
	}
	if len(ps) <= 1 {
		return ps
	}
	start := ps[0]
	for _, p := range ps {
		if p.x < start.x || (p.x == start.x && p.y < start.y) {
			start = p
		}
	}
	hull := []ipt{start}
	cur := start
	for {
		var next ipt
		have := false
		for _, q := range ps {
			if q == cur {
				continue
			}
			if !have {
				next, have = q, true
				continue
			}
			c := icross(cur, next, q)
			d2 := func(a ipt) int64 { return (a.x-cur.x)*(a.x-cur.x) + (a.y-cur.y)*(a.y-cur.y) }
			// choose the most clockwise... we wrap counter-clockwise: q is better if it is to the right of cur->next, or collinear and farther
			if c < 0 || (c == 0 && d2(q) > d2(next)) {
				next = q
			}
		}
		if next == start {
			break
		}
		hull = append(hull, next)
		cur = next
		if len(hull) > len(ps)+1 {
			panic("refHull does not terminate")
		}
	}
	return hull
}

type hullCase struct {
	WKT  string `json:"wkt"`
	Note string `json:"note,omitempty"`
}

func ringCyclicEqual(a, b []ipt) bool {
	if len(a) != len(b) {
		return false
	}
	n := len(a)
	for _, rev := range []bool{false, true} {
		for s := 0; s < n; s++ {
			ok := true
			for i := 0; i < n && ok; i++ {
				j := (s + i) % n
				if rev {
					j = (s - i + 2*n) % n
				}
				ok = a[i] == b[j]
			}
			if ok {
				return true
			}
		}
	}
	return false
}

func c13Check(r *engine.Run, g geom.Geometry, pts []ipt, note string, rects bool) string {
	c := hullCase{WKT: g.AsText(), Note: note}
	bad := func(k, d string) { r.Violation("C13/"+k, "hull", c, d) }
	var h geom.Geometry
	r.Transitions.Add(1)
	r.Evaluations.Add(1)
	if p := engine.SafeCall(func() { h = g.ConvexHull() }); p != nil {
		bad("hull.panic", fmt.Sprint(p))
		return ""
	}
	want := refHull(pts)
	text := h.AsText()
	if h.CoordinatesType() != geom.DimXY {
		bad("hull.notXY", text)
	}
	switch {
	case len(want) == 0:
		if !h.IsEmpty() {
			bad("hull.emptyInput", text)
		}
		return text
	case len(want) == 1:
		if !h.IsPoint() || text != fmt.Sprintf("POINT(%d %d)", want[0].x, want[0].y) {
			bad("hull.singlePoint", text)
		}
	case len(want) == 2:
		ok := h.IsLineString()
		if ok {
			s := h.MustAsLineString().Coordinates()
			ok = s.Length() == 2
			if ok {
				a, b := s.GetXY(0), s.GetXY(1)
				e0 := ipt{int64(a.X), int64(a.Y)}
				e1 := ipt{int64(b.X), int64(b.Y)}
				ok = (e0 == want[0] && e1 == want[1]) || (e0 == want[1] && e1 == want[0])
			}
		}
		if !ok {
			bad("hull.collinear", fmt.Sprintf("%s, expected the segment %v", text, want))
		}
	default:
		if !h.IsPolygon() {
			bad("hull.type", text)
			return text
		}
		poly := h.MustAsPolygon()
		if poly.NumInteriorRings() != 0 || h.Validate() != nil {
			bad("hull.invalid", text)
			return text
		}
		s := poly.ExteriorRing().Coordinates()
		var got []ipt
		for i := 0; i+1 < s.Length(); i++ {
			xy := s.GetXY(i)
			got = append(got, ipt{int64(xy.X), int64(xy.Y)})
			if float64(int64(xy.X)) != xy.X || float64(int64(xy.Y)) != xy.Y {
				bad("hull.vertexNotAControlPoint", text)
				return text
			}
		}
		if !ringCyclicEqual(got, want) {
			bad("hull.vertices", fmt.Sprintf("%s, expected vertices %v", text, want))
			return text
		}
		// strict convexity, orientation consistent
		n := len(got)
		sign := int64(0)
		for i := 0; i < n; i++ {
			c := icross(got[i], got[(i+1)%n], got[(i+2)%n])
			if c == 0 || (sign != 0 && (c > 0) != (sign > 0)) {
				bad("hull.notStrictlyConvex", text)
				break
			}
			sign = c
		}
		// covers every control point
		ring := make([]exact.Pt, 0, n+1)
		for _, p := range got {
			ring = append(ring, exact.P(p.x, p.y))
		}
		ring = append(ring, ring[0])
		for _, p := range pts {
			if exact.InRing(exact.P(p.x, p.y), ring) == exact.Exterior {
				bad("hull.doesNotCover", fmt.Sprint(p))
				break
			}
		}
	}
	// idempotence
	var hh geom.Geometry
	if p := engine.SafeCall(func() { hh = h.ConvexHull() }); p != nil || hh.AsText() != text {
		bad("hull.notIdempotent", fmt.Sprint(p, hh.AsText()))
	}
	// taking a hull is a read: neither the hull just used as an operand nor the original input may change
	if h.AsText() != text {
		bad("hull.secondCallChangedItsOperand", h.AsText()+" was "+text)
	}
	if g.AsText() != c.WKT {
		bad("hull.changedItsOperand", g.AsText())
	}
	if rects && len(want) >= 1 {
		c13Rects(r, g, want, c)
	}
	return text
}

func c13Rects(r *engine.Run, g geom.Geometry, hull []ipt, c hullCase) {
	bad := func(k, d string) { r.Violation("C13/"+k, "hull", c, d) }
	for _, variant := range []string{"area", "width"} {
		var rect geom.Geometry
		r.Transitions.Add(1)
		if p := engine.SafeCall(func() {
			if variant == "area" {
				rect = geom.RotatedMinimumAreaBoundingRectangle(g)
			} else {
				rect = geom.RotatedMinimumWidthBoundingRectangle(g)
			}
		}); p != nil {
			bad("rect."+variant+".panic", fmt.Sprint(p))
			continue
		}
		if g.AsText() != c.WKT {
			bad("rect."+variant+".changedItsOperand", g.AsText())
		}
		if len(hull) < 3 {
			if rect.AsText() != g.ConvexHull().AsText() {
				bad("rect."+variant+".degenerateNotHull", rect.AsText())
			}
			continue
		}
		if !rect.IsPolygon() || rect.MustAsPolygon().ExteriorRing().Coordinates().Length() != 5 {
			bad("rect."+variant+".shape", rect.AsText())
			continue
		}
		s := rect.MustAsPolygon().ExteriorRing().Coordinates()
		var q [4]geom.XY
		for i := range q {
			q[i] = s.GetXY(i)
		}
		scale := 1.0
		for _, p := range hull {
			scale = math.Max(scale, math.Max(math.Abs(float64(p.x)), math.Abs(float64(p.y))))
		}
		tol := 1e-9 * scale
		// right angles and a parallelogram
		for i := 0; i < 4; i++ {
			a, b, cc := q[i], q[(i+1)%4], q[(i+2)%4]
			dot := (b.X-a.X)*(cc.X-b.X) + (b.Y-a.Y)*(cc.Y-b.Y)
			if math.Abs(dot) > 1e-9*scale*scale {
				bad("rect."+variant+".notRightAngled", rect.AsText())
				break
			}
		}
		// covers every hull vertex within tolerance: signed distance to each side has one sign
		side := func(a, b geom.XY, p ipt) float64 {
			l := math.Hypot(b.X-a.X, b.Y-a.Y)
			if l == 0 {
				return 0
			}
			return ((b.X-a.X)*(float64(p.y)-a.Y) - (b.Y-a.Y)*(float64(p.x)-a.X)) / l
		}
		orient := 0.0
		for i := 0; i < 4; i++ {
			orient += q[i].X*q[(i+1)%4].Y - q[(i+1)%4].X*q[i].Y
		}
		covered := true
		for _, p := range hull {
			for i := 0; i < 4; i++ {
				d := side(q[i], q[(i+1)%4], p)
				if orient < 0 {
					d = -d
				}
				if d < -tol {
					covered = false
				}
			}
		}
		if !covered {
			bad("rect."+variant+".doesNotCoverHull", rect.AsText())
		}
		// one side collinear with a hull edge
		aligned := false
		n := len(hull)
		for i := 0; i < n && !aligned; i++ {
			a, b := hull[i], hull[(i+1)%n]
			for k := 0; k < 4; k++ {
				if math.Abs(side(q[k], q[(k+1)%4], a)) <= tol && math.Abs(side(q[k], q[(k+1)%4], b)) <= tol {
					aligned = true
				}
			}
		}
		if !aligned {
			bad("rect."+variant+".noSideOnHullEdge", rect.AsText())
		}
		// minimality among edge-aligned rectangles (exact)
		var bestArea, bestW2 exact.R
		for i := 0; i < n; i++ {
			a, b := hull[i], hull[(i+1)%n]
			ux, uy := b.x-a.x, b.y-a.y
			var minU, maxU, minN, maxN int64
			for k, p := range hull {
				du := (p.x-a.x)*ux + (p.y-a.y)*uy
				dn := -(p.x-a.x)*uy + (p.y-a.y)*ux
				if k == 0 || du < minU {
					minU = du
				}
				if k == 0 || du > maxU {
					maxU = du
				}
				if k == 0 || dn < minN {
					minN = dn
				}
				if k == 0 || dn > maxN {
					maxN = dn
				}
			}
			l2 := ux*ux + uy*uy
			area := exact.Frac((maxU-minU)*(maxN-minN), l2) // (extentU/|u|)·(extentN/|u|)
			eu, en := (maxU-minU)*(maxU-minU), (maxN-minN)*(maxN-minN)
			if en < eu {
				eu = en
			}
			w2 := exact.Frac(eu, l2)
			if i == 0 || area.Lt(bestArea) {
				bestArea = area
			}
			if i == 0 || w2.Lt(bestW2) {
				bestW2 = w2
			}
		}
		s1 := math.Hypot(q[1].X-q[0].X, q[1].Y-q[0].Y)
		s2 := math.Hypot(q[2].X-q[1].X, q[2].Y-q[1].Y)
		if variant == "area" {
			if got, want := s1*s2, bestArea.Float(); math.Abs(got-want) > 1e-9*want {
				bad("rect.area.notMinimal", fmt.Sprintf("area %v, minimum over edge-aligned rectangles %v: %s", got, want, rect.AsText()))
			}
		} else {
			w := math.Min(s1, s2)
			if got, want := w*w, bestW2.Float(); math.Abs(got-want) > 1e-9*want {
				bad("rect.width.notMinimal", fmt.Sprintf("width² %v, minimum %v: %s", got, want, rect.AsText()))
			}
		}
	}
}

func mpOf(pts []ipt) geom.Geometry {
	var ps []geom.Point
	for _, p := range pts {
		ps = append(ps, geom.NewPointXY(float64(p.x), float64(p.y)))
	}
	return geom.NewMultiPoint(ps).AsGeometry()
}

func c13Families() map[string][]ipt {
	f := map[string][]ipt{}
	for _, n := range []int{6, 7, 13, 50, 200} {
		var col, rows, circ, dupx, manyCol []ipt
		for i := 0; i < n; i++ {
			col = append(col, ipt{int64(3 * i % 17), int64(2 * (3 * i % 17))})
			rows = append(rows, ipt{int64(i / 2), int64(i % 2 * 5)})
			a := 2 * math.Pi * float64(i) / float64(n)
			circ = append(circ, ipt{int64(math.Round(1000 * math.Cos(a))), int64(math.Round(1000 * math.Sin(a)))})
			dupx = append(dupx, []ipt{{0, 0}, {10, 0}, {10, 10}, {0, 10}, {5, 5}}[i%5])
			manyCol = append(manyCol, []ipt{{int64(i), 0}, {int64(n), int64(i)}, {int64(n - i), int64(n)}, {0, int64(n - i)}}[i%4])
		}
		f[fmt.Sprintf("collinear-%d", n)] = col
		f[fmt.Sprintf("two-rows-%d", n)] = rows
		f[fmt.Sprintf("circle-%d", n)] = circ
		f[fmt.Sprintf("duplicated-extremes-%d", n)] = dupx
		f[fmt.Sprintf("collinear-boundary-%d", n)] = manyCol
	}
	return f
}

func c13Main(r *engine.Run) {
	r.Rule = "point sets: every non-empty subset of the 3×3 lattice and every ≤5-subset of 4×4 (thorough: all 65 535 subsets of 4×4) as MultiPoint; every permutation of every ≤4-subset (thorough ≤5) of 3×3 with up to two duplicated members; 25 structured families of 6..200 points in natural, reversed and every rotated order; carried by every geometry type (all simple 3×3 polygons, paths, collections with empties); hull compared with an independent exact gift-wrapping hull (vertex set, strict convexity, cover, idempotence, order/multiplicity independence), rectangles with exact brute force over hull edges. non-trivial = inputs whose hull is a polygon with a collinear or duplicate input point"
	pts3 := universe.LatticePoints(3)
	pts4 := universe.LatticePoints(4)
	toI := func(ps []universe.LPt, mask int) []ipt {
		var o []ipt
		for i, p := range ps {
			if mask&(1<<i) != 0 {
				o = append(o, ipt{int64(p.X), int64(p.Y)})
			}
		}
		return o
	}
	// subsets
	var masks4 []int
	for m := 1; m < 1<<16; m++ {
		bits := 0
		for x := m; x > 0; x &= x - 1 {
			bits++
		}
		if r.Thorough() || bits <= 9 {
			masks4 = append(masks4, m)
		}
	}
	r.States.Add(int64(511 + len(masks4)))
	for m := 1; m < 512; m++ {
		p := toI(pts3, m)
		c13Check(r, mpOf(p), p, "subset of 3×3", true)
		if len(refHull(p)) >= 3 && len(p) > len(refHull(p)) {
			r.Nontrivial(fmt.Sprint("s3 ", m))
		}
	}
	if r.Parallel(len(masks4), func(i int) {
		p := toI(pts4, masks4[i])
		c13Check(r, mpOf(p), p, "subset of 4×4", true)
		if len(refHull(p)) >= 3 && len(p) > len(refHull(p)) {
			r.Nontrivial(fmt.Sprint("s4 ", masks4[i]))
		}
	}) {
		r.Bound(fmt.Sprintf("all 511 subsets of 3×3 and %d subsets of 4×4 as MultiPoints, with both rotated rectangles", len(masks4)))
	}
	// 5×5 lattice (slopes k/4, longer collinear runs): every subset of ≤4 (thorough ≤6) points
	{
		pts5 := universe.LatticePoints(5)
		maxB := 4
		if r.Thorough() {
			maxB = 6
		}
		var sets [][]ipt
		var gen func(start int, cur []ipt)
		gen = func(start int, cur []ipt) {
			if len(cur) >= 3 {
				sets = append(sets, append([]ipt(nil), cur...))
			}
			if len(cur) == maxB {
				return
			}
			for i := start; i < len(pts5); i++ {
				gen(i+1, append(cur, ipt{int64(pts5[i].X), int64(pts5[i].Y)}))
			}
		}
		gen(0, nil)
		r.States.Add(int64(len(sets)))
		if r.Parallel(len(sets), func(i int) {
			c13Check(r, mpOf(sets[i]), sets[i], "subset of 5×5", i%5 == 0)
		}) {
			r.Bound(fmt.Sprintf("all %d subsets of 3..%d points of the 5×5 lattice as MultiPoints (rotated rectangles on every fifth)", len(sets), maxB))
		}
	}
	r.Sample("hull", hullCase{WKT: mpOf(toI(pts4, 0x8421|0x0660)).AsText(), Note: "subset of 4×4"})
	// permutations with duplicates
	maxK := 4
	if r.Thorough() {
		maxK = 5
	}
	var sub []int
	for m := 1; m < 512; m++ {
		bits := 0
		for x := m; x > 0; x &= x - 1 {
			bits++
		}
		if bits >= 2 && bits <= maxK {
			sub = append(sub, m)
		}
	}
	if r.Parallel(len(sub), func(i int) {
		base := toI(pts3, sub[i])
		var multis [][]ipt
		multis = append(multis, base)
		for a := range base {
			multis = append(multis, append(append([]ipt{}, base...), base[a]))
			for b := a; b < len(base); b++ {
				if len(base) <= 3 {
					multis = append(multis, append(append([]ipt{}, base...), base[a], base[b]))
				}
			}
		}
		ref := ""
		for _, ms := range multis {
			perm := append([]ipt{}, ms...)
			sort.Slice(perm, func(x, y int) bool { return perm[x].x < perm[y].x || (perm[x].x == perm[y].x && perm[x].y < perm[y].y) })
			// all distinct permutations (next-permutation on the sorted multiset)
			for {
				t := c13Check(r, mpOf(perm), perm, "permutation/multiplicity", false)
				if ref == "" {
					ref = t
				} else if t != "" && t != ref {
					r.Violation("C13/hull.dependsOnOrderOrMultiplicity", "hull", hullCase{WKT: mpOf(perm).AsText()}, t+" vs "+ref)
				}
				// next permutation
				k := len(perm) - 2
				less := func(a, b ipt) bool { return a.x < b.x || (a.x == b.x && a.y < b.y) }
				for k >= 0 && !less(perm[k], perm[k+1]) {
					k--
				}
				if k < 0 {
					break
				}
				l := len(perm) - 1
				for !less(perm[k], perm[l]) {
					l--
				}
				perm[k], perm[l] = perm[l], perm[k]
				for a, b := k+1, len(perm)-1; a < b; a, b = a+1, b-1 {
					perm[a], perm[b] = perm[b], perm[a]
				}
			}
		}
	}) {
		r.Bound(fmt.Sprintf("every distinct permutation of every 2..%d-subset of 3×3 with up to two duplicated members (%d base sets)", maxK, len(sub)))
	}
	// structured families, every rotation of the order
	fams := c13Families()
	var names []string
	for k := range fams {
		names = append(names, k)
	}
	sort.Strings(names)
	if r.Parallel(len(names), func(i int) {
		base := fams[names[i]]
		ref := ""
		n := len(base)
		step := 1
		if n > 60 && !r.Thorough() {
			step = 7
		}
		for rot := 0; rot < n; rot += step {
			for _, rev := range []bool{false, true} {
				ps := make([]ipt, n)
				for k := range ps {
					j := (k + rot) % n
					if rev {
						j = (rot - k + 2*n) % n
					}
					ps[k] = base[j]
				}
				t := c13Check(r, mpOf(ps), ps, names[i], rot == 0)
				if ref == "" {
					ref = t
				} else if t != ref {
					r.Violation("C13/hull.dependsOnOrderOrMultiplicity", "hull", hullCase{WKT: mpOf(ps).AsText(), Note: names[i]}, t+" vs "+ref)
				}
			}
		}
		r.Nontrivial(names[i])
	}) {
		r.Bound(fmt.Sprintf("%d structured families (collinear, two rows, circle, duplicated extremes, collinear boundary points; 6..200 points) × every rotation × reversal", len(names)))
	}
	// other carriers
	id := universe.Identity
	polys := universe.SimplePolygons(3, 9)
	paths := universe.Paths(3, 3)
	lp := func(ps []universe.LPt) []ipt {
		var o []ipt
		for _, p := range ps {
			o = append(o, ipt{int64(p.X), int64(p.Y)})
		}
		return o
	}
	for i, p := range polys {
		c13Check(r, id.Polygon(p).AsGeometry(), lp(p), "polygon", i%5 == 0 || len(p) <= 5)
		// the same ring wound clockwise and started elsewhere
		c13Check(r, id.Polygon(rotateRing(p, 1, true)).AsGeometry(), lp(p), "polygon (clockwise)", i%5 == 0 || len(p) <= 5)
	}
	for i, p := range paths {
		c13Check(r, id.Line(p).AsGeometry(), lp(p), "linestring", i%5 == 0)
	}
	for i := 0; i+1 < len(polys); i += 3 {
		a, b := polys[i], paths[i%len(paths)]
		gc := geom.NewGeometryCollection([]geom.Geometry{geom.Polygon{}.AsGeometry(), id.Polygon(a).AsGeometry(), geom.NewEmptyPoint(geom.DimXY).AsGeometry(),
			geom.NewMultiLineString([]geom.LineString{{}, id.Line(b)}).AsGeometry(), geom.NewMultiPoint([]geom.Point{{}, geom.NewPointXY(7, -3)}).AsGeometry()}).AsGeometry()
		c13Check(r, gc, append(append(lp(a), lp(b)...), ipt{7, -3}), "collection with empties", true)
		mp := geom.NewMultiPolygon([]geom.Polygon{id.Polygon(a), {}}).AsGeometry()
		c13Check(r, mp, lp(a), "multipolygon with empty", false)
	}
	// several members, one of them small and strictly inside the overall envelope but outside the
	// hull of the others: a big right triangle in each of its 4 orientations (and two of them
	// together) plus a unit square at every lattice position of an 11×11 grid that keeps it apart
	// from the triangle; as MultiPolygon (both member orders), MultiLineString of the rings, and a
	// collection. Also LineStrings that backtrack along themselves (the tip is a hull vertex).
	nm := 0
	tris := [][]universe.LPt{{{0, 0}, {10, 0}, {0, 10}, {0, 0}}, {{10, 0}, {10, 10}, {0, 0}, {10, 0}}, {{10, 10}, {0, 10}, {10, 0}, {10, 10}}, {{0, 10}, {0, 0}, {10, 10}, {0, 10}}}
	for ti, tri := range tris {
		for x := 0; x <= 9; x++ {
			for y := 0; y <= 9; y++ {
				sq := []universe.LPt{{x, y}, {x + 1, y}, {x + 1, y + 1}, {x, y + 1}, {x, y}}
				mp := geom.NewMultiPolygon([]geom.Polygon{id.Polygon(tri), id.Polygon(sq)})
				if mp.Validate() != nil {
					continue
				}
				pts := append(lp(tri), lp(sq)...)
				nm++
				c13Check(r, mp.AsGeometry(), pts, "triangle and a small square", (x+y+ti)%4 == 0)
				c13Check(r, geom.NewMultiPolygon([]geom.Polygon{id.Polygon(sq), id.Polygon(tri)}).AsGeometry(), pts, "small square and triangle", false)
				if (x+y)%3 == 0 {
					c13Check(r, geom.NewMultiLineString([]geom.LineString{id.Line(tri), id.Line(sq)}).AsGeometry(), pts, "rings as MultiLineString", false)
					c13Check(r, geom.NewGeometryCollection([]geom.Geometry{id.Polygon(sq).AsGeometry(), id.Point(universe.LPt{X: 5, Y: 5}).AsGeometry(), id.Polygon(tri).AsGeometry()}).AsGeometry(),
						append(pts, ipt{5, 5}), "collection of both", false)
				}
			}
		}
	}
	for _, l := range [][]universe.LPt{{{1, 1}, {7, 3}, {4, 2}, {3, 9}}, {{0, 0}, {6, 0}, {3, 0}, {3, 4}}, {{0, 0}, {4, 4}, {0, 0}, {1, 5}}, {{2, 2}, {2, 8}, {2, 5}, {9, 5}, {5, 5}, {5, 0}}} {
		c13Check(r, id.Line(l).AsGeometry(), lp(l), "backtracking linestring", true)
		c13Check(r, geom.NewGeometryCollection([]geom.Geometry{id.Line(l).AsGeometry()}).AsGeometry(), lp(l), "backtracking linestring in a collection", false)
		nm++
	}
	r.Bound(fmt.Sprintf("multi-member carriers: %d (a triangle in 4 orientations with a unit square at every position apart from it, as MultiPolygon in both orders / MultiLineString / collection; backtracking LineStrings)", nm))
	for _, e := range BuildAlphabet(universe.Identity, 0).Empties {
		c13Check(r, e.G, nil, "empty", true)
	}
	r.Bound(fmt.Sprintf("carriers: all %d simple 3×3 polygons, %d paths, collections and multis with empty members, every empty geometry", len(polys), len(paths)))
	// general-position floats: covering claims within tolerance
	co, si := 0.955336489125606, 0.29552020666133955
	for _, sc := range []float64{1e-3, 1, 1e6} {
		for m := 7; m < 1<<16; m += 97 {
			p := toI(pts4, m)
			var ps []geom.Point
			for _, q := range p {
				ps = append(ps, geom.NewPointXY(sc*(co*float64(q.x)-si*float64(q.y))+1e3*sc, sc*(si*float64(q.x)+co*float64(q.y))))
			}
			g := geom.NewMultiPoint(ps).AsGeometry()
			var h, ra, rw geom.Geometry
			if pn := engine.SafeCall(func() {
				h = g.ConvexHull()
				ra = geom.RotatedMinimumAreaBoundingRectangle(g)
				rw = geom.RotatedMinimumWidthBoundingRectangle(g)
			}); pn != nil {
				r.Violation("C13/float.panic", "hull", hullCase{WKT: g.AsText()}, fmt.Sprint(pn))
				continue
			}
			r.Evaluations.Add(1)
			if h.Validate() != nil {
				r.Violation("C13/float.hullInvalid", "hull", hullCase{WKT: g.AsText()}, h.AsText())
				continue
			}
			hx := oracle.NewFG(oracle.FromGeom(h))
			tol := 1e-9 * sc * 1e3
			for _, cover := range []geom.Geometry{h, ra, rw} {
				fx := hx
				if cover.AsText() != h.AsText() {
					fx = oracle.NewFG(oracle.FromGeom(cover))
				}
				for _, pt := range ps {
					xy, _ := pt.XY()
					if d := fx.Dist(exact.PF(xy.X, xy.Y)); d > tol {
						r.Violation("C13/float.doesNotCover", "hull", hullCase{WKT: g.AsText()}, fmt.Sprintf("%v is %g away from %s", xy, d, cover.AsText()))
						break
					}
				}
			}
		}
	}
	r.Bound("general-position float images (rotation 0.3 rad × scale {1e-3,1,1e6}) of every 97th subset of 4×4: hull valid, hull and both rectangles cover every input point within 1e-9 × magnitude")
}

func c13Replay(r *engine.Run, sub string, raw json.RawMessage) error {
	var c hullCase
	if err := json.Unmarshal(raw, &c); err != nil {
		return err
	}
	g, err := geom.UnmarshalWKT(c.WKT, geom.NoValidate{})
	if err != nil {
		return err
	}
	s := g.DumpCoordinates()
	var pts []ipt
	for i := 0; i < s.Length(); i++ {
		xy := s.GetXY(i)
		pts = append(pts, ipt{int64(xy.X), int64(xy.Y)})
	}
	c13Check(r, g, pts, c.Note, true)
	return nil
}

func init() {
	engine.Register(&engine.Check{ID: "C13", Main: c13Main, Replay: c13Replay})
}

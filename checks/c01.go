package checks

import (
	"encoding/json"
	"fmt"
	"math"
	"sync/atomic"

	"github.com/peterstace/simplefeatures/geom"
	"verif/engine"
	"verif/exact"
	"verif/oracle"
	"verif/refcodec"
	"verif/universe"
)

type setopCase struct {
	Op string   `json:"op"`
	A  string   `json:"a"`
	B  string   `json:"b,omitempty"`
	L  []string `json:"list,omitempty"`
}

// magnitude: the largest absolute ordinate of the operands — the scale every tolerance is relative
// to. (It used to be floored at 1, which made every tolerance comparison vacuous for the float
// images at 1e-100; see DESIGN §9.19.)
func magnitude(gs ...*exact.G) float64 {
	m := 0.0
	upd := func(p exact.Pt) {
		x, y := p.Floats()
		m = math.Max(m, math.Max(math.Abs(x), math.Abs(y)))
	}
	for _, g := range gs {
		for _, p := range g.Points {
			upd(p)
		}
		for _, l := range g.Lines {
			for _, p := range l {
				upd(p)
			}
		}
		for _, y := range g.Polys {
			for _, r := range y.Rings {
				for _, p := range r {
					upd(p)
				}
			}
		}
	}
	return m
}

func integerCoords(g geom.Geometry) bool {
	s := g.DumpCoordinates()
	for i := 0; i < s.Length(); i++ {
		xy := s.GetXY(i)
		if xy.X != math.Trunc(xy.X) || xy.Y != math.Trunc(xy.Y) {
			return false
		}
	}
	return true
}

// dimParts splits a result by dimension, checking the canonical shape on the way.
func dimParts(res geom.Geometry) (areal, lineal, points []geom.Geometry, shapeErr string) {
	classify := func(g geom.Geometry) int {
		switch g.Type() {
		case geom.TypePolygon, geom.TypeMultiPolygon:
			return 2
		case geom.TypeLineString, geom.TypeMultiLineString:
			return 1
		case geom.TypePoint, geom.TypeMultiPoint:
			return 0
		}
		return -1
	}
	put := func(g geom.Geometry) {
		switch classify(g) {
		case 2:
			areal = append(areal, g)
		case 1:
			lineal = append(lineal, g)
		case 0:
			points = append(points, g)
		}
	}
	if !res.IsGeometryCollection() {
		if res.IsEmpty() {
			shapeErr = "empty result that is not the empty GeometryCollection: " + res.AsText()
		}
		switch res.Type() {
		case geom.TypeMultiPoint, geom.TypeMultiLineString, geom.TypeMultiPolygon:
			if len(oracle.Members(res)) < 2 {
				shapeErr = "Multi* with fewer than two members"
			}
			for _, m := range oracle.Members(res) {
				if m.IsEmpty() {
					shapeErr = "empty member in result"
				}
			}
		}
		put(res)
		return
	}
	ms := oracle.Members(res)
	if len(ms) == 0 {
		return
	}
	last := 3
	dims := map[int]bool{}
	for _, m := range ms {
		d := classify(m)
		if d < 0 {
			shapeErr = "nested collection in result"
			continue
		}
		if m.IsEmpty() {
			shapeErr = "empty member in result"
		}
		if d > last {
			shapeErr = "members not ordered areal, lineal, point"
		}
		last = d
		dims[d] = true
		put(m)
	}
	if len(dims) < 2 {
		shapeErr = "GeometryCollection although only one dimension is present"
	}
	return
}

// c01Check compares one result with the exact answer.
func c01Check(r *engine.Run, p *oracle.Pair, want *oracle.SetOp, res geom.Geometry, err error, c setopCase, mag float64) {
	r.Evaluations.Add(1)
	key := func(s string) string { return "C01/" + c.Op + "." + s }
	if err != nil {
		r.Violation(key("error"), "setop", c, err.Error())
		return
	}
	if verr := res.Validate(); verr != nil {
		r.Violation(key("invalidResult"), "setop", c, verr.Error())
		return
	}
	// the definitional validity oracle is exact, so it is only meaningful (and
	// affordable) when the result has no rounded vertices
	if integerCoords(res) {
		if ok, why := oracle.Valid(res); !ok {
			r.Violation(key("invalidResult(oracle)"), "setop", c, why+" "+res.AsText())
			return
		}
	}
	if res.CoordinatesType() != geom.DimXY {
		r.Violation(key("notXY"), "setop", c, res.AsText())
	}
	tol := 1e-9 * mag
	rx := oracle.FromGeom(res)
	fg := oracle.NewFG(rx)
	arr := p.Arr
	for f := range arr.F {
		in, ok := fg.InArea(arr.F[f].Probe, tol)
		if !ok {
			skippedProbes.Add(1)
			continue
		}
		if in != want.FSel[f] {
			r.Violation(key("membership.face"), "setop", c, fmt.Sprintf("probe %v: in result %v, exact %v; result %s", arr.F[f].Probe, in, want.FSel[f], res.AsText()))
			return
		}
	}
	for e := range arr.E {
		d := fg.Dist(arr.E[e].Mid)
		if (d <= tol) != want.ESel[e] {
			r.Violation(key("membership.edge"), "setop", c, fmt.Sprintf("edge midpoint %v: distance to result %g, exact membership %v; result %s", arr.E[e].Mid, d, want.ESel[e], res.AsText()))
			return
		}
	}
	for v := range arr.V {
		d := fg.Dist(arr.V[v])
		if (d <= tol) != want.VSel[v] {
			r.Violation(key("membership.vertex"), "setop", c, fmt.Sprintf("vertex %v: distance to result %g, exact membership %v; result %s", arr.V[v], d, want.VSel[v], res.AsText()))
			return
		}
	}
	areal, lineal, points, shapeErr := dimParts(res)
	if shapeErr != "" {
		r.Violation(key("shape"), "setop", c, shapeErr+": "+res.AsText())
	}
	var area, length float64
	npts := 0
	for _, g := range areal {
		area += g.Area()
	}
	for _, g := range lineal {
		length += g.Length()
	}
	for _, g := range points {
		if g.IsPoint() {
			npts++
		} else {
			npts += g.MustAsMultiPoint().NumPoints()
		}
	}
	if wa := want.Area.Float(); math.Abs(area-wa) > 1e-9*mag*mag {
		r.Violation(key("area"), "setop", c, fmt.Sprintf("area %v, exact %v; result %s", area, wa, res.AsText()))
	}
	if math.Abs(length-want.Length) > 1e-9*mag {
		r.Violation(key("length"), "setop", c, fmt.Sprintf("lineal length %v, exact %v; result %s", length, want.Length, res.AsText()))
	}
	if npts != want.Points {
		r.Violation(key("points"), "setop", c, fmt.Sprintf("%d isolated points, exact %d; result %s", npts, want.Points, res.AsText()))
	}
	if res.IsEmpty() != (want.Area.IsZero() && want.Length == 0 && want.Points == 0) {
		r.Violation(key("emptiness"), "setop", c, res.AsText())
	}
}

var skippedProbes, zmCounter atomic.Int64

// withZM gives every vertex a Z and/or M value that varies along the geometry.
func withZM(g geom.Geometry, ct geom.CoordinatesType) geom.Geometry {
	h := g.ForceCoordinatesType(ct)
	n := refcodec.Describe(h)
	k := 0.0
	var walk func(n *refcodec.Node)
	walk = func(n *refcodec.Node) {
		for i := range n.Coords {
			for j := 2; j < len(n.Coords[i]); j++ {
				k++
				n.Coords[i][j] = k
			}
		}
		if n.T == geom.TypePolygon {
			for i := range n.Kids { // keep rings closed in Z/M too
				walk(&n.Kids[i])
				c := n.Kids[i].Coords
				if len(c) > 1 {
					c[len(c)-1] = append([]float64{}, c[0]...)
				}
			}
			return
		}
		for i := range n.Kids {
			walk(&n.Kids[i])
		}
	}
	walk(&n)
	return rebuild(n)
}

type binop struct {
	name string
	fn   func(a, b geom.Geometry) (geom.Geometry, error)
	op   func(a, b bool) bool
	swap bool
}

var c01Ops = []binop{
	{"Union", geom.Union, func(a, b bool) bool { return a || b }, false},
	{"Union(b,a)", geom.Union, func(a, b bool) bool { return a || b }, true},
	{"Intersection", geom.Intersection, func(a, b bool) bool { return a && b }, false},
	{"Intersection(b,a)", geom.Intersection, func(a, b bool) bool { return a && b }, true},
	{"Difference", geom.Difference, func(a, b bool) bool { return a && !b }, false},
	{"Difference(b,a)", geom.Difference, func(a, b bool) bool { return b && !a }, true},
	{"SymmetricDifference", geom.SymmetricDifference, func(a, b bool) bool { return a != b }, false},
	{"SymmetricDifference(b,a)", geom.SymmetricDifference, func(a, b bool) bool { return a != b }, true},
}

func c01Pair(r *engine.Run, a, b Operand) { c01PairGP(r, a, b, false) }

// arrClearanceOK is the property's general-position clause: every vertex of
// the joint arrangement (input vertices and crossing points) is at least
// 2e-6 × magnitude away from every atomic edge it is not an end point of. The
// decision is made on float images of the exact vertices; the factor 2 over
// the property's 1e-6 absorbs their rounding, so kept cases are in the domain.
func arrClearanceOK(arr *exact.Arr, mag float64) bool {
	lim := 2e-6 * mag
	vs := make([][2]float64, len(arr.V))
	for i, v := range arr.V {
		vs[i][0], vs[i][1] = v.X.Approx(), v.Y.Approx()
	}
	for i, v := range vs {
		for j := i + 1; j < len(vs); j++ {
			if math.Hypot(v[0]-vs[j][0], v[1]-vs[j][1]) < lim {
				return false
			}
		}
		for _, e := range arr.E {
			if e.U == i || e.V == i {
				continue
			}
			if oracle.DistPtSegF(v[0], v[1], vs[e.U], vs[e.V]) < lim {
				return false
			}
		}
	}
	return true
}

var gpKept, gpDropped atomic.Int64

func c01PairGP(r *engine.Run, a, b Operand, needClearance bool) {
	p := oracle.NewPair(a.X, b.X)
	mag := magnitude(a.X, b.X)
	if needClearance {
		if !arrClearanceOK(p.Arr, mag) {
			gpDropped.Add(1)
			return
		}
		gpKept.Add(1)
	}
	interacting := false
	for i := range p.VIn {
		if p.VIn[i][0] && p.VIn[i][1] {
			interacting = true
		}
	}
	if interacting {
		r.Nontrivial(a.WKT + "|" + b.WKT)
	}
	areas := map[string]float64{}
	for _, o := range c01Ops {
		x, y := a, b
		if o.swap {
			x, y = b, a
		}
		c := setopCase{Op: o.name, A: a.WKT, B: b.WKT}
		var res geom.Geometry
		var err error
		r.Transitions.Add(1)
		if pnc := engine.SafeCall(func() { res, err = o.fn(x.G, y.G) }); pnc != nil {
			r.Violation("C01/"+o.name+".panic", "setop", c, fmt.Sprint(pnc))
			continue
		}
		want := p.SetOp(o.op)
		c01Check(r, p, want, res, err, c, mag)
		if err == nil {
			areas[o.name] = res.Area()
		}
	}
	// Z/M-carrying operands: set operations are defined on XY only, so the result must be the
	// same XY geometry whatever Z/M the operands carry (first operand, second operand, both)
	if zmCounter.Add(1)%4 == 0 {
		for _, o := range c01Ops[:8:8] {
			if o.swap {
				continue
			}
			base, berr := o.fn(a.G, b.G)
			for vi, v := range [][2]geom.Geometry{{withZM(a.G, geom.DimXYZ), b.G}, {a.G, withZM(b.G, geom.DimXYZM)}, {withZM(a.G, geom.DimXYM), withZM(b.G, geom.DimXYZ)}} {
				var res geom.Geometry
				var err error
				r.Transitions.Add(1)
				c := setopCase{Op: o.name + fmt.Sprintf(" with Z/M operands (variant %d)", vi), A: v[0].AsText(), B: v[1].AsText()}
				if pnc := engine.SafeCall(func() { res, err = o.fn(v[0], v[1]) }); pnc != nil {
					r.Violation("C01/"+o.name+".zm.panic", "setop", c, fmt.Sprint(pnc))
					continue
				}
				if (err == nil) != (berr == nil) || (err == nil && res.AsText() != base.AsText()) {
					r.Violation("C01/"+o.name+".zm.differsFromXY", "setop", c, fmt.Sprintf("%s %v vs %s %v", res.AsText(), err, base.AsText(), berr))
				}
			}
		}
	}
	// algebra on the library's own numbers: inclusion-exclusion and A = (A-B) ∪ (A∩B) for areas
	ua, ia, da := areas["Union"], areas["Intersection"], areas["Difference"]
	aa, ab := a.G.Area(), b.G.Area()
	if !a.Overlapping && !b.Overlapping && len(areas) == len(c01Ops) {
		if math.Abs(ua-(aa+ab-ia)) > 1e-9*mag*mag {
			r.Violation("C01/law.inclusionExclusion", "setop", setopCase{Op: "law", A: a.WKT, B: b.WKT}, fmt.Sprint(ua, aa, ab, ia))
		}
		if math.Abs(aa-(da+ia)) > 1e-9*mag*mag {
			r.Violation("C01/law.partition", "setop", setopCase{Op: "law", A: a.WKT, B: b.WKT}, fmt.Sprint(aa, da, ia))
		}
	}
}

func c01Unary(r *engine.Run, a Operand) {
	empty := &exact.G{}
	p := oracle.NewPair(a.X, empty)
	want := p.SetOp(func(x, _ bool) bool { return x })
	mag := magnitude(a.X)
	var res geom.Geometry
	var err error
	c := setopCase{Op: "UnaryUnion", A: a.WKT}
	r.Transitions.Add(1)
	if pnc := engine.SafeCall(func() { res, err = geom.UnaryUnion(a.G) }); pnc != nil {
		r.Violation("C01/UnaryUnion.panic", "setop", c, fmt.Sprint(pnc))
		return
	}
	c01Check(r, p, want, res, err, c, mag)
	// idempotence: a ∪ a and a ∩ a are the same point set
	for _, o := range []binop{c01Ops[0], c01Ops[2]} {
		c := setopCase{Op: o.name + "(a,a)", A: a.WKT, B: a.WKT}
		r.Transitions.Add(1)
		if pnc := engine.SafeCall(func() { res, err = o.fn(a.G, a.G) }); pnc != nil {
			r.Violation("C01/"+o.name+".panic", "setop", c, fmt.Sprint(pnc))
			continue
		}
		c01Check(r, p, want, res, err, c, mag)
	}
}

func c01Many(r *engine.Run, list []Operand) {
	var gs []geom.Geometry
	var ws []string
	all := &exact.G{}
	for _, o := range list {
		gs = append(gs, o.G)
		ws = append(ws, o.WKT)
		all.Points = append(all.Points, o.X.Points...)
		all.Lines = append(all.Lines, o.X.Lines...)
		all.Polys = append(all.Polys, o.X.Polys...)
	}
	p := oracle.NewPair(all, &exact.G{})
	want := p.SetOp(func(x, _ bool) bool { return x })
	var res geom.Geometry
	var err error
	c := setopCase{Op: "UnionMany", L: ws}
	r.Transitions.Add(1)
	if pnc := engine.SafeCall(func() { res, err = geom.UnionMany(gs) }); pnc != nil {
		r.Violation("C01/UnionMany.panic", "setop", c, fmt.Sprint(pnc))
		return
	}
	c01Check(r, p, want, res, err, c, magnitude(all))
}

// chainResults runs the 5 set operations on every unordered pair of alpha and hands each
// non-empty result (as a fresh operand) to use. It returns whether the enumeration completed
// and how many results were produced. Results are the library's own output: the consumers
// judge them against the exact model like any other operand.
func chainResults(r *engine.Run, alpha []Operand, use func(res Operand)) (bool, int64) {
	ca := len(alpha)
	var fed atomic.Int64
	done := r.Parallel(ca*ca, func(k int) {
		i, j := k/ca, k%ca
		if i >= j {
			return
		}
		for _, o := range c01Ops[:8:8] {
			if o.swap && o.name != "Difference(b,a)" {
				continue
			}
			var r1 geom.Geometry
			var err error
			x, y := alpha[i].G, alpha[j].G
			if o.swap {
				x, y = y, x
			}
			if pnc := engine.SafeCall(func() { r1, err = o.fn(x, y) }); pnc != nil || err != nil || r1.IsEmpty() {
				continue // judged by C01's pair universe
			}
			fed.Add(1)
			use(mkOp(r1, "result"))
		}
	})
	return done, fed.Load()
}

// chainAlphabet: every step-th operand of the 3×3 alphabet plus two members of the holes family.
func chainAlphabet(ops, hf []Operand, parts int) []Operand {
	var out []Operand
	step := len(ops)/parts + 1
	for i := 0; i < len(ops); i += step {
		out = append(out, ops[i])
	}
	return append(out, hf[4], hf[12])
}

func c01Main(r *engine.Run) {
	r.Rule = "pairs (UnionMany: triples) of valid lattice geometries of all seven types incl. empties and collections with overlapping members (3×3 alphabet; 6×6 holes family; star family; exact affine images; general-position float images filtered by exact clearance): every set operation in both operand orders compared with the closure of the Boolean combination computed on the exact joint arrangement — membership of every face/edge/vertex cell, area, lineal length, isolated point count, validity, canonical shape. non-trivial = operand pairs sharing at least one arrangement vertex"
	level := 0
	if r.Thorough() {
		level = 1
	}
	alpha := BuildAlphabet(universe.Identity, level)
	ops := alpha.All()
	n := len(ops)
	r.States.Add(int64(n))
	for _, o := range ops {
		c01Unary(r, o)
	}
	r.Bound(fmt.Sprintf("UnaryUnion, a∪a, a∩a on all %d operands", n))
	if r.Parallel(n*n, func(k int) {
		if i, j := k/n, k%n; i <= j {
			c01Pair(r, ops[i], ops[j])
		}
	}) {
		r.Bound(fmt.Sprintf("all %d² pairs of the 3×3 alphabet (level %d: %d points, %d segments, %d paths, %d polygons, %d multis, %d collections, %d empties) × 8 operations", n, level, len(alpha.Points), len(alpha.Segs), len(alpha.Paths), len(alpha.Polys), len(alpha.Multis), len(alpha.GCs), len(alpha.Empties)))
	}
	r.Sample("setop", setopCase{Op: "Difference", A: ops[n/2].WKT, B: ops[n-5].WKT})
	hf := HolesFamily(universe.Identity)
	for _, o := range hf {
		c01Unary(r, o)
	}
	m := len(hf)
	if r.Parallel(m*m, func(k int) {
		if k/m <= k%m {
			c01Pair(r, hf[k/m], hf[k%m])
		}
	}) {
		r.Bound(fmt.Sprintf("6×6 holes family: UnaryUnion on %d operands and all %d² pairs (collections with overlapping members included)", m, m))
	}
	r.Sample("setop", setopCase{Op: "UnaryUnion", A: hf[len(hf)-8].WKT})
	// UnionMany: all triples over a reduced alphabet
	var small []Operand
	for i, o := range ops {
		if i%(n/36+1) == 0 {
			small = append(small, o)
		}
	}
	small = append(small, hf[0], hf[4], hf[6], hf[12])
	s := len(small)
	if r.Parallel(s*s*s, func(k int) {
		i, j, l := k/(s*s), (k/s)%s, k%s
		if i < j && j < l {
			c01Many(r, []Operand{small[i], small[j], small[l]})
		} else if i == j && j < l {
			c01Many(r, []Operand{small[i], small[l]})
		}
	}) {
		r.Bound(fmt.Sprintf("UnionMany: every triple (and pair) over a %d-operand alphabet", s))
	}
	// chained operations: the library's own results (ring starts, retained collinear vertices,
	// mixed-dimension collections, rounded crossing points) fed back as operands against every
	// member of a reduced alphabet; kept when the joint arrangement has the property's clearance
	{
		parts := 13
		if r.Thorough() {
			parts = 29
		}
		chainA := chainAlphabet(ops, hf, parts)
		if done, fed := chainResults(r, chainA, func(res Operand) {
			for _, c := range chainA {
				c01PairGP(r, res, c, true)
			}
		}); done {
			r.Bound(fmt.Sprintf("chained: every non-empty result of the 5 set operations on pairs of a %d-operand alphabet fed back against every operand of it (%d intermediate results; joint arrangements below the clearance threshold dropped)", len(chainA), fed))
		}
	}
	{
		// many-part operands (dozens of segments: index structures several levels deep) under
		// integer and half-integer translations, against each other and a reduced alphabet
		bigA := bigOperands(universe.Identity)
		var jobs [][2]Operand
		for _, sh := range [][2]float64{{0, 0}, {0.5, 0.5}, {1, 0}, {3, 2.5}, {7, 0}} {
			s := universe.Affine{A: 1, D: 1, TX: sh[0], TY: sh[1], Name: fmt.Sprintf("shift(%g,%g)", sh[0], sh[1])}
			bigB := bigOperands(s)
			for i, a := range bigA {
				for j, b := range bigB {
					if level == 1 || (i+j)%2 == 0 {
						jobs = append(jobs, [2]Operand{a, b})
					}
				}
			}
			for _, b := range bigB {
				for i := 0; i < n; i += n/(9+16*level) + 1 {
					jobs = append(jobs, [2]Operand{ops[i], b})
				}
			}
		}
		if r.Parallel(len(jobs), func(k int) { c01Pair(r, jobs[k][0], jobs[k][1]) }) {
			r.Bound(fmt.Sprintf("many-part operands (36-point MultiPoint, 18-segment MultiLineStrings, 18-vertex zig-zag, comb polygon, 9-square MultiPolygon) × 5 translations × each other and a reduced alphabet: %d pairs × 8 operations", len(jobs)))
		}
	}
	{
		tj := TJunctionPairs(level)
		if r.Parallel(len(tj), func(k int) { c01Pair(r, tj[k][0], tj[k][1]) }) {
			r.Bound(fmt.Sprintf("T-junction family: %d pairs (a vertex of B on the interior of a long edge of A at every integer position)", len(tj)))
		}
		cp := ConcurrentPairs(level)
		if r.Parallel(len(cp), func(k int) { c01Pair(r, cp[k][0], cp[k][1]) }) {
			r.Bound(fmt.Sprintf("concurrent family: %d pairs with three edge interiors through one non-vertex lattice point (directions × extents with non-dyadic crossing parameters a/(a+b), a+b ∈ {3,7,11,25} × centres) × 8 operations", len(cp)))
		}
	}
	if r.Thorough() {
		// 4×4 lattice: a fixed stride of all pairs of the ≤4-vertex polygons, segments and paths
		l4 := Lattice4(universe.Identity)
		n4 := len(l4)
		const stride4 = 7
		if r.Parallel(n4*n4/stride4, func(k int) {
			kk := k * stride4
			i, j := kk/n4, kk%n4
			if i > j {
				i, j = j, i
			}
			_ = kk
			c01Pair(r, l4[i], l4[j])
		}) {
			r.Bound(fmt.Sprintf("4×4 lattice alphabet (%d operands): every %d-th ordered pair", n4, stride4))
		}
	}
	c01Affine(r, level)
}

// general-position float maps: rotation by 0.3 rad × scale × translation
func floatAffines() []universe.Affine {
	co, si := 0.955336489125606, 0.29552020666133955
	var out []universe.Affine
	for _, sc := range []float64{1e-3, 1, 1e6} {
		for _, tr := range []float64{0, 1e6} {
			if sc == 1e-3 && tr == 1e6 {
				continue // clearance 1e-3 at magnitude 1e6 is below the property's 1e-6 × magnitude threshold only marginally; filtered exactly below anyway
			}
			out = append(out, universe.Affine{A: sc * co, B: -sc * si, C: sc * si, D: sc * co, TX: tr, TY: -tr / 3, Name: fmt.Sprintf("rot0.3·%g+%g", sc, tr)})
		}
	}
	// far from unit magnitude (squares and cubes of ordinates still representable): an absolute
	// tolerance or constant hidden in the library shows up here and nowhere else
	for _, sc := range []float64{1e-100, 1e100} {
		out = append(out, universe.Affine{A: sc * co, B: -sc * si, C: sc * si, D: sc * co, Name: fmt.Sprintf("rot0.3·%g", sc)})
	}
	// features much smaller than their distance from the origin, yet inside the property's clearance
	// clause (feature size / magnitude = 1e-3 and 3e-5): formulas that multiply absolute
	// coordinates before cancelling lose (magnitude/size)² × eps of accuracy here
	for _, sc := range []float64{1e3, 30} {
		out = append(out, universe.Affine{A: sc * co, B: -sc * si, C: sc * si, D: sc * co, TX: 1e6, TY: 6e6, Name: fmt.Sprintf("rot0.3·%g+(1e6,6e6)", sc)})
	}
	return out
}

func c01Affine(r *engine.Run, level int) {
	stride := 29
	if level == 1 {
		stride = 5
	}
	for _, t := range c02ExactAffines {
		ops := BuildAlphabet(t, 0).All()
		n := len(ops)
		if r.Parallel(n*n/stride, func(k int) {
			kk := k * stride
			i, j := kk/n, kk%n
			if i > j {
				i, j = j, i
			}
			c01Pair(r, ops[i], ops[j])
		}) {
			r.Bound(fmt.Sprintf("exact affine image %s: every %d-th pair of the reduced alphabet", t.Name, stride))
		}
	}
	fstride := 53
	if level == 1 {
		fstride = 11
	}
	for _, t := range floatAffines() {
		ops := BuildAlphabet(t, 0).All()
		n := len(ops)
		if r.Parallel(n*n/fstride, func(k int) {
			kk := k * fstride
			i, j := kk/n, kk%n
			if i > j {
				i, j = j, i
			}
			c01PairGP(r, ops[i], ops[j], true)
		}) {
			r.Bound(fmt.Sprintf("float affine image %s: every %d-th pair of the reduced alphabet, kept only when the exact clearance is ≥ 1e-6 × magnitude", t.Name, fstride))
		}
	}
	r.Extra["general_position_pairs_kept"] = gpKept.Load()
	r.Extra["general_position_pairs_dropped_as_near_degenerate"] = gpDropped.Load()
	r.Extra["face_probes_skipped_within_tolerance_of_result_ring"] = skippedProbes.Load()
}

func c01Replay(r *engine.Run, sub string, raw json.RawMessage) error {
	var c setopCase
	if err := json.Unmarshal(raw, &c); err != nil {
		return err
	}
	parse := func(w string) (Operand, error) {
		g, err := geom.UnmarshalWKT(w, geom.NoValidate{})
		if err != nil {
			return Operand{}, err
		}
		return mkOp(g, "replay"), nil
	}
	if len(c.L) > 0 {
		var l []Operand
		for _, w := range c.L {
			o, err := parse(w)
			if err != nil {
				return err
			}
			l = append(l, o)
		}
		c01Many(r, l)
		return nil
	}
	a, err := parse(c.A)
	if err != nil {
		return err
	}
	if c.B == "" || c.Op == "UnaryUnion" {
		c01Unary(r, a)
		return nil
	}
	b, err := parse(c.B)
	if err != nil {
		return err
	}
	c01Pair(r, a, b)
	return nil
}

func init() {
	engine.Register(&engine.Check{ID: "C01", Main: c01Main, Replay: c01Replay})
}

//go:build envx

package checks

import "verif/engine"

// In the envx build (the explorer binary) the check itself is not run.
func c10MapOrder(r *engine.Run) {}

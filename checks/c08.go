package checks

import (
	"bufio"
	"bytes"
	"encoding/binary"
	"encoding/hex"
	"encoding/json"
	"fmt"
	"io"
	"math"
	"os"
	"os/exec"
	"runtime"
	"runtime/metrics"
	"strconv"
	"strings"
	"sync"
	"sync/atomic"
	"syscall"
	"time"

	"github.com/peterstace/simplefeatures/geom"
	"verif/engine"
	"verif/oracle"
	"verif/refcodec"
	"verif/universe"
)

// ---- worker -------------------------------------------------------------------

const (
	fmtWKB     = 'B'
	fmtTWKB    = 'T'
	fmtWKT     = 'W'
	fmtGeoJSON = 'J'
	fmtFeature = 'F'
)

type c08Result struct {
	Class string // outcome classes of all entry points, joined
	Alloc uint64
	Bad   string // non-empty: violation description
}

func reencode(g geom.Geometry) string {
	var bad string
	try := func(name string, f func()) {
		if p := engine.SafeCall(f); p != nil && bad == "" {
			bad = fmt.Sprintf("re-encoding a decoded geometry with %s panicked: %v", name, p)
		}
	}
	try("AsText", func() { g.AsText() })
	try("AsBinary", func() { g.AsBinary() })
	try("MarshalJSON", func() { g.MarshalJSON() })
	try("MarshalTWKB", func() { geom.MarshalTWKB(g, 1) })
	try("AppendWKT", func() { g.AppendWKT(nil) })
	return bad
}

// smallIntegerCoords: the definitional validity oracle is only applied inside
// C03's domain (integer ordinates with |c| ≤ 2^10).
func smallIntegerCoords(g geom.Geometry) bool {
	s := g.DumpCoordinates()
	for i := 0; i < s.Length(); i++ {
		xy := s.GetXY(i)
		if xy.X != math.Trunc(xy.X) || xy.Y != math.Trunc(xy.Y) || math.Abs(xy.X) > 1024 || math.Abs(xy.Y) > 1024 {
			return false
		}
	}
	return true
}

func classify(err error) string {
	if err == nil {
		return "ok"
	}
	s := stripDigits(err.Error())
	if len(s) > 60 {
		s = s[:60]
	}
	return "err:" + s
}

// c08Exec runs every entry point of a format on the input and returns the
// outcome. It never lets a panic escape; process death is observed by the supervisor.
func c08Exec(format byte, in []byte) c08Result {
	var res c08Result
	var classes []string
	run := func(name string, f func() (geom.Geometry, bool, error)) {
		var g geom.Geometry
		var has bool
		var err error
		a0 := allocBytes()
		p := engine.SafeCall(func() { g, has, err = f() })
		res.Alloc += allocBytes() - a0 // only the library call is charged, not the oracle below
		if p != nil {
			if res.Bad == "" {
				res.Bad = fmt.Sprintf("%s panicked: %v", name, p)
			}
			classes = append(classes, name+"=panic")
			return
		}
		classes = append(classes, name+"="+classify(err))
		if err == nil && !has {
			// NoValidate variants: the geometry need not be valid, but it must still re-encode without
			// panicking (outside the measured region: the allocation bound is about decoding)
			if b := reencode(g); b != "" && res.Bad == "" {
				res.Bad = b
			}
		}
		if err == nil && has {
			if verr := g.Validate(); verr != nil && res.Bad == "" {
				res.Bad = fmt.Sprintf("%s returned an invalid geometry without NoValidate: %v", name, verr)
			}
			if g.DumpCoordinates().Length() <= 40 && smallIntegerCoords(g) {
				if ok, why := oracle.Valid(g); !ok && res.Bad == "" {
					res.Bad = fmt.Sprintf("%s returned a geometry that is invalid by definition: %s: %s", name, why, g.AsText())
				}
			}
			if b := reencode(g); b != "" && res.Bad == "" {
				res.Bad = b
			}
		}
	}
	cp := func() []byte { return append([]byte{}, in...) }
	switch format {
	case fmtWKB:
		run("UnmarshalWKB", func() (geom.Geometry, bool, error) { g, err := geom.UnmarshalWKB(cp()); return g, true, err })
		run("UnmarshalWKB(NoValidate)", func() (geom.Geometry, bool, error) {
			g, err := geom.UnmarshalWKB(cp(), geom.NoValidate{})
			return g, false, err
		})
		run("Geometry.Scan", func() (geom.Geometry, bool, error) { var g geom.Geometry; err := g.Scan(cp()); return g, true, err })
		run("NullGeometry.Scan", func() (geom.Geometry, bool, error) {
			var g geom.NullGeometry
			err := g.Scan(string(in))
			return g.Geometry, true, err
		})
		run("Point.Scan", func() (geom.Geometry, bool, error) {
			var g geom.Point
			err := g.Scan(cp())
			return g.AsGeometry(), true, err
		})
		run("LineString.Scan", func() (geom.Geometry, bool, error) {
			var g geom.LineString
			err := g.Scan(cp())
			return g.AsGeometry(), true, err
		})
		run("Polygon.Scan", func() (geom.Geometry, bool, error) {
			var g geom.Polygon
			err := g.Scan(cp())
			return g.AsGeometry(), true, err
		})
		run("MultiPoint.Scan", func() (geom.Geometry, bool, error) {
			var g geom.MultiPoint
			err := g.Scan(cp())
			return g.AsGeometry(), true, err
		})
		run("MultiLineString.Scan", func() (geom.Geometry, bool, error) {
			var g geom.MultiLineString
			err := g.Scan(cp())
			return g.AsGeometry(), true, err
		})
		run("MultiPolygon.Scan", func() (geom.Geometry, bool, error) {
			var g geom.MultiPolygon
			err := g.Scan(cp())
			return g.AsGeometry(), true, err
		})
		run("GeometryCollection.Scan", func() (geom.Geometry, bool, error) {
			var g geom.GeometryCollection
			err := g.Scan(cp())
			return g.AsGeometry(), true, err
		})
	case fmtTWKB:
		run("UnmarshalTWKB", func() (geom.Geometry, bool, error) { g, err := geom.UnmarshalTWKB(cp()); return g, true, err })
		run("UnmarshalTWKB(NoValidate)", func() (geom.Geometry, bool, error) {
			g, err := geom.UnmarshalTWKB(cp(), geom.NoValidate{})
			return g, false, err
		})
		run("UnmarshalTWKBSize", func() (geom.Geometry, bool, error) {
			_, _, err := geom.UnmarshalTWKBSize(cp())
			return geom.Geometry{}, false, err
		})
		run("UnmarshalTWKBEnvelope", func() (geom.Geometry, bool, error) {
			_, _, err := geom.UnmarshalTWKBEnvelope(cp())
			return geom.Geometry{}, false, err
		})
		run("UnmarshalTWKBIDList", func() (geom.Geometry, bool, error) {
			_, _, err := geom.UnmarshalTWKBIDList(cp())
			return geom.Geometry{}, false, err
		})
	case fmtWKT:
		run("UnmarshalWKT", func() (geom.Geometry, bool, error) { g, err := geom.UnmarshalWKT(string(in)); return g, true, err })
		run("UnmarshalWKT(NoValidate)", func() (geom.Geometry, bool, error) {
			g, err := geom.UnmarshalWKT(string(in), geom.NoValidate{})
			return g, false, err
		})
	case fmtGeoJSON, fmtFeature:
		run("UnmarshalGeoJSON", func() (geom.Geometry, bool, error) { g, err := geom.UnmarshalGeoJSON(cp()); return g, true, err })
		run("UnmarshalGeoJSON(NoValidate)", func() (geom.Geometry, bool, error) {
			g, err := geom.UnmarshalGeoJSON(cp(), geom.NoValidate{})
			return g, false, err
		})
		run("Geometry.UnmarshalJSON", func() (geom.Geometry, bool, error) {
			var g geom.Geometry
			err := json.Unmarshal(in, &g)
			return g, true, err
		})
		run("Point.UnmarshalJSON", func() (geom.Geometry, bool, error) {
			var g geom.Point
			err := g.UnmarshalJSON(cp())
			return g.AsGeometry(), true, err
		})
		run("LineString.UnmarshalJSON", func() (geom.Geometry, bool, error) {
			var g geom.LineString
			err := g.UnmarshalJSON(cp())
			return g.AsGeometry(), true, err
		})
		run("Polygon.UnmarshalJSON", func() (geom.Geometry, bool, error) {
			var g geom.Polygon
			err := g.UnmarshalJSON(cp())
			return g.AsGeometry(), true, err
		})
		run("MultiPoint.UnmarshalJSON", func() (geom.Geometry, bool, error) {
			var g geom.MultiPoint
			err := g.UnmarshalJSON(cp())
			return g.AsGeometry(), true, err
		})
		run("MultiLineString.UnmarshalJSON", func() (geom.Geometry, bool, error) {
			var g geom.MultiLineString
			err := g.UnmarshalJSON(cp())
			return g.AsGeometry(), true, err
		})
		run("MultiPolygon.UnmarshalJSON", func() (geom.Geometry, bool, error) {
			var g geom.MultiPolygon
			err := g.UnmarshalJSON(cp())
			return g.AsGeometry(), true, err
		})
		run("GeometryCollection.UnmarshalJSON", func() (geom.Geometry, bool, error) {
			var g geom.GeometryCollection
			err := g.UnmarshalJSON(cp())
			return g.AsGeometry(), true, err
		})
		run("GeoJSONFeature.UnmarshalJSON", func() (geom.Geometry, bool, error) {
			var f geom.GeoJSONFeature
			err := json.Unmarshal(in, &f)
			if err == nil {
				json.Marshal(f)
			}
			return f.Geometry, err == nil, err
		})
		run("GeoJSONFeatureCollection.UnmarshalJSON", func() (geom.Geometry, bool, error) {
			var f geom.GeoJSONFeatureCollection
			err := json.Unmarshal(in, &f)
			if err == nil {
				json.Marshal(f)
				for _, ft := range f {
					if ft.Geometry.Validate() != nil {
						return ft.Geometry, true, nil
					}
				}
			}
			return geom.Geometry{}, false, err
		})
	}
	res.Class = strings.Join(classes, ";")
	return res
}

var allocSample = []metrics.Sample{{Name: "/gc/heap/allocs:bytes"}}

// allocBytes is the cumulative number of bytes allocated by this process.
func allocBytes() uint64 {
	metrics.Read(allocSample)
	return allocSample[0].Value.Uint64()
}

// WorkerMain is the sacrificial process: frames in on stdin, one line out per frame.
func WorkerMain() {
	lim := syscall.Rlimit{Cur: 4 << 30, Max: 4 << 30}
	syscall.Setrlimit(syscall.RLIMIT_AS, &lim)
	in := bufio.NewReaderSize(os.Stdin, 1<<20)
	out := bufio.NewWriter(os.Stdout)
	var hdr [5]byte
	for {
		if _, err := io.ReadFull(in, hdr[:]); err != nil {
			return
		}
		n := binary.LittleEndian.Uint32(hdr[:4])
		buf := make([]byte, n)
		if _, err := io.ReadFull(in, buf); err != nil {
			return
		}
		res := c08Exec(hdr[4], buf)
		fmt.Fprintf(out, "%d\t%s\t%s\n", res.Alloc, hex.EncodeToString([]byte(res.Bad)), res.Class)
		out.Flush()
	}
}

// ---- supervisor -----------------------------------------------------------------

type c08Case struct {
	Format string `json:"format"`
	Hex    string `json:"hex"`
	Text   string `json:"text,omitempty"`
	Origin string `json:"origin"`
}

type faultCase struct {
	format byte
	data   []byte
	origin string
}

func (f faultCase) export() c08Case {
	c := c08Case{Format: string(f.format), Hex: hex.EncodeToString(f.data), Origin: f.origin}
	if f.format == fmtWKT || f.format == fmtGeoJSON || f.format == fmtFeature {
		c.Text = string(f.data)
	}
	return c
}

const allocBase, allocPerByte = 1 << 20, 512

type worker struct {
	cmd   *exec.Cmd
	stdin *bufio.Writer
	raw   io.WriteCloser
	acks  chan string // closed when the worker's stdout ends
}

func startWorker() (*worker, error) {
	cmd := exec.Command(os.Args[0], "worker")
	cmd.Env = append(os.Environ(), "GOMAXPROCS=1", "GOGC=100")
	stdin, err := cmd.StdinPipe()
	if err != nil {
		return nil, err
	}
	stdout, err := cmd.StdoutPipe()
	if err != nil {
		return nil, err
	}
	cmd.Stderr = nil
	if err := cmd.Start(); err != nil {
		return nil, err
	}
	w := &worker{cmd: cmd, stdin: bufio.NewWriter(stdin), raw: stdin, acks: make(chan string, 4)}
	go func() {
		rd := bufio.NewReaderSize(stdout, 1<<20)
		for {
			l, err := rd.ReadString('\n')
			if err != nil {
				close(w.acks)
				return
			}
			w.acks <- l
		}
	}()
	return w, nil
}

func (w *worker) stop() {
	w.raw.Close()
	w.cmd.Process.Kill()
	w.cmd.Wait()
}

// runFaults streams cases through a pool of workers. Every case is run one at
// a time per worker (send, wait for the ack) so that a dead worker identifies
// its culprit exactly.
func runFaults(r *engine.Run, cases []faultCase) bool {
	var next atomic.Int64
	var wg sync.WaitGroup
	nw := runtime.GOMAXPROCS(0)
	if nw > 16 {
		nw = 16
	}
	complete := atomic.Bool{}
	complete.Store(true)
	for k := 0; k < nw; k++ {
		wg.Add(1)
		go func() {
			defer wg.Done()
			var w *worker
			timer := time.NewTimer(time.Hour)
			defer func() {
				if w != nil {
					w.stop()
				}
			}()
			for {
				i := int(next.Add(1)) - 1
				if i >= len(cases) {
					return
				}
				if i%256 == 0 && r.Expired() {
					complete.Store(false)
					return
				}
				c := cases[i]
				if w == nil {
					var err error
					if w, err = startWorker(); err != nil {
						r.EngineError("cannot start worker: " + err.Error())
						return
					}
				}
				var hdr [5]byte
				binary.LittleEndian.PutUint32(hdr[:4], uint32(len(c.data)))
				hdr[4] = c.format
				w.stdin.Write(hdr[:])
				w.stdin.Write(c.data)
				w.stdin.Flush()
				type ack struct {
					line string
					err  error
				}
				var a ack
				timer.Reset(60 * time.Second)
				select {
				case l, ok := <-w.acks:
					if !timer.Stop() {
						<-timer.C
					}
					if !ok {
						a.err = io.EOF
					}
					a.line = l
				case <-timer.C:
					r.Cap("a case exceeded the 60 s engine limit (reported, not judged): " + c.origin)
					w.stop()
					w = nil
					continue
				}
				r.Evaluations.Add(1)
				r.Transitions.Add(1)
				if a.err != nil {
					// the worker died while executing this case
					state := "unknown"
					w.cmd.Wait()
					if w.cmd.ProcessState != nil {
						state = w.cmd.ProcessState.String()
					}
					r.Violation("C08/processDeath:"+string(c.format), "fault", c.export(), "decoder terminated the process ("+state+"; Go reports memory exhaustion as an unrecoverable fatal error) on "+c.origin)
					r.Outcome(string(c.format) + " process death")
					w = nil
					continue
				}
				parts := strings.SplitN(strings.TrimRight(a.line, "\n"), "\t", 3)
				if len(parts) != 3 {
					r.EngineError("malformed worker line: " + a.line)
					continue
				}
				var alloc uint64
				fmt.Sscan(parts[0], &alloc)
				badb, _ := hex.DecodeString(parts[1])
				if len(badb) > 0 {
					key := "C08/" + string(c.format) + ":" + stripDigits(string(badb))
					if len(key) > 90 {
						key = key[:90]
					}
					r.Violation(key, "fault", c.export(), string(badb)+" on "+c.origin)
				}
				if alloc > allocBase+allocPerByte*uint64(len(c.data)) {
					r.Violation("C08/allocation:"+string(c.format), "fault", c.export(), fmt.Sprintf("allocated %d bytes for a %d byte input (%s)", alloc, len(c.data), c.origin))
				}
				r.Outcome(string(c.format) + " " + parts[2])
				if strings.Contains(parts[2], "=ok") && !strings.HasPrefix(c.origin, "valid") {
					r.Nontrivial(string(c.format) + hex.EncodeToString(c.data))
				}
			}
		}()
	}
	wg.Wait()
	return complete.Load()
}

// ---- fault generation -------------------------------------------------------------

func putU32(be bool, v uint32) []byte {
	var b [4]byte
	if be {
		binary.BigEndian.PutUint32(b[:], v)
	} else {
		binary.LittleEndian.PutUint32(b[:], v)
	}
	return b[:]
}

func wkbFaults(enc []byte, fields []refcodec.Field, origin string, out *[]faultCase) {
	add := func(d []byte, o string) { *out = append(*out, faultCase{fmtWKB, d, origin + " " + o}) }
	add(enc, "valid")
	for i := 0; i < len(enc); i++ {
		add(append([]byte{}, enc[:i]...), fmt.Sprintf("truncated to %d", i))
	}
	isField := map[int]string{}
	for _, f := range fields {
		n := 1
		if f.Kind == "type" || f.Kind == "count" {
			n = 4
		}
		if f.Kind == "float" {
			continue
		}
		for k := 0; k < n; k++ {
			isField[f.Off+k] = f.Kind
		}
	}
	for i := range enc {
		vals := []int{0x00, 0x01, 0x7f, 0x80, 0xfe, 0xff}
		if _, ok := isField[i]; ok {
			vals = vals[:0]
			for v := 0; v < 256; v++ {
				vals = append(vals, v)
			}
		}
		for _, v := range vals {
			if byte(v) == enc[i] {
				continue
			}
			d := append([]byte{}, enc...)
			d[i] = byte(v)
			add(d, fmt.Sprintf("byte %d (%s) = %#02x", i, isField[i], v))
		}
	}
	for _, f := range fields {
		if f.Kind != "count" {
			continue
		}
		for _, v := range []uint32{0, 1, 1<<31 - 1, 1 << 31, 1<<32 - 1, 1 << 24, 1 << 16, 1000} {
			for _, be := range []bool{f.BE, !f.BE} {
				d := append([]byte{}, enc...)
				copy(d[f.Off:], putU32(be, v))
				add(d, fmt.Sprintf("count at %d = %d", f.Off, v))
			}
		}
	}
}

func uvarintBytes(v uint64) []byte {
	var b [10]byte
	n := binary.PutUvarint(b[:], v)
	return b[:n]
}

func twkbFaults(enc []byte, origin string, out *[]faultCase) {
	add := func(d []byte, o string) { *out = append(*out, faultCase{fmtTWKB, d, origin + " " + o}) }
	add(enc, "valid")
	for i := 0; i < len(enc); i++ {
		add(append([]byte{}, enc[:i]...), fmt.Sprintf("truncated to %d", i))
	}
	for i := range enc {
		vals := []int{0x00, 0x01, 0x7f, 0x80, 0xfe, 0xff}
		if i < 3 {
			vals = vals[:0]
			for v := 0; v < 256; v++ {
				vals = append(vals, v)
			}
		}
		for _, v := range vals {
			if byte(v) == enc[i] {
				continue
			}
			d := append([]byte{}, enc...)
			d[i] = byte(v)
			add(d, fmt.Sprintf("byte %d = %#02x", i, v))
		}
		if i >= 2 {
			// splice a varint in place of the byte at i: 2^k, 2^64-1, over-long encodings
			var vs [][]byte
			for k := 0; k < 64; k++ {
				vs = append(vs, uvarintBytes(1<<uint(k)))
			}
			vs = append(vs, uvarintBytes(1<<64-1), []byte{0x80, 0x80, 0x80, 0x80, 0x80, 0x80, 0x80, 0x80, 0x80, 0x80, 0x01}, []byte{0x81, 0x80, 0x80, 0x00}, []byte{0xff, 0xff, 0xff, 0xff, 0xff, 0xff, 0xff, 0xff, 0xff, 0x7f})
			for vi, v := range vs {
				d := append(append(append([]byte{}, enc[:i]...), v...), enc[i+1:]...)
				add(d, fmt.Sprintf("varint #%d spliced at %d", vi, i))
			}
		}
	}
}

func textFaults(format byte, text string, vocab []string, edits int, origin string, out *[]faultCase) {
	add := func(s, o string) { *out = append(*out, faultCase{format, []byte(s), origin + " " + o}) }
	add(text, "valid")
	for i := 0; i < len(text); i++ {
		add(text[:i], fmt.Sprintf("prefix %d", i))
	}
	toks := tokenize(text)
	join := func(t []string) string { return strings.Join(t, "") }
	var one [][]string
	for i := range toks {
		if strings.TrimSpace(toks[i]) == "" {
			continue
		}
		del := append(append([]string{}, toks[:i]...), toks[i+1:]...)
		dup := append(append(append([]string{}, toks[:i+1]...), toks[i]), toks[i+1:]...)
		one = append(one, del, dup)
		add(join(del), fmt.Sprintf("token %d deleted", i))
		add(join(dup), fmt.Sprintf("token %d duplicated", i))
		for _, v := range vocab {
			if v == toks[i] {
				continue
			}
			rep := append([]string{}, toks...)
			rep[i] = v
			one = append(one, rep)
			add(join(rep), fmt.Sprintf("token %d replaced by %q", i, v))
		}
	}
	if edits >= 2 {
		for oi, t := range one {
			if oi%5 != 0 {
				continue
			}
			for i := range t {
				if strings.TrimSpace(t[i]) == "" || i%2 == 1 {
					continue
				}
				for vi, v := range vocab {
					if vi%3 != 0 {
						continue
					}
					rep := append([]string{}, t...)
					rep[i] = v
					add(join(rep), fmt.Sprintf("two edits (#%d, token %d := %q)", oi, i, v))
				}
			}
		}
	}
}

// tokenize splits text into words, numbers, strings, punctuation and whitespace runs.
func tokenize(s string) []string {
	var out []string
	i := 0
	cls := func(c byte) int {
		switch {
		case c == ' ' || c == '\n' || c == '\t':
			return 0
		case c >= 'a' && c <= 'z' || c >= 'A' && c <= 'Z':
			return 1
		case c >= '0' && c <= '9' || c == '.' || c == '-' || c == '+':
			return 2
		}
		return 3
	}
	for i < len(s) {
		if s[i] == '"' {
			j := i + 1
			for j < len(s) && s[j] != '"' {
				j++
			}
			if j < len(s) {
				j++
			}
			out = append(out, s[i:j])
			i = j
			continue
		}
		c := cls(s[i])
		j := i + 1
		if c != 3 {
			for j < len(s) && cls(s[j]) == c {
				j++
			}
		}
		out = append(out, s[i:j])
		i = j
	}
	return out
}

func shortInputs(format byte, maxLen int, out *[]faultCase) {
	add := func(d []byte) {
		*out = append(*out, faultCase{format, append([]byte{}, d...), fmt.Sprintf("arbitrary %d bytes", len(d))})
	}
	add(nil)
	for a := 0; a < 256; a++ {
		add([]byte{byte(a)})
		for b := 0; b < 256; b++ {
			add([]byte{byte(a), byte(b)})
		}
	}
	alpha := []byte{0x00, 0x01, 0x02, 0x07, 0x10, 0xff}
	for l := 3; l <= maxLen; l++ {
		buf := make([]byte, l)
		var rec func(i int)
		rec = func(i int) {
			if i == l {
				add(buf)
				return
			}
			for _, c := range alpha {
				buf[i] = c
				rec(i + 1)
			}
		}
		rec(0)
	}
}

func c08Corpus() []geom.Geometry {
	var out []geom.Geometry
	shapes := universe.Shapes(2, 2)
	pick := map[string]bool{}
	for _, s := range []string{"P0", "P1", "L0", "L2", "L3", "Y0", "Y1", "Y2", "MP[]", "MP[P1]", "MP[P1 P1]", "ML[]", "ML[L2]", "ML[L2 L3]", "ML[L0 L2]",
		"MY[]", "MY[Y1]", "MY[Y2 Y1]", "MY[Y0 Y1]", "GC[]", "GC[P1]", "GC[P0 L2]", "GC[Y2 MP[P1 P1]]", "GC[GC[P1] L2]", "GC[GC[L2 Y0] P1]", "GC[ML[L2] MY[Y1]]"} {
		pick[s] = true
	}
	for _, s := range shapes {
		if !pick[s.String()] {
			continue
		}
		for _, ct := range allCT {
			if (ct == geom.DimXYM || ct == geom.DimXYZ) && len(s.Kids) > 1 && s.T != geom.TypeGeometryCollection {
				continue
			}
			g := universe.Build(s, ct, &universe.CellSupplier{})
			if g.Validate() == nil {
				out = append(out, g)
			}
		}
	}
	return out
}

func c08Main(r *engine.Run) {
	r.Level = "fault_enumeration"
	r.Rule = "corpus of valid encodings (WKB little/big endian, TWKB with header subsets, WKT, GeoJSON, Feature, FeatureCollection of ~70 geometries covering 7 types × 4 coordinate types × empty/1/2 members/nested) × fault operators: every truncation, every single-byte substitution (all 256 values at order/type/count/header positions, boundary values elsewhere), every 4-byte count := {0,1,2^31-1,2^31,2^32-1,...} in both byte orders, varints 2^k / 2^64-1 / over-long spliced at every position, every token deleted / duplicated / replaced by each vocabulary token, every prefix; WKT templates with every control point scaled by every value of {1,3e-200,3e200,1e308} (magnitude mixtures); GeometryCollections nested 16 / 256 / 2000 (thorough 7000) deep in every format, and WKB / TWKB levels each claiming as many members as the remaining input could hold; GeoJSON coordinates that are any nesting of [] and null up to depth 3 (thorough 4) for every type; plus all byte strings of length ≤ 2 and all strings of length 3..L over {00,01,02,07,10,ff}. Each case runs in a sacrificial process (RLIMIT_AS 4 GiB) through every entry point of its format; oracle: no panic, no process death, TotalAlloc ≤ 1 MiB + 512·len, returned geometries valid and re-encodable. non-trivial = distinct mutated inputs that some entry point still accepts; outcomes = distinct (format, per-entry-point outcome) tuples"
	corpus := c08Corpus()
	r.States.Add(int64(len(corpus)))
	var cases []faultCase
	wktVocab := []string{"(", ")", ",", "EMPTY", "POINT", "POLYGON", "MULTIPOINT", "GEOMETRYCOLLECTION", "Z", "ZM", "1", "-1", "1e400", "NaN", "0x1p-2", "-", " "}
	jsonVocab := []string{"{", "}", "[", "]", ",", ":", "null", "1", "-1e400", `"type"`, `"Point"`, `"Polygon"`, `"GeometryCollection"`, `"coordinates"`, `"geometries"`, `"Feature"`, `"x"`, "true"}
	edits := 1
	maxShort := 6
	if r.Thorough() {
		edits, maxShort = 2, 8
	}
	for gi, g := range corpus {
		n := refcodec.Describe(g)
		origin := fmt.Sprintf("corpus[%d] %s", gi, g.AsText())
		if len(origin) > 120 {
			origin = origin[:120]
		}
		le, lf := refcodec.WKB(n, nil)
		wkbFaults(le, lf, "WKB-LE "+origin, &cases)
		if gi%3 == 0 || r.Thorough() {
			all := make([]bool, n.NumElements())
			for i := range all {
				all[i] = true
			}
			be, bf := refcodec.WKB(n, all)
			wkbFaults(be, bf, "WKB-BE "+origin, &cases)
		}
		for mask := 0; mask < 4; mask++ {
			if mask != 0 && mask != 3 && !r.Thorough() && gi%4 != 0 {
				continue
			}
			var opts []geom.TWKBWriterOption
			if mask&1 != 0 {
				opts = append(opts, geom.TWKBSizeHeader())
			}
			if mask&2 != 0 {
				opts = append(opts, geom.TWKBBoundingBoxHeader())
				if nm, multi := numMembers(g); multi && nm > 0 && !g.IsEmpty() {
					ids := make([]int64, nm)
					for i := range ids {
						ids[i] = int64(i + 1)
					}
					opts = append(opts, geom.TWKBIDList(ids))
				}
			}
			if tw, err := geom.MarshalTWKB(g, 1, opts...); err == nil {
				twkbFaults(tw, fmt.Sprintf("TWKB(opts %d) %s", mask, origin), &cases)
			}
		}
		if g.CoordinatesType() == geom.DimXY || g.CoordinatesType() == geom.DimXYZM {
			textFaults(fmtWKT, g.AsText(), wktVocab, edits, "WKT "+origin, &cases)
		}
		if g.CoordinatesType() == geom.DimXY || g.CoordinatesType() == geom.DimXYZ {
			js, _ := g.MarshalJSON()
			textFaults(fmtGeoJSON, string(js), jsonVocab, edits, "GeoJSON "+origin, &cases)
			if gi%5 == 0 {
				fj, _ := json.Marshal(geom.GeoJSONFeature{Geometry: g, ID: 7, Properties: map[string]interface{}{"k": []interface{}{1, nil}}, ForeignMembers: map[string]interface{}{"bbox": []int{0, 1}}})
				textFaults(fmtFeature, string(fj), jsonVocab, 1, "Feature "+origin, &cases)
				cj, _ := json.Marshal(geom.GeoJSONFeatureCollection{{Geometry: g}, {Geometry: corpus[(gi+7)%len(corpus)].Force2D()}})
				textFaults(fmtFeature, string(cj), jsonVocab, 1, "FeatureCollection "+origin, &cases)
			}
		}
	}
	// grammar-generated GeoJSON: every pair of members (6 type templates × every
	// assignment of position lengths {0,2,3} (thorough: 0..5)) as a GeometryCollection, and each alone
	lens := []int{0, 2, 3}
	if r.Thorough() {
		lens = []int{0, 1, 2, 3, 5}
	}
	var members []string
	for _, t := range gjTemplates {
		np := len(t.xy)
		cur := make([]int, np)
		var rec func(i int)
		rec = func(i int) {
			if i == np {
				members = append(members, fmt.Sprintf(`{"type":%q,"coordinates":%s}`, t.typ, t.coords(cur)))
				return
			}
			for _, l := range lens {
				cur[i] = l
				rec(i + 1)
			}
		}
		rec(0)
	}
	for i, a := range members {
		cases = append(cases, faultCase{fmtGeoJSON, []byte(a), "grammar member"})
		if r.Thorough() && i%3 != 0 {
			continue
		}
		for j, b := range members {
			if r.Thorough() && j%3 != 0 {
				continue
			}
			cases = append(cases, faultCase{fmtGeoJSON, []byte(`{"type":"GeometryCollection","geometries":[` + a + "," + b + "]}"), "grammar collection"})
		}
	}
	r.Extra["grammar_geojson_members"] = len(members)
	// skeletons without a single number: every nesting of [] and null up to depth 3 (thorough 4) and
	// width 2 as the coordinates of each type (empty rings, empty members, null in place of an array),
	// alone, as the only member of a collection and next to a member that does have a position
	{
		depth := 3
		if r.Thorough() {
			depth = 4
		}
		var skel func(d int) []string
		skel = func(d int) []string {
			out := []string{"[]", "null"}
			if d > 1 {
				sub := skel(d - 1)
				for _, a := range sub {
					out = append(out, "["+a+"]")
				}
				for _, a := range sub {
					for _, b := range sub {
						out = append(out, "["+a+","+b+"]")
					}
				}
			}
			return out
		}
		n := 0
		for _, t := range gjTemplates {
			for _, sk := range skel(depth) {
				m := fmt.Sprintf(`{"type":%q,"coordinates":%s}`, t.typ, sk)
				cases = append(cases, faultCase{fmtGeoJSON, []byte(m), "skeleton member"})
				n++
				if len(sk) <= 12 || !r.Thorough() {
					cases = append(cases, faultCase{fmtGeoJSON, []byte(`{"type":"GeometryCollection","geometries":[` + m + `]}`), "skeleton in a collection"},
						faultCase{fmtGeoJSON, []byte(`{"type":"GeometryCollection","geometries":[` + m + `,{"type":"Point","coordinates":[1,2]}]}`), "skeleton next to a point"})
					n += 2
				}
			}
		}
		r.Extra["skeleton_geojson_cases"] = n
	}
	r.Extra["nesting_cases"] = nestingFaults(r.Thorough(), &cases)
	nmix := magnitudeMixtures(r.Thorough(), &cases)
	r.Extra["magnitude_mixture_cases"] = nmix
	shortInputs(fmtWKB, maxShort, &cases)
	shortInputs(fmtTWKB, maxShort, &cases)
	// de-duplicate identical (format, data)
	seen := map[string]bool{}
	uniq := cases[:0]
	for _, c := range cases {
		k := string(c.format) + string(c.data)
		if !seen[k] {
			seen[k] = true
			uniq = append(uniq, c)
		}
	}
	cases = uniq
	r.Extra["corpus_geometries"] = len(corpus)
	r.Extra["fault_cases"] = len(cases)
	for i := 0; i < len(cases); i += len(cases)/5 + 1 {
		r.Sample("fault", cases[i].export())
	}
	if runFaults(r, cases) {
		r.Bound(fmt.Sprintf("%d distinct fault cases over a corpus of %d geometries (token edits ≤ %d, arbitrary strings up to length %d)", len(cases), len(corpus), edits, maxShort))
	}
}

// nestingFaults: GeometryCollections nested d deep in every format (innermost: an empty collection,
// a point, an invalid LineString whose error is reported through every level, or nothing at all — truncated), and for WKB the variant in which every level claims
// as many members as its remaining input could hold. Decoding must stay within the allocation
// bound: nesting must not make cost quadratic in the input, and counts must not be pre-allocated
// level after level.
func nestingFaults(thorough bool, out *[]faultCase) int {
	depths := []int{16, 256, 2000}
	if thorough {
		depths = append(depths, 7000)
	}
	n := 0
	add := func(f byte, b []byte, o string) {
		*out = append(*out, faultCase{f, b, o})
		n++
	}
	le32 := func(v uint32) []byte { return []byte{byte(v), byte(v >> 8), byte(v >> 16), byte(v >> 24)} }
	for _, d := range depths {
		for _, inner := range []string{"emptyGC", "point", "truncated", "invalidLine"} {
			o := fmt.Sprintf("nesting depth %d, innermost %s", d, inner)
			// WKB little endian: 01 07000000 01000000 per level
			var wkb []byte
			for i := 0; i < d; i++ {
				wkb = append(wkb, 1, 7, 0, 0, 0, 1, 0, 0, 0)
			}
			switch inner {
			case "emptyGC":
				wkb = append(wkb, 1, 7, 0, 0, 0, 0, 0, 0, 0)
			case "point":
				wkb = append(wkb, 1, 1, 0, 0, 0)
				wkb = append(wkb, make([]byte, 16)...)
			case "invalidLine": // a LineString with a single point: the validation error travels up through every level
				wkb = append(wkb, 1, 2, 0, 0, 0, 1, 0, 0, 0)
				wkb = append(wkb, make([]byte, 16)...)
			}
			add(fmtWKB, wkb, "WKB "+o)
			// TWKB: type 7 precision 0, no metadata flags, count 1 per level
			var tw []byte
			for i := 0; i < d; i++ {
				tw = append(tw, 0x07, 0x00, 0x01)
			}
			switch inner {
			case "emptyGC":
				tw = append(tw, 0x07, 0x10)
			case "point":
				tw = append(tw, 0x01, 0x00, 0x02, 0x04)
			case "invalidLine":
				tw = append(tw, 0x02, 0x00, 0x01, 0x02, 0x04)
			}
			add(fmtTWKB, tw, "TWKB "+o)
			// WKT
			wkt := strings.Repeat("GEOMETRYCOLLECTION(", d)
			switch inner {
			case "emptyGC":
				wkt += "GEOMETRYCOLLECTION EMPTY" + strings.Repeat(")", d)
			case "point":
				wkt += "POINT(1 2)" + strings.Repeat(")", d)
			case "invalidLine":
				wkt += "LINESTRING(1 2)" + strings.Repeat(")", d)
			}
			add(fmtWKT, []byte(wkt), "WKT "+o)
			// GeoJSON
			gj := strings.Repeat(`{"type":"GeometryCollection","geometries":[`, d)
			switch inner {
			case "emptyGC":
				gj += `{"type":"GeometryCollection","geometries":[]}` + strings.Repeat("]}", d)
			case "point":
				gj += `{"type":"Point","coordinates":[1,2]}` + strings.Repeat("]}", d)
			case "invalidLine":
				gj += `{"type":"LineString","coordinates":[[1,2]]}` + strings.Repeat("]}", d)
			}
			add(fmtGeoJSON, []byte(gj), "GeoJSON "+o)
		}
		// WKB count amplification: level k claims floor(remaining/5) members
		total := 9 * d
		var amp []byte
		for i := 0; i < d; i++ {
			rem := total - 9*(i+1)
			c := uint32(rem / 5)
			if c == 0 {
				c = 1
			}
			amp = append(amp, 1, 7, 0, 0, 0)
			amp = append(amp, le32(c)...)
		}
		add(fmtWKB, amp, fmt.Sprintf("WKB nesting depth %d, every level claiming remaining/5 members", d))
		// TWKB count amplification: level k claims as many members as bytes remain (count as a 1..3 byte varint)
		{
			var body []byte
			// build from the innermost level outwards so that each count can be the exact remaining length
			for i := 0; i < d; i++ {
				rem := uint64(len(body))
				if rem == 0 {
					rem = 1
				}
				level := append([]byte{0x07, 0x00}, uvarintBytes(rem)...)
				body = append(level, body...)
			}
			add(fmtTWKB, body, fmt.Sprintf("TWKB nesting depth %d, every level claiming as many members as bytes remain", d))
		}
	}
	return n
}

// magnitudeMixtures: WKT of small lineal and areal templates in which every control point's X
// (or Y, or both) is multiplied by each scale of {1, 3e-200, 3e200, 1e308} independently — every
// assignment. Finite but extreme ordinates make cross products and crossing points overflow to
// Inf/NaN inside validation; decoders must still answer with an error or a geometry.
func magnitudeMixtures(thorough bool, out *[]faultCase) int {
	type tm struct {
		kind  string
		parts [][]int
		pts   [][2]float64
	}
	tmpls := []tm{
		{"MULTIPOLYGON", [][]int{{0, 1, 2}, {3, 4, 5}}, [][2]float64{{1, 1}, {1, 0}, {-1, 0.5}, {1, 3}, {0.5, 0.5}, {1, 3}}},
		{"MULTIPOLYGON", [][]int{{0, 1, 2}, {3, 4, 5}}, [][2]float64{{0, 0}, {4, 0}, {0, 4}, {4, 4}, {4, 0}, {0, 4}}},
		{"LINESTRING", [][]int{{0, 1, 2, 3, 4}}, [][2]float64{{0, 0}, {2, 1}, {1, 3}, {3, 2}, {4, 4}}},
		{"MULTILINESTRING", [][]int{{0, 1, 2}, {3, 4, 5}}, [][2]float64{{0, 0}, {2, 1}, {1, 3}, {3, 0}, {2, 2}, {0, 3}}},
		{"POLYGON", [][]int{{0, 1, 2, 3, 4}}, [][2]float64{{0, 0}, {4, 0}, {5, 3}, {2, 5}, {-1, 3}}},
	}
	if thorough {
		tmpls = append(tmpls,
			tm{"POLYGON", [][]int{{0, 1, 2, 3}, {4, 5, 6}}, [][2]float64{{0, 0}, {9, 0}, {9, 9}, {0, 9}, {2, 2}, {2, 5}, {5, 2}}},
			tm{"POLYGON", [][]int{{0, 1, 2, 3}, {4, 5, 6}}, [][2]float64{{0, 0}, {8, 0}, {8, 8}, {0, 8}, {0, 0}, {4, 1}, {1, 4}}},
			tm{"MULTIPOLYGON", [][]int{{0, 1, 2}, {3, 4, 5}, {6, 7, 8}}, [][2]float64{{0, 0}, {2, 0}, {1, 2}, {3, 0}, {5, 0}, {4, 2}, {1, 3}, {4, 3}, {2, 5}}},
		)
	}
	scales := []float64{1, 3e-200, 3e200, 1e308}
	n := 0
	for _, t := range tmpls {
		np := len(t.pts)
		total := 1
		for i := 0; i < np; i++ {
			total *= len(scales)
		}
		for axis := 0; axis < 3; axis++ {
			for code := 0; code < total; code++ {
				c := code
				P := make([][2]float64, np)
				for i := range P {
					sc := scales[c%len(scales)]
					c /= len(scales)
					P[i] = t.pts[i]
					if axis != 1 {
						P[i][0] *= sc
					}
					if axis != 0 {
						P[i][1] *= sc
					}
				}
				var parts []string
				for _, part := range t.parts {
					var cs []string
					for _, i := range part {
						cs = append(cs, strconv.FormatFloat(P[i][0], 'g', -1, 64)+" "+strconv.FormatFloat(P[i][1], 'g', -1, 64))
					}
					if t.kind == "POLYGON" || t.kind == "MULTIPOLYGON" {
						cs = append(cs, cs[0])
					}
					parts = append(parts, "("+strings.Join(cs, ",")+")")
				}
				var w string
				switch t.kind {
				case "LINESTRING":
					w = "LINESTRING" + parts[0]
				case "MULTIPOLYGON":
					w = "MULTIPOLYGON((" + strings.Join(parts, "),(") + "))"
				default:
					w = t.kind + "(" + strings.Join(parts, ",") + ")"
				}
				*out = append(*out, faultCase{fmtWKT, []byte(w), "magnitude mixture"})
				n++
			}
		}
	}
	return n
}

func c08Replay(r *engine.Run, sub string, raw json.RawMessage) error {
	var c c08Case
	if err := json.Unmarshal(raw, &c); err != nil {
		return err
	}
	d, err := hex.DecodeString(c.Hex)
	if err != nil {
		return err
	}
	runFaults(r, []faultCase{{c.Format[0], d, c.Origin}})
	return nil
}

var _ = bytes.Equal

func init() {
	engine.Register(&engine.Check{ID: "C08", Main: c08Main, Replay: c08Replay})
}

package checks

import (
	"encoding/json"
	"fmt"
	"sort"
	"strings"

	"github.com/peterstace/simplefeatures/geom"
	"verif/engine"
	"verif/refcodec"
	"verif/universe"
)

// forceNode is the reference for ForceCoordinatesType: dropped dimensions
// disappear, added ones are zero, XY never changes.
func forceNode(n refcodec.Node, to geom.CoordinatesType) refcodec.Node {
	o := refcodec.Node{T: n.T, CT: to, Empty: n.Empty}
	for _, c := range n.Coords {
		var z, m float64
		i := 2
		if n.CT.Is3D() {
			z = c[i]
			i++
		}
		if n.CT.IsMeasured() {
			m = c[i]
		}
		t := []float64{c[0], c[1]}
		if to.Is3D() {
			t = append(t, z)
		}
		if to.IsMeasured() {
			t = append(t, m)
		}
		o.Coords = append(o.Coords, t)
	}
	for _, k := range n.Kids {
		o.Kids = append(o.Kids, forceNode(k, to))
	}
	return o
}

// tuples collects every coordinate tuple below n as strings (with the
// coordinates type), sorted: the multiset of (X,Y,Z,M) payloads.
func tuples(n refcodec.Node) []string {
	var out []string
	var walk func(n refcodec.Node)
	walk = func(n refcodec.Node) {
		for _, c := range n.Coords {
			out = append(out, fmt.Sprint(n.CT, c))
		}
		for _, k := range n.Kids {
			walk(k)
		}
	}
	walk(n)
	sort.Strings(out)
	return out
}

func allXY(n refcodec.Node) bool {
	if n.CT != geom.DimXY {
		return false
	}
	for _, k := range n.Kids {
		if !allXY(k) {
			return false
		}
	}
	return true
}

// ringTuples: for ForceCW/CCW and Reverse the closing vertex of a ring is
// repeated; compare as multisets.
func c16One(r *engine.Run, g geom.Geometry, c shapeCase) {
	bad := func(k, d string) { r.Violation("C16/"+k, "shape", c, d) }
	n := refcodec.Describe(g)
	r.Evaluations.Add(1)
	if s := refcodec.Consistent(n); s != "" {
		bad("inconsistent.input", s)
		return
	}
	ct := g.CoordinatesType()
	desc := func(op string, h geom.Geometry) (refcodec.Node, bool) {
		r.Transitions.Add(1)
		hn := refcodec.Describe(h)
		if s := refcodec.Consistent(hn); s != "" {
			bad("inconsistent."+op, s+" in "+h.AsText())
			return hn, false
		}
		return hn, true
	}
	try := func(op string, f func()) bool {
		if p := engine.SafeCall(f); p != nil {
			bad("panic."+op, fmt.Sprint(p))
			return false
		}
		return true
	}
	// Force*
	for _, to := range allCT {
		var h geom.Geometry
		if !try("ForceCoordinatesType", func() { h = g.ForceCoordinatesType(to) }) {
			continue
		}
		if hn, ok := desc("ForceCoordinatesType", h); ok {
			if d := refcodec.Diff(forceNode(n, to), hn); d != "" {
				bad(fmt.Sprintf("ForceCoordinatesType(%v)", to), d)
			}
		}
		// a dropped dimension is gone for good: forcing again adds zeros, never the old payload
		for _, again := range allCT {
			var h2 geom.Geometry
			if !try("ForceCoordinatesType twice", func() { h2 = h.ForceCoordinatesType(again) }) {
				continue
			}
			if hn, ok := desc("ForceCoordinatesType twice", h2); ok {
				if d := refcodec.Diff(forceNode(forceNode(n, to), again), hn); d != "" {
					bad(fmt.Sprintf("ForceCoordinatesType(%v).ForceCoordinatesType(%v)", to, again), d)
				}
			}
		}
	}
	var f2 geom.Geometry
	if try("Force2D", func() { f2 = g.Force2D() }) {
		if hn, ok := desc("Force2D", f2); ok {
			if d := refcodec.Diff(forceNode(n, geom.DimXY), hn); d != "" {
				bad("Force2D", d)
			}
		}
	}
	// structure preserving: same ctype, payload travels with its XY
	keep := func(op string, h geom.Geometry, sameTuples bool) {
		hn, ok := desc(op, h)
		if !ok {
			return
		}
		if hn.CT != ct {
			bad(op+".coordinatesType", fmt.Sprintf("%v became %v", ct, hn.CT))
			return
		}
		if hn.T != n.T {
			bad(op+".type", fmt.Sprint(hn.T))
		}
		if sameTuples && fmt.Sprint(tuples(hn)) != fmt.Sprint(tuples(n)) {
			bad(op+".payload", fmt.Sprintf("tuples %v became %v", tuples(n), tuples(hn)))
		}
	}
	var h geom.Geometry
	if try("Reverse", func() { h = g.Reverse() }) {
		keep("Reverse", h, true)
	}
	if try("ForceCW", func() { h = g.ForceCW() }) {
		keep("ForceCW", h, true)
	}
	if try("ForceCCW", func() { h = g.ForceCCW() }) {
		keep("ForceCCW", h, true)
	}
	if try("SnapToGrid", func() { h = g.SnapToGrid(0) }) {
		if hn, ok := desc("SnapToGrid", h); ok {
			if d := refcodec.Diff(n, hn); d != "" {
				bad("SnapToGrid(0).onIntegers", d)
			}
		}
	}
	if try("TransformXY", func() { h = g.TransformXY(func(p geom.XY) geom.XY { return geom.XY{X: p.X + 100, Y: p.Y - 50} }) }) {
		if hn, ok := desc("TransformXY", h); ok {
			var shift func(n refcodec.Node) refcodec.Node
			shift = func(n refcodec.Node) refcodec.Node {
				o := n
				o.Coords = nil
				for _, c := range n.Coords {
					t := append([]float64{c[0] + 100, c[1] - 50}, c[2:]...)
					o.Coords = append(o.Coords, t)
				}
				o.Kids = nil
				for _, k := range n.Kids {
					o.Kids = append(o.Kids, shift(k))
				}
				return o
			}
			if d := refcodec.Diff(shift(n), hn); d != "" {
				bad("TransformXY", d)
			}
		}
	}
	for _, d := range []float64{0.75, 2, 100} {
		if try("Densify", func() { h = g.Densify(d) }) {
			hn, ok := desc("Densify", h)
			if !ok || hn.CT != ct {
				if ok {
					bad("Densify.coordinatesType", fmt.Sprint(hn.CT))
				}
				continue
			}
			// originals are a subsequence of each line, with payload
			var cmp func(a, b refcodec.Node, path string)
			cmp = func(a, b refcodec.Node, path string) {
				if len(a.Kids) != len(b.Kids) {
					bad("Densify.structure", path)
					return
				}
				j := 0
				for _, oc := range a.Coords {
					for j < len(b.Coords) && fmt.Sprint(b.Coords[j]) != fmt.Sprint(oc) {
						j++
					}
					if j == len(b.Coords) {
						bad("Densify.originalVertexLostOrPayloadChanged", fmt.Sprintf("%s: %v not found in order in %v", path, oc, b.Coords))
						return
					}
					j++
				}
				for i := range a.Kids {
					cmp(a.Kids[i], b.Kids[i], fmt.Sprintf("%s/%d", path, i))
				}
			}
			cmp(n, hn, "root")
		}
	}
	// accessors
	if try("DumpCoordinates", func() {
		s := g.DumpCoordinates()
		if s.CoordinatesType() != ct {
			bad("DumpCoordinates.coordinatesType", fmt.Sprint(s.CoordinatesType()))
		}
		var got []string
		for i := 0; i < s.Length(); i++ {
			cc := s.Get(i)
			t := []float64{cc.X, cc.Y}
			if ct.Is3D() {
				t = append(t, cc.Z)
			}
			if ct.IsMeasured() {
				t = append(t, cc.M)
			}
			if cc.Type != ct {
				bad("DumpCoordinates.elementType", fmt.Sprint(cc.Type))
			}
			got = append(got, fmt.Sprint(ct, t))
		}
		sort.Strings(got)
		if fmt.Sprint(got) != fmt.Sprint(tuples(n)) {
			bad("DumpCoordinates.payload", fmt.Sprint(got))
		}
	}) {
	}
	if try("Dump", func() {
		var all []string
		for _, m := range g.Dump() {
			mn, ok := desc("Dump", m)
			if !ok {
				return
			}
			if mn.CT != ct {
				bad("Dump.coordinatesType", fmt.Sprintf("%v member of %v", mn.CT, ct))
			}
			all = append(all, tuples(mn)...)
		}
		sort.Strings(all)
		if fmt.Sprint(all) != fmt.Sprint(tuples(n)) {
			bad("Dump.payload", fmt.Sprint(all))
		}
	}) {
	}
	switch g.Type() {
	case geom.TypePolygon:
		try("DumpRings", func() {
			for _, rg := range g.MustAsPolygon().DumpRings() {
				if rg.CoordinatesType() != ct || rg.Coordinates().CoordinatesType() != ct {
					bad("DumpRings.coordinatesType", rg.AsText())
				}
			}
			for _, s := range g.MustAsPolygon().Coordinates() {
				if s.CoordinatesType() != ct {
					bad("Polygon.Coordinates.coordinatesType", fmt.Sprint(s.CoordinatesType()))
				}
			}
			mp := g.MustAsPolygon().AsMultiPolygon()
			if mp.CoordinatesType() != ct || fmt.Sprint(tuples(refcodec.Describe(mp.AsGeometry()))) != fmt.Sprint(tuples(n)) {
				bad("AsMultiPolygon", mp.AsText())
			}
		})
	case geom.TypeLineString:
		try("AsMultiLineString", func() {
			if m := g.MustAsLineString().AsMultiLineString(); m.CoordinatesType() != ct || fmt.Sprint(tuples(refcodec.Describe(m.AsGeometry()))) != fmt.Sprint(tuples(n)) {
				bad("AsMultiLineString", m.AsText())
			}
		})
	case geom.TypePoint:
		try("AsMultiPoint", func() {
			if m := g.MustAsPoint().AsMultiPoint(); m.CoordinatesType() != ct || fmt.Sprint(tuples(refcodec.Describe(m.AsGeometry()))) != fmt.Sprint(tuples(n)) {
				bad("AsMultiPoint", m.AsText())
			}
		})
	case geom.TypeMultiPoint:
		try("MultiPoint.Coordinates", func() {
			if s := g.MustAsMultiPoint().Coordinates(); s.CoordinatesType() != ct {
				bad("MultiPoint.Coordinates.coordinatesType", fmt.Sprint(s.CoordinatesType()))
			}
		})
	case geom.TypeMultiLineString:
		try("MultiLineString.Coordinates", func() {
			for _, s := range g.MustAsMultiLineString().Coordinates() {
				if s.CoordinatesType() != ct {
					bad("MultiLineString.Coordinates.coordinatesType", fmt.Sprint(s.CoordinatesType()))
				}
			}
		})
	case geom.TypeMultiPolygon:
		try("MultiPolygon.Coordinates", func() {
			for _, ss := range g.MustAsMultiPolygon().Coordinates() {
				for _, s := range ss {
					if s.CoordinatesType() != ct {
						bad("MultiPolygon.Coordinates.coordinatesType", fmt.Sprint(s.CoordinatesType()))
					}
				}
			}
		})
	}
	// codecs keep everything
	try("WKB", func() {
		h, err := geom.UnmarshalWKB(g.AsBinary(), geom.NoValidate{})
		if err != nil {
			bad("WKB.error", err.Error())
		} else if d := refcodec.Diff(n, refcodec.Describe(h)); d != "" {
			bad("WKB.roundtrip", d)
		}
	})
	try("WKT", func() {
		h, err := geom.UnmarshalWKT(g.AsText(), geom.NoValidate{})
		if err != nil {
			bad("WKT.error", err.Error())
		} else if d := refcodec.Diff(n, refcodec.Describe(h)); d != "" {
			bad("WKT.roundtrip", d)
		}
	})
	// XY-only operations
	xyOnly := func(op string, f func() geom.Geometry) {
		var h geom.Geometry
		if !try(op, func() { h = f() }) {
			return
		}
		if hn, ok := desc(op, h); ok && !allXY(hn) {
			bad(op+".notXY", h.AsText())
		}
	}
	xyOnly("Centroid", func() geom.Geometry { return g.Centroid().AsGeometry() })
	xyOnly("ConvexHull", func() geom.Geometry { return g.ConvexHull() })
	xyOnly("PointOnSurface", func() geom.Geometry { return g.PointOnSurface().AsGeometry() })
	xyOnly("Envelope.AsGeometry", func() geom.Geometry { return g.Envelope().AsGeometry() })
	xyOnly("Envelope.Center", func() geom.Geometry { return g.Envelope().Center().AsGeometry() })
	xyOnly("RotatedMinimumAreaBoundingRectangle", func() geom.Geometry { return geom.RotatedMinimumAreaBoundingRectangle(g) })
	if g.Validate() == nil {
		other := geom.NewPolygonXYZM([]float64{1, 1, 5, 6, 9, 1, 5, 6, 1, 9, 5, 6, 1, 1, 5, 6}).AsGeometry()
		for name, op := range map[string]func(a, b geom.Geometry) (geom.Geometry, error){"Union": geom.Union, "Intersection": geom.Intersection, "Difference": geom.Difference, "SymmetricDifference": geom.SymmetricDifference} {
			xyOnly(name, func() geom.Geometry { h, _ := op(g, other); return h })
			xyOnly(name+"(swapped)", func() geom.Geometry { h, _ := op(other, g); return h })
		}
		xyOnly("UnaryUnion", func() geom.Geometry { h, _ := geom.UnaryUnion(g); return h })
	}
}

// c16Mixed: constructors reduce members built with different coordinate types
// to the common subset.
func c16Mixed(r *engine.Run) {
	cs := &universe.CellSupplier{}
	var n int
	mk := func(kind byte, idx int, ct geom.CoordinatesType) geom.Geometry {
		s := universe.Shape{T: geom.TypePoint, N: 1}
		switch kind {
		case 'L':
			s = universe.Shape{T: geom.TypeLineString, N: 3}
		case 'Y':
			s = universe.Shape{T: geom.TypePolygon, N: 2}
		case 'e':
			s = universe.Shape{T: geom.TypePoint, N: 0}
		case 'E':
			s = universe.Shape{T: geom.TypePolygon, N: 0}
		}
		_ = idx
		return universe.Build(s, ct, cs)
	}
	for cnt := 1; cnt <= 3; cnt++ {
		total := 1
		for i := 0; i < cnt; i++ {
			total *= 4
		}
		for a := 0; a < total; a++ {
			cts := make([]geom.CoordinatesType, cnt)
			and := geom.DimXYZM
			x := a
			for i := range cts {
				cts[i] = geom.CoordinatesType(x % 4)
				and &= cts[i]
				x /= 4
			}
			for _, kinds := range []string{"PPP", "LLL", "YYY", "PLY", "ePP", "PeP", "LEY", "YYE"} {
				var ms []geom.Geometry
				for i := 0; i < cnt; i++ {
					ms = append(ms, mk(kinds[i], i, cts[i]))
				}
				c := map[string]interface{}{"kinds": kinds[:cnt], "ctypes": fmt.Sprint(cts)}
				var built []geom.Geometry
				if p := engine.SafeCall(func() {
					built = append(built, geom.NewGeometryCollection(ms).AsGeometry())
					homog := true
					for i := 1; i < cnt; i++ {
						if ms[i].Type() != ms[0].Type() {
							homog = false
						}
					}
					if homog {
						switch ms[0].Type() {
						case geom.TypePoint:
							var ps []geom.Point
							for _, m := range ms {
								ps = append(ps, m.MustAsPoint())
							}
							built = append(built, geom.NewMultiPoint(ps).AsGeometry())
						case geom.TypeLineString:
							var ps []geom.LineString
							for _, m := range ms {
								ps = append(ps, m.MustAsLineString())
							}
							built = append(built, geom.NewMultiLineString(ps).AsGeometry(), geom.NewPolygon(ps).AsGeometry())
						case geom.TypePolygon:
							var ps []geom.Polygon
							for _, m := range ms {
								ps = append(ps, m.MustAsPolygon())
							}
							built = append(built, geom.NewMultiPolygon(ps).AsGeometry())
						}
					}
				}); p != nil {
					r.Violation("C16/constructor.panic", "mixed", c, fmt.Sprint(p))
					continue
				}
				for _, b := range built {
					n++
					r.Evaluations.Add(1)
					r.Transitions.Add(1)
					bn := refcodec.Describe(b)
					if s := refcodec.Consistent(bn); s != "" {
						r.Violation("C16/constructor.inconsistent", "mixed", c, s+" in "+b.AsText())
						continue
					}
					if bn.CT != and {
						r.Violation("C16/constructor.notCommonSubset", "mixed", c, fmt.Sprintf("%v, expected %v: %s", bn.CT, and, b.AsText()))
						continue
					}
					// members keep their payload in the surviving dimensions
					for i, k := range bn.Kids {
						if i < len(ms) {
							want := forceNode(refcodec.Describe(ms[i]), and)
							if b.Type() == geom.TypePolygon {
								want = forceNode(refcodec.Describe(ms[i]), and)
							}
							if d := refcodec.Diff(want, k); d != "" {
								r.Violation("C16/constructor.memberPayload", "mixed", c, d)
							}
						}
					}
					r.Nontrivial(fmt.Sprint(kinds[:cnt], cts, b.Type()))
				}
			}
		}
	}
	r.States.Add(int64(n))
	r.Bound(fmt.Sprintf("constructors over members built with every assignment of the 4 coordinate types to 1..3 members × 8 member-kind patterns (%d geometries)", n))
	r.Sample("mixed", map[string]interface{}{"kinds": "PLY", "ctypes": "[XYZ XYM XYZM]"})
}

func c16Main(r *engine.Run) {
	r.Rule = "structural shapes S(d,w) × 4 coordinate types (valid cell-lattice instantiation, every vertex tagged Z=1000+i, M=2000+i) and collections whose members were constructed with different coordinate types (all 4^n assignments, n ≤ 3): one coordinate type reported by every accessor; ForceCoordinatesType×4 / Force2D against a reference; Reverse, ForceCW/CCW, SnapToGrid, TransformXY, Densify, Dump, DumpCoordinates, DumpRings, Coordinates, AsMulti*, WKB/WKT keep type and carry each vertex's payload; Centroid, ConvexHull, PointOnSurface, Envelope, set operations return XY. non-trivial = non-XY shapes with an empty member or depth ≥ 2, and mixed-type constructions"
	c16Mixed(r)
	c16Ctors(r)
	d, w := 2, 2
	if r.Thorough() {
		d, w = 3, 3
	}
	shapes := universe.Shapes(d, w)
	r.States.Add(int64(len(shapes)))
	if r.Parallel(len(shapes), func(i int) {
		s := shapes[i]
		for _, ct := range allCT {
			c := shapeCase{D: d, W: w, Idx: i, Shape: s.String(), CT: int(ct), Sup: "cell"}
			g := universe.Build(s, ct, &universe.CellSupplier{})
			if p := engine.SafeCall(func() { c16One(r, g, c) }); p != nil {
				r.Violation("C16/panic", "shape", c, fmt.Sprint(p))
			}
			if ct != geom.DimXY && strings.Contains(s.String(), "Y") {
				// rings whose closing vertex carries its own Z/M
				c.Sup = "cell-distinct-close"
				g := universe.Build(s, ct, &universe.CellSupplier{DistinctClose: true})
				if p := engine.SafeCall(func() { c16One(r, g, c) }); p != nil {
					r.Violation("C16/panic", "shape", c, fmt.Sprint(p))
				}
			}
			if ct != geom.DimXY && (s.HasEmptyMember() || s.Depth() >= 2) {
				r.Nontrivial(fmt.Sprint(s.String(), ct))
			}
			if i%307 == 0 && ct == geom.DimXYZM {
				r.Sample("shape", c)
			}
		}
	}) {
		r.Bound(fmt.Sprintf("S(%d,%d) = %d shapes × 4 ctypes × ~45 operations", d, w, len(shapes)))
	}
}

func c16Replay(r *engine.Run, sub string, raw json.RawMessage) error {
	if sub != "shape" {
		return fmt.Errorf("sub %q has no single-case replay; re-run the check", sub)
	}
	var c shapeCase
	if err := json.Unmarshal(raw, &c); err != nil {
		return err
	}
	g := universe.Build(universe.Shapes(c.D, c.W)[c.Idx], geom.CoordinatesType(c.CT), &universe.CellSupplier{DistinctClose: c.Sup == "cell-distinct-close"})
	c16One(r, g, c)
	return nil
}

func init() {
	engine.Register(&engine.Check{ID: "C16", Main: c16Main, Replay: c16Replay})
}

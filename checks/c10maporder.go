//go:build !envx

package checks

import (
	"encoding/json"
	"fmt"
	"os"
	"os/exec"
	"path/filepath"
	"runtime"
	"sort"
	"sync"

	"verif/engine"
)

type envxSummary struct {
	Executions      int64          `json:"executions"`
	Harnesses       int            `json:"harnesses"`
	MaxChoicePoints int            `json:"max_choice_points"`
	MaxKeys         int            `json:"max_keys"`
	PerBound        map[string]int `json:"schedules_per_bound"`
	PolicyRuns      int            `json:"policy_runs"`
	Sites           []int          `json:"sites_reached"`
	Violations      []struct {
		Op       string `json:"op"`
		A        string `json:"a"`
		B        string `json:"b"`
		Schedule []int  `json:"schedule"`
		Policy   int    `json:"policy"`
		Default  string `json:"default"`
		Got      string `json:"got"`
	} `json:"violations"`
	Errors []string    `json:"errors"`
	Sample interface{} `json:"sample"`
}

// c10MapOrderSupervise runs the explorer binary (built by run.sh against the
// rewritten sources) in parallel shards and merges the summaries.
func c10MapOrder(r *engine.Run) {
	bin := filepath.Join(engine.Out, "bin", "verifenvx")
	if _, err := os.Stat(bin); err != nil {
		r.EngineError("map-order explorer binary missing (run.sh builds it with -overlay): " + err.Error())
		return
	}
	type phase struct {
		bound    int
		pairs    string
		policies string
	}
	phases := []phase{{1, "few", "1"}}
	if r.Thorough() {
		phases = []phase{{2, "few", "1"}, {1, "many", "1"}}
	}
	shards := runtime.GOMAXPROCS(0)
	total := envxSummary{PerBound: map[string]int{}}
	sites := map[int]bool{}
	orderDependent := 0
	var mu sync.Mutex
	for _, ph := range phases {
		var wg sync.WaitGroup
		for s := 0; s < shards; s++ {
			wg.Add(1)
			go func(s int) {
				defer wg.Done()
				out, err := exec.Command(bin, fmt.Sprint(ph.bound), fmt.Sprint(s), fmt.Sprint(shards), ph.pairs, ph.policies).Output()
				var sm envxSummary
				if err != nil || json.Unmarshal(out, &sm) != nil {
					r.EngineError(fmt.Sprintf("map-order explorer shard %d failed: %v %s", s, err, tail(string(out), 300)))
					return
				}
				mu.Lock()
				defer mu.Unlock()
				total.Executions += sm.Executions
				total.Harnesses += sm.Harnesses
				total.PolicyRuns += sm.PolicyRuns
				if sm.MaxChoicePoints > total.MaxChoicePoints {
					total.MaxChoicePoints = sm.MaxChoicePoints
				}
				if sm.MaxKeys > total.MaxKeys {
					total.MaxKeys = sm.MaxKeys
				}
				for k, v := range sm.PerBound {
					total.PerBound[k] += v
				}
				for _, st := range sm.Sites {
					sites[st] = true
				}
				if total.Sample == nil {
					total.Sample = sm.Sample
				}
				for _, e := range sm.Errors {
					r.EngineError("map-order explorer: " + e)
				}
				for _, v := range sm.Violations {
					orderDependent++
					key := "C10/mapOrder.outputDependsOnIterationOrder:" + v.Op
					r.Violation(key, "maporder", v, fmt.Sprintf("schedule %v policy %d: %s instead of %s", v.Schedule, v.Policy, trunc(v.Got, 200), trunc(v.Default, 200)))
				}
			}(s)
		}
		wg.Wait()
		r.Bound(fmt.Sprintf("map order: deviation bound %d on the %s operand pairs × 8 overlay-backed ops (+ Validate/UnaryUnion and GeoJSON feature harnesses), 4 global policies", ph.bound, ph.pairs))
	}
	var sl []int
	for s := range sites {
		sl = append(sl, s)
	}
	sort.Ints(sl)
	r.Transitions.Add(total.Executions)
	r.Evaluations.Add(total.Executions)
	r.States.Add(int64(total.Harnesses))
	r.Extra["map_order_executions"] = total.Executions
	r.Extra["map_order_harnesses"] = total.Harnesses
	r.Extra["map_order_schedules_per_deviation_bound"] = total.PerBound
	r.Extra["map_order_global_policy_runs"] = total.PolicyRuns
	r.Extra["map_order_max_choice_points_in_one_execution"] = total.MaxChoicePoints
	r.Extra["map_order_max_keys_at_one_choice_point"] = total.MaxKeys
	r.Extra["map_order_range_sites_reached"] = sl
	r.Extra["map_order_harnesses_with_more_than_one_outcome"] = orderDependent
	if total.Sample != nil {
		r.Sample("maporder", total.Sample)
	}
	if b, err := os.ReadFile(filepath.Join(engine.Out, ".work", "envx", "sites.txt")); err == nil {
		r.Extra["map_order_hooked_sites"] = string(b)
	}
}

func trunc(s string, n int) string {
	if len(s) > n {
		return s[:n] + "…"
	}
	return s
}

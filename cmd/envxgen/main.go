// envxgen rewrites the non-test source files of /repo/geom so that every range
// over a map and every map insertion goes through the verifenvx run-time, and
// writes a `go build -overlay` file. It fails loudly on any map range or
// insertion it cannot rewrite, so newly added map loops are never silently
// left to Go's random order.
//
// usage (cwd must be /repo so that imports resolve): envxgen <outdir> <runtime.go.src>
package main

import (
	"encoding/json"
	"fmt"
	"go/ast"
	"go/importer"
	"go/parser"
	"go/token"
	"go/types"
	"os"
	"path/filepath"
	"sort"
	"strings"
)

type edit struct {
	pos, end int // byte offsets; end == pos for an insertion
	text     string
}

func main() {
	out, runtimeSrc := os.Args[1], os.Args[2]
	fset := token.NewFileSet()
	repo := os.Getenv("VERIF_REPO")
	if repo == "" {
		repo = "/repo"
	}
	dir := filepath.Join(repo, "geom")
	names, _ := filepath.Glob(filepath.Join(dir, "*.go"))
	var files []*ast.File
	var paths []string
	for _, n := range names {
		if strings.HasSuffix(n, "_test.go") {
			continue
		}
		b, _ := os.ReadFile(n)
		if strings.Contains(string(b), "//go:build verif") {
			continue
		}
		f, err := parser.ParseFile(fset, n, b, parser.ParseComments)
		if err != nil {
			fail(err)
		}
		files = append(files, f)
		paths = append(paths, n)
	}
	info := &types.Info{Types: map[ast.Expr]types.TypeAndValue{}}
	conf := types.Config{Importer: importer.ForCompiler(fset, "source", nil)}
	pkg, err := conf.Check("github.com/peterstace/simplefeatures/geom", fset, files, info)
	if err != nil {
		fail(err)
	}
	qual := func(p *types.Package) string {
		if p == pkg {
			return ""
		}
		return p.Name()
	}
	overlay := map[string]string{}
	site := 0
	var sites []string
	nRanges, nInserts := 0, 0
	os.MkdirAll(filepath.Join(out, "geom"), 0o755)
	for fi, f := range files {
		src, _ := os.ReadFile(paths[fi])
		var edits []edit
		off := func(p token.Pos) int { return fset.Position(p).Offset }
		text := func(n ast.Node) string { return string(src[off(n.Pos()):off(n.End())]) }
		isMap := func(e ast.Expr) (*types.Map, bool) {
			tv, ok := info.Types[e]
			if !ok {
				return nil, false
			}
			m, ok := tv.Type.Underlying().(*types.Map)
			return m, ok
		}
		var simple func(e ast.Expr) bool
		simple = func(e ast.Expr) bool {
			switch x := e.(type) {
			case *ast.IndexExpr:
				return simple(x.X) && simple(x.Index)
			case *ast.Ident:
				return true
			case *ast.SelectorExpr:
				_, isID := x.X.(*ast.Ident)
				if isID {
					return true
				}
				if s, isSel := x.X.(*ast.SelectorExpr); isSel {
					_, ok := s.X.(*ast.Ident)
					return ok
				}
			}
			return false
		}
		// parents for statement context
		parent := map[ast.Node]ast.Node{}
		var stack []ast.Node
		ast.Inspect(f, func(n ast.Node) bool {
			if n == nil {
				stack = stack[:len(stack)-1]
				return true
			}
			if len(stack) > 0 {
				parent[n] = stack[len(stack)-1]
			}
			stack = append(stack, n)
			return true
		})
		inBlock := func(n ast.Node) bool {
			switch parent[n].(type) {
			case *ast.BlockStmt, *ast.CaseClause, *ast.CommClause:
				return true
			}
			return false
		}
		ast.Inspect(f, func(n ast.Node) bool {
			switch s := n.(type) {
			case *ast.RangeStmt:
				m, ok := isMap(s.X)
				if !ok {
					return true
				}
				if !simple(s.X) {
					fail(fmt.Errorf("%s: range over a map expression that is not a plain variable/field: %s", fset.Position(s.Pos()), text(s.X)))
				}
				site++
				nRanges++
				sites = append(sites, fmt.Sprintf("%d %s range %s", site, fset.Position(s.Pos()), text(s.X)))
				kt := types.TypeString(m.Key(), qual)
				mx := text(s.X)
				kv := fmt.Sprintf("verifK%d", site)
				var b strings.Builder
				fmt.Fprintf(&b, "for _, %sI := range verifenvx.Keys(%d, %s) { %s := %sI.(%s); ", kv, site, mx, kv, kv, kt)
				assign := ":="
				if s.Tok == token.ASSIGN {
					assign = "="
				}
				bind := func(e ast.Expr, val string) {
					if e == nil {
						return
					}
					if id, isID := e.(*ast.Ident); isID && id.Name == "_" {
						return
					}
					fmt.Fprintf(&b, "%s %s %s; ", text(e), assign, val)
					if assign == ":=" {
						fmt.Fprintf(&b, "_ = %s; ", text(e))
					}
				}
				fmt.Fprintf(&b, "verifV%d, verifOK%d := %s[%s]; if !verifOK%d { continue }; _ = verifV%d; ", site, site, mx, kv, site, site)
				bind(s.Key, kv)
				bind(s.Value, fmt.Sprintf("verifV%d", site))
				edits = append(edits, edit{off(s.For), off(s.Body.Lbrace) + 1, b.String()})
			case *ast.AssignStmt:
				for _, l := range s.Lhs {
					ix, isIx := l.(*ast.IndexExpr)
					if !isIx {
						continue
					}
					if _, ok := isMap(ix.X); !ok {
						continue
					}
					if !inBlock(s) {
						fail(fmt.Errorf("%s: map insertion outside a plain statement list", fset.Position(s.Pos())))
					}
					nInserts++
					edits = append(edits, edit{off(s.End()), off(s.End()), "; verifenvx.Note(" + text(ix.Index) + ")"})
				}
			case *ast.IncDecStmt:
				if ix, isIx := s.X.(*ast.IndexExpr); isIx {
					if _, ok := isMap(ix.X); ok {
						if !inBlock(s) {
							fail(fmt.Errorf("%s: map insertion outside a plain statement list", fset.Position(s.Pos())))
						}
						nInserts++
						edits = append(edits, edit{off(s.End()), off(s.End()), "; verifenvx.Note(" + text(ix.Index) + ")"})
					}
				}
			}
			return true
		})
		if len(edits) == 0 {
			continue
		}
		sort.Slice(edits, func(i, j int) bool { return edits[i].pos > edits[j].pos })
		res := string(src)
		for _, e := range edits {
			res = res[:e.pos] + e.text + res[e.end:]
		}
		// add the import
		imp := "\nimport verifenvx \"github.com/peterstace/simplefeatures/verifenvx\"\n"
		pkgEnd := off(f.Name.End())
		res = res[:pkgEnd] + imp + res[pkgEnd:]
		dst := filepath.Join(out, "geom", filepath.Base(paths[fi]))
		if err := os.WriteFile(dst, []byte(res), 0o644); err != nil {
			fail(err)
		}
		overlay[paths[fi]] = dst
	}
	overlay[filepath.Join(repo, "verifenvx", "envx.go")] = runtimeSrc
	b, _ := json.MarshalIndent(map[string]interface{}{"Replace": overlay}, "", " ")
	if err := os.WriteFile(filepath.Join(out, "overlay.json"), b, 0o644); err != nil {
		fail(err)
	}
	os.WriteFile(filepath.Join(out, "sites.txt"), []byte(strings.Join(sites, "\n")+"\n"), 0o644)
	fmt.Printf("envxgen: %d map ranges and %d map insertions hooked in %d files\n", nRanges, nInserts, len(overlay)-1)
}

func fail(err error) {
	fmt.Println("ENGINE-ERROR: envxgen:", err)
	os.Exit(2)
}

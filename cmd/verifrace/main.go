// verifrace runs the C10 op bodies from many goroutines sharing the same
// operand values and trees, free-running under the race detector.
package main

import (
	"fmt"
	"os"
	"strconv"
	"sync"

	"github.com/peterstace/simplefeatures/rtree"
	"verif/checks"
)

func main() {
	widths := []int{2, 4, 16}
	if len(os.Args) > 1 {
		widths = nil
		for _, a := range os.Args[1:] {
			n, _ := strconv.Atoi(a)
			widths = append(widths, n)
		}
	}
	ops := checks.C10Operands()
	trees, boxes := checks.C10Trees()
	var calls int64
	var mu sync.Mutex
	for _, w := range widths {
		var wg sync.WaitGroup
		for t := 0; t < w; t++ {
			wg.Add(1)
			go func(t int) {
				defer wg.Done()
				n := int64(0)
				// every goroutine runs every unary op on every shared operand and every binary op on a rotating set of pairs
				for i := range ops {
					for _, u := range checks.C10Unary {
						func() { defer func() { recover() }(); u.Fn(ops[i]); n++ }()
					}
					for dj := 0; dj < 5; dj++ {
						j := (i + dj*7 + t) % len(ops)
						for _, b := range checks.C10Binary {
							func() { defer func() { recover() }(); b.Fn(ops[i], ops[j]); n++ }()
						}
					}
				}
				for k, tr := range trees {
					qs := []rtree.Box{{MinX: -1e9, MinY: -1e9, MaxX: 1e9, MaxY: 1e9}, {MinX: 0, MinY: 0, MaxX: 2, MaxY: 2}}
					if len(boxes[k]) > 0 {
						qs = append(qs, boxes[k][(t*3)%len(boxes[k])])
					}
					for _, q := range qs {
						for _, o := range checks.C10Tree {
							o.Fn(tr, q)
							n++
						}
					}
				}
				mu.Lock()
				calls += n
				mu.Unlock()
			}(t)
		}
		wg.Wait()
	}
	fmt.Printf("RACE-OK calls=%d widths=%v operands=%d trees=%d\n", calls, widths, len(ops), len(trees))
}

package main

import (
	"encoding/json"
	"fmt"
	"os"
	"runtime/pprof"

	"verif/checks"
	"verif/engine"
)

func main() {
	if len(os.Args) < 2 {
		fmt.Println("usage: verif <Cxx> quick|thorough | <Cxx> replay <file> | setup")
		os.Exit(2)
	}
	if os.Args[1] == "worker" {
		checks.WorkerMain()
		return
	}
	if os.Args[1] == "setup" {
		fmt.Println("setup ok:", len(engine.Registry), "checks registered")
		return
	}
	id := os.Args[1]
	c, ok := engine.Registry[id]
	if !ok {
		fmt.Println("ENGINE-ERROR: unknown check", id)
		os.Exit(2)
	}
	mode := "quick"
	if len(os.Args) > 2 {
		mode = os.Args[2]
	}
	if t := os.Getenv("VERIF_TIER"); t != "" && len(os.Args) <= 2 {
		mode = t
	}
	switch mode {
	case "quick", "thorough":
		r := engine.NewRun(id, mode)
		if pf := os.Getenv("VERIF_PPROF"); pf != "" {
			f, _ := os.Create(pf)
			pprof.StartCPUProfile(f)
			c.Main(r)
			pprof.StopCPUProfile()
			f.Close()
		} else {
			c.Main(r)
		}
		os.Exit(r.Finish())
	case "replay":
		if len(os.Args) < 4 {
			fmt.Println("usage: verif <Cxx> replay <file>")
			os.Exit(2)
		}
		b, err := os.ReadFile(os.Args[3])
		if err != nil {
			fmt.Println("ENGINE-ERROR:", err)
			os.Exit(2)
		}
		var v struct {
			Sub  string          `json:"sub"`
			Case json.RawMessage `json:"case"`
		}
		if err := json.Unmarshal(b, &v); err != nil {
			fmt.Println("ENGINE-ERROR:", err)
			os.Exit(2)
		}
		r := engine.NewRun(id, "quick")
		r.ReplayMode = true
		if c.Replay == nil {
			fmt.Println("ENGINE-ERROR: check has no replay")
			os.Exit(2)
		}
		if err := c.Replay(r, v.Sub, v.Case); err != nil {
			fmt.Println("ENGINE-ERROR:", err)
			os.Exit(2)
		}
		os.Exit(r.FinishReplay())
	default:
		fmt.Println("ENGINE-ERROR: unknown mode", mode)
		os.Exit(2)
	}
}

//go:build envx

// verifenvx is the map-iteration-order explorer of check C10. It is built with
// `go build -overlay` against rewritten copies of geom's sources in which every
// range over a map is a choice point (package verifenvx, see /verif/envx).
//
// usage: verifenvx <bound> <shard> <shards> <pairs: few|many> <policies: 0|1>
// Prints one JSON object.
package main

import (
	"encoding/json"
	"fmt"
	"os"
	"strconv"

	"github.com/peterstace/simplefeatures/geom"
	envx "github.com/peterstace/simplefeatures/verifenvx"
	"verif/checks"
)

type violation struct {
	Op       string `json:"op"`
	A        string `json:"a"`
	B        string `json:"b"`
	Schedule []int  `json:"schedule"`
	Policy   int    `json:"policy,omitempty"`
	Default  string `json:"default"`
	Got      string `json:"got"`
}

type summary struct {
	Executions      int64          `json:"executions"`
	Harnesses       int            `json:"harnesses"`
	MaxChoicePoints int            `json:"max_choice_points"`
	MaxKeys         int            `json:"max_keys"`
	PerBound        map[string]int `json:"schedules_per_bound"`
	PolicyRuns      int            `json:"policy_runs"`
	SitesReached    map[int]bool   `json:"-"`
	Sites           []int          `json:"sites_reached"`
	Violations      []violation    `json:"violations"`
	Errors          []string       `json:"errors"`
	Sample          interface{}    `json:"sample"`
}

var sum = summary{PerBound: map[string]int{}, SitesReached: map[int]bool{}}

func run(fn func() string, choices []int, policy int) (out string, points []envx.Point, taken []int) {
	envx.Begin(choices, policy)
	func() {
		defer func() {
			if p := recover(); p != nil {
				out = fmt.Sprint("panic:", p)
			}
		}()
		out = fn()
	}()
	sum.Executions++
	if envx.Uncaptured != "" {
		sum.Errors = append(sum.Errors, envx.Uncaptured)
	}
	points = append([]envx.Point{}, envx.Points...)
	taken = append([]int{}, envx.Choices...)
	for _, p := range points {
		sum.SitesReached[p.Site] = true
		if p.N > sum.MaxKeys {
			sum.MaxKeys = p.N
		}
	}
	if len(points) > sum.MaxChoicePoints {
		sum.MaxChoicePoints = len(points)
	}
	return
}

func explore(h harness, bound int) {
	def, points0, _ := run(h.fn, nil, 0)
	again, points1, _ := run(h.fn, nil, 0)
	if def != again || fmt.Sprint(points0) != fmt.Sprint(points1) {
		sum.Errors = append(sum.Errors, fmt.Sprintf("replay of the default schedule is not deterministic for %s(%s, %s): uncaptured nondeterminism", h.op, h.a, h.b))
		return
	}
	sum.PerBound["0"]++
	var rec func(prefix []int, parentPoints []envx.Point, devs int)
	rec = func(prefix []int, parentPoints []envx.Point, devs int) {
		out, points, taken := run(h.fn, prefix, 0)
		// the replayed prefix must meet the same choice points as its parent did
		for i := 0; i < len(prefix) && i < len(parentPoints); i++ {
			if i >= len(points) || points[i] != parentPoints[i] {
				sum.Errors = append(sum.Errors, fmt.Sprintf("divergence while replaying a prefix for %s: uncaptured nondeterminism", h.op))
				return
			}
		}
		if out != def && len(sum.Violations) < 20 {
			sum.Violations = append(sum.Violations, violation{h.op, h.a, h.b, append([]int{}, prefix...), 0, def, out})
		}
		if devs > 0 {
			sum.PerBound[strconv.Itoa(devs)]++
		}
		if devs == bound {
			return
		}
		for i := len(prefix); i < len(points); i++ {
			for alt := 1; alt < envx.Alternatives(points[i].N); alt++ {
				next := append(append([]int{}, taken[:i]...), alt)
				rec(next, points, devs+1)
			}
		}
	}
	// root: default run already done; expand its deviations
	_, points, taken := run(h.fn, nil, 0)
	for i := 0; i < len(points); i++ {
		for alt := 1; alt < envx.Alternatives(points[i].N); alt++ {
			rec(append(append([]int{}, taken[:i]...), alt), points, 1)
		}
	}
	if sum.Sample == nil && len(points) > 0 {
		sum.Sample = map[string]interface{}{"op": h.op, "a": h.a, "b": h.b, "choice_points_site_and_keys": points, "default_output": def}
	}
}

type harness struct {
	op, a, b string
	fn       func() string
}

func main() {
	bound, _ := strconv.Atoi(os.Args[1])
	shard, _ := strconv.Atoi(os.Args[2])
	shards, _ := strconv.Atoi(os.Args[3])
	many := os.Args[4] == "many"
	policies := os.Args[5] == "1"
	ops := checks.C10Operands()
	bin := map[string]func(a, b geom.Geometry) string{}
	for _, o := range checks.C10Binary {
		bin[o.Name] = o.Fn
	}
	// operand pairs where something collides (shared vertices, crossings, collinear overlap, holes, overlapping members)
	pairs := [][2]int{{11, 13}, {11, 12}, {5, 7}, {9, 10}, {15, 16}, {21, 14}, {22, 4}, {18, 11}, {6, 12}, {20, 11}, {25, 26}, {19, 13}, {27, 28}, {29, 14}}
	if many {
		pairs = nil
		for i := range ops {
			for j := range ops {
				if (i*31+j*17)%2 == 0 {
					pairs = append(pairs, [2]int{i, j})
				}
			}
		}
	}
	var hs []harness
	for _, p := range pairs {
		a, b := ops[p[0]], ops[p[1]]
		for _, name := range checks.C10OverlayOps {
			fn := bin[name]
			hs = append(hs, harness{name, a.AsText(), b.AsText(), func() string { return fn(a, b) }})
		}
	}
	// unary harnesses: validation of polygons / multipolygons (touch graph maps), UnaryUnion, GeoJSON
	for i, g := range ops {
		g := g
		if many || i%3 == 0 {
			hs = append(hs, harness{"Validate+UnaryUnion", g.AsText(), "", func() string {
				u, err := geom.UnaryUnion(g)
				return fmt.Sprint(g.Validate(), fmt.Sprintf("%x", u.AsBinary()), err)
			}})
		}
	}
	hs = append(hs, harness{"GeoJSON feature round trip", "feature with foreign members", "", func() string {
		f := geom.GeoJSONFeature{Geometry: ops[11], ID: 1, Properties: map[string]interface{}{"a": 1, "b": 2}, ForeignMembers: map[string]interface{}{"x": 1, "y": []int{2}, "z": "s"}}
		b, err := json.Marshal(f)
		var f2 geom.GeoJSONFeature
		err2 := json.Unmarshal(b, &f2)
		b2, _ := json.Marshal(f2)
		return fmt.Sprint(string(b), err, err2, string(b2))
	}})
	// GeoJSON documents whose positions have mixed lengths (2, 3, more): the dimension decision is
	// taken from a map of the lengths seen and must not depend on the order that map is walked in
	for _, doc := range []string{
		`{"type":"LineString","coordinates":[[1,2,3],[4,5]]}`,
		`{"type":"LineString","coordinates":[[1,2],[4,5,6],[7,8,9,10]]}`,
		`{"type":"GeometryCollection","geometries":[{"type":"Point","coordinates":[1,2,3]},{"type":"Point","coordinates":[]},{"type":"MultiPoint","coordinates":[[4,5],[6,7,8,9,10]]}]}`,
		`{"type":"Polygon","coordinates":[[[0,0,1],[3,0],[0,3,2,5],[0,0,1]]]}`,
	} {
		doc := doc
		hs = append(hs, harness{"UnmarshalGeoJSON", doc, "", func() string {
			g, err := geom.UnmarshalGeoJSON([]byte(doc))
			return fmt.Sprint(g.AsText(), err)
		}})
	}
	for i, h := range hs {
		if i%shards != shard {
			continue
		}
		sum.Harnesses++
		explore(h, bound)
		if policies {
			def, _, _ := run(h.fn, nil, 0)
			for pol := 1; pol <= 4; pol++ {
				out, _, _ := run(h.fn, nil, pol)
				sum.PolicyRuns++
				if out != def && len(sum.Violations) < 20 {
					sum.Violations = append(sum.Violations, violation{h.op, h.a, h.b, nil, pol, def, out})
				}
			}
		}
	}
	for s := range sum.SitesReached {
		sum.Sites = append(sum.Sites, s)
	}
	json.NewEncoder(os.Stdout).Encode(sum)
}

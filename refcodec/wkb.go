package refcodec

import (
	"encoding/binary"
	"math"

	"github.com/peterstace/simplefeatures/geom"
)

// Field records where a structural field of a WKB encoding lives.
type Field struct {
	Off  int
	Kind string // "order", "type", "count", "float"
	BE   bool   // byte order in force for this field
}

type wkbWriter struct {
	buf    []byte
	fields []Field
	orders []bool // true = big endian, consumed per element; missing = little endian
	next   int
}

func (w *wkbWriter) order() bool {
	be := false
	if w.next < len(w.orders) {
		be = w.orders[w.next]
	}
	w.next++
	return be
}

func (w *wkbWriter) u32(v uint32, be bool, kind string) {
	w.fields = append(w.fields, Field{len(w.buf), kind, be})
	var b [4]byte
	if be {
		binary.BigEndian.PutUint32(b[:], v)
	} else {
		binary.LittleEndian.PutUint32(b[:], v)
	}
	w.buf = append(w.buf, b[:]...)
}

func (w *wkbWriter) f64(v float64, be bool) {
	w.fields = append(w.fields, Field{len(w.buf), "float", be})
	var b [8]byte
	if be {
		binary.BigEndian.PutUint64(b[:], math.Float64bits(v))
	} else {
		binary.LittleEndian.PutUint64(b[:], math.Float64bits(v))
	}
	w.buf = append(w.buf, b[:]...)
}

var typeCode = map[geom.GeometryType]uint32{
	geom.TypePoint: 1, geom.TypeLineString: 2, geom.TypePolygon: 3, geom.TypeMultiPoint: 4,
	geom.TypeMultiLineString: 5, geom.TypeMultiPolygon: 6, geom.TypeGeometryCollection: 7,
}

func (w *wkbWriter) points(cs [][]float64, be bool) {
	w.u32(uint32(len(cs)), be, "count")
	for _, c := range cs {
		for _, v := range c {
			w.f64(v, be)
		}
	}
}

func (w *wkbWriter) node(n Node) {
	be := w.order()
	w.fields = append(w.fields, Field{len(w.buf), "order", be})
	if be {
		w.buf = append(w.buf, 0)
	} else {
		w.buf = append(w.buf, 1)
	}
	w.u32(typeCode[n.T]+1000*uint32(n.CT), be, "type") // ISO codes: +1000 Z, +2000 M, +3000 ZM
	switch n.T {
	case geom.TypePoint:
		if n.Empty {
			for i := 0; i < n.CT.Dimension(); i++ {
				w.f64(math.NaN(), be)
			}
			return
		}
		for _, v := range n.Coords[0] {
			w.f64(v, be)
		}
	case geom.TypeLineString:
		w.points(n.Coords, be)
	case geom.TypePolygon:
		w.u32(uint32(len(n.Kids)), be, "count")
		for _, r := range n.Kids {
			w.points(r.Coords, be)
		}
	default:
		w.u32(uint32(len(n.Kids)), be, "count")
		for _, k := range n.Kids {
			w.node(k)
		}
	}
}

// WKB writes the ISO WKB of n. orders gives the byte order (true = big endian)
// of each element in pre-order; elements beyond len(orders) are little endian.
func WKB(n Node, orders []bool) ([]byte, []Field) {
	w := &wkbWriter{orders: orders}
	w.node(n)
	return w.buf, w.fields
}

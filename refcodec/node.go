// Package refcodec holds independent reference writers/readers for the
// encodings and a structural view of geometries that does not rely on the
// library's own comparison (ExactEquals) or codecs.
package refcodec

import (
	"fmt"
	"math"
	"strings"

	"github.com/peterstace/simplefeatures/geom"
)

// Node is the structural view of a geometry: type, coordinate type and
// bit-exact ordinates of everything reachable through the public accessors.
type Node struct {
	T      geom.GeometryType
	CT     geom.CoordinatesType
	Empty  bool        // Point: no coordinates; LineString: no points; Polygon: no rings; collections: no members
	Coords [][]float64 // Point: one tuple; LineString: its points. Tuples are in CT's layout (X Y [Z] [M]).
	Kids   []Node      // Polygon: rings (as LineString nodes); Multi*/GeometryCollection: members
}

func tuple(c geom.Coordinates) []float64 {
	t := []float64{c.X, c.Y}
	if c.Type.Is3D() {
		t = append(t, c.Z)
	}
	if c.Type.IsMeasured() {
		t = append(t, c.M)
	}
	return t
}

func seqNode(ls geom.LineString) Node {
	n := Node{T: geom.TypeLineString, CT: ls.CoordinatesType()}
	s := ls.Coordinates()
	n.Empty = s.Length() == 0
	for i := 0; i < s.Length(); i++ {
		n.Coords = append(n.Coords, tuple(s.Get(i)))
	}
	if s.CoordinatesType() != n.CT {
		n.CT = 255 // poison: sequence and line string disagree
	}
	return n
}

// Describe walks g through its accessors.
func Describe(g geom.Geometry) Node {
	n := Node{T: g.Type(), CT: g.CoordinatesType()}
	switch g.Type() {
	case geom.TypePoint:
		p := g.MustAsPoint()
		c, ok := p.Coordinates()
		n.Empty = !ok
		if ok {
			n.Coords = [][]float64{tuple(c)}
			if c.Type != n.CT {
				n.CT = 255
			}
		}
		if p.CoordinatesType() != g.CoordinatesType() {
			n.CT = 255
		}
	case geom.TypeLineString:
		n = seqNode(g.MustAsLineString())
	case geom.TypePolygon:
		p := g.MustAsPolygon()
		n.Empty = p.IsEmpty()
		for i := 0; i < p.NumRings(); i++ {
			if i == 0 {
				n.Kids = append(n.Kids, seqNode(p.ExteriorRing()))
			} else {
				n.Kids = append(n.Kids, seqNode(p.InteriorRingN(i-1)))
			}
		}
	case geom.TypeMultiPoint:
		m := g.MustAsMultiPoint()
		for i := 0; i < m.NumPoints(); i++ {
			n.Kids = append(n.Kids, Describe(m.PointN(i).AsGeometry()))
		}
		n.Empty = len(n.Kids) == 0
	case geom.TypeMultiLineString:
		m := g.MustAsMultiLineString()
		for i := 0; i < m.NumLineStrings(); i++ {
			n.Kids = append(n.Kids, Describe(m.LineStringN(i).AsGeometry()))
		}
		n.Empty = len(n.Kids) == 0
	case geom.TypeMultiPolygon:
		m := g.MustAsMultiPolygon()
		for i := 0; i < m.NumPolygons(); i++ {
			n.Kids = append(n.Kids, Describe(m.PolygonN(i).AsGeometry()))
		}
		n.Empty = len(n.Kids) == 0
	case geom.TypeGeometryCollection:
		m := g.MustAsGeometryCollection()
		for i := 0; i < m.NumGeometries(); i++ {
			n.Kids = append(n.Kids, Describe(m.GeometryN(i)))
		}
		n.Empty = len(n.Kids) == 0
	}
	return n
}

// Diff returns "" when a and b are structurally identical with bit-identical
// ordinates (NaN payloads included), else a description of the first difference.
func Diff(a, b Node) string { return diff(a, b, "root") }

func diff(a, b Node, path string) string {
	if a.T != b.T {
		return fmt.Sprintf("%s: type %v vs %v", path, a.T, b.T)
	}
	if a.CT != b.CT {
		return fmt.Sprintf("%s: coordinates type %v vs %v", path, a.CT, b.CT)
	}
	if a.Empty != b.Empty {
		return fmt.Sprintf("%s: empty %v vs %v", path, a.Empty, b.Empty)
	}
	if len(a.Coords) != len(b.Coords) {
		return fmt.Sprintf("%s: %d vs %d points", path, len(a.Coords), len(b.Coords))
	}
	for i := range a.Coords {
		if len(a.Coords[i]) != len(b.Coords[i]) {
			return fmt.Sprintf("%s: point %d has %d vs %d ordinates", path, i, len(a.Coords[i]), len(b.Coords[i]))
		}
		for j := range a.Coords[i] {
			if math.Float64bits(a.Coords[i][j]) != math.Float64bits(b.Coords[i][j]) {
				return fmt.Sprintf("%s: point %d ordinate %d: %v (%#x) vs %v (%#x)", path, i, j, a.Coords[i][j], math.Float64bits(a.Coords[i][j]), b.Coords[i][j], math.Float64bits(b.Coords[i][j]))
			}
		}
	}
	if len(a.Kids) != len(b.Kids) {
		return fmt.Sprintf("%s: %d vs %d members", path, len(a.Kids), len(b.Kids))
	}
	for i := range a.Kids {
		if d := diff(a.Kids[i], b.Kids[i], fmt.Sprintf("%s/%d", path, i)); d != "" {
			return d
		}
	}
	return ""
}

// Consistent checks that every node below n reports the same coordinates type
// as n (the invariant "one coordinate type per geometry").
func Consistent(n Node) string {
	for i, k := range n.Kids {
		if k.CT != n.CT {
			return fmt.Sprintf("member %d has coordinates type %v inside %v", i, k.CT, n.CT)
		}
		if s := Consistent(k); s != "" {
			return fmt.Sprintf("member %d: %s", i, s)
		}
	}
	for i, c := range n.Coords {
		if n.CT < 4 && len(c) != n.CT.Dimension() {
			return fmt.Sprintf("point %d has %d ordinates for %v", i, len(c), n.CT)
		}
	}
	if n.CT > 3 {
		return "accessors disagree about the coordinates type"
	}
	return ""
}

func (n Node) String() string {
	var sb strings.Builder
	n.write(&sb)
	return sb.String()
}

func (n Node) write(sb *strings.Builder) {
	fmt.Fprintf(sb, "%v[%v]", n.T, n.CT)
	if n.Empty {
		sb.WriteString("∅")
	}
	if len(n.Coords) > 0 {
		fmt.Fprintf(sb, "%v", n.Coords)
	}
	if len(n.Kids) > 0 {
		sb.WriteString("{")
		for i, k := range n.Kids {
			if i > 0 {
				sb.WriteString(" ")
			}
			k.write(sb)
		}
		sb.WriteString("}")
	}
}

// NumElements counts WKB elements that carry their own byte-order flag.
func (n Node) NumElements() int {
	c := 1
	switch n.T {
	case geom.TypeMultiPoint, geom.TypeMultiLineString, geom.TypeMultiPolygon, geom.TypeGeometryCollection:
		for _, k := range n.Kids {
			c += k.NumElements()
		}
	}
	return c
}

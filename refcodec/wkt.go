package refcodec

import (
	"fmt"
	"strconv"
	"strings"

	"github.com/peterstace/simplefeatures/geom"
)

// Tok is one WKT token. Kind: 'w' keyword, 'n' numeral, 'p' punctuation.
type Tok struct {
	Kind byte
	Text string
	Val  float64 // for numerals
	// MPOpen/MPClose mark the optional parentheses around a MultiPoint member.
	Optional bool
}

var wktName = map[geom.GeometryType]string{
	geom.TypePoint: "POINT", geom.TypeLineString: "LINESTRING", geom.TypePolygon: "POLYGON", geom.TypeMultiPoint: "MULTIPOINT",
	geom.TypeMultiLineString: "MULTILINESTRING", geom.TypeMultiPolygon: "MULTIPOLYGON", geom.TypeGeometryCollection: "GEOMETRYCOLLECTION",
}

func num(v float64) Tok { return Tok{Kind: 'n', Text: strconv.FormatFloat(v, 'f', -1, 64), Val: v} }
func word(s string) Tok { return Tok{Kind: 'w', Text: s} }
func punct(s string) Tok { return Tok{Kind: 'p', Text: s} }

// WKTTokens derives the token stream of a geometry's WKT from the OGC BNF:
//
//	tagged  := NAME [Z|M|ZM] body
//	body    := EMPTY | '(' ... ')'
//
// with parenthesised MultiPoint members and fully tagged collection members.
func WKTTokens(n Node) []Tok {
	var out []Tok
	tagged(&out, n)
	return out
}

func tagged(out *[]Tok, n Node) {
	*out = append(*out, word(wktName[n.T]))
	switch n.CT {
	case geom.DimXYZ:
		*out = append(*out, word("Z"))
	case geom.DimXYM:
		*out = append(*out, word("M"))
	case geom.DimXYZM:
		*out = append(*out, word("ZM"))
	}
	body(out, n)
}

func coords(out *[]Tok, c []float64) {
	for _, v := range c {
		*out = append(*out, num(v))
	}
}

func seq(out *[]Tok, cs [][]float64) {
	*out = append(*out, punct("("))
	for i, c := range cs {
		if i > 0 {
			*out = append(*out, punct(","))
		}
		coords(out, c)
	}
	*out = append(*out, punct(")"))
}

func body(out *[]Tok, n Node) {
	if n.Empty {
		*out = append(*out, word("EMPTY"))
		return
	}
	switch n.T {
	case geom.TypePoint:
		*out = append(*out, punct("("))
		coords(out, n.Coords[0])
		*out = append(*out, punct(")"))
	case geom.TypeLineString:
		seq(out, n.Coords)
	case geom.TypePolygon:
		*out = append(*out, punct("("))
		for i, r := range n.Kids {
			if i > 0 {
				*out = append(*out, punct(","))
			}
			seq(out, r.Coords)
		}
		*out = append(*out, punct(")"))
	case geom.TypeMultiPoint:
		*out = append(*out, punct("("))
		for i, k := range n.Kids {
			if i > 0 {
				*out = append(*out, punct(","))
			}
			if k.Empty {
				*out = append(*out, word("EMPTY"))
				continue
			}
			*out = append(*out, Tok{Kind: 'p', Text: "(", Optional: true})
			coords(out, k.Coords[0])
			*out = append(*out, Tok{Kind: 'p', Text: ")", Optional: true})
		}
		*out = append(*out, punct(")"))
	case geom.TypeMultiLineString, geom.TypeMultiPolygon:
		*out = append(*out, punct("("))
		for i, k := range n.Kids {
			if i > 0 {
				*out = append(*out, punct(","))
			}
			body(out, k)
		}
		*out = append(*out, punct(")"))
	case geom.TypeGeometryCollection:
		*out = append(*out, punct("("))
		for i, k := range n.Kids {
			if i > 0 {
				*out = append(*out, punct(","))
			}
			tagged(out, k)
		}
		*out = append(*out, punct(")"))
	}
}

// Lex splits WKT text into tokens by the reference lexical rules: words are
// letter runs, numerals are runs of [0-9.+-eE] starting with a digit, sign or
// dot, punctuation is one of ( ) , and everything else must be ASCII
// whitespace.
func Lex(s string) ([]Tok, error) {
	var out []Tok
	i := 0
	for i < len(s) {
		c := s[i]
		switch {
		case c == ' ' || c == '\t' || c == '\n' || c == '\r':
			i++
		case c == '(' || c == ')' || c == ',':
			out = append(out, punct(string(c)))
			i++
		case c >= 'A' && c <= 'Z' || c >= 'a' && c <= 'z':
			j := i
			for j < len(s) && (s[j] >= 'A' && s[j] <= 'Z' || s[j] >= 'a' && s[j] <= 'z') {
				j++
			}
			out = append(out, word(s[i:j]))
			i = j
		case c >= '0' && c <= '9' || c == '-' || c == '+' || c == '.':
			j := i + 1
			for j < len(s) && (s[j] >= '0' && s[j] <= '9' || s[j] == '.' || s[j] == 'e' || s[j] == 'E' || ((s[j] == '-' || s[j] == '+') && (s[j-1] == 'e' || s[j-1] == 'E'))) {
				j++
			}
			v, err := strconv.ParseFloat(s[i:j], 64)
			if err != nil {
				return nil, fmt.Errorf("bad numeral %q", s[i:j])
			}
			out = append(out, Tok{Kind: 'n', Text: s[i:j], Val: v})
			i = j
		default:
			return nil, fmt.Errorf("unexpected byte %q at %d", c, i)
		}
	}
	return out, nil
}

// needSpace reports whether whitespace is mandatory between two tokens.
func needSpace(a, b Tok) bool {
	return a.Kind != 'p' && b.Kind != 'p'
}

// Render joins tokens; sep(i) gives the whitespace before token i (i ≥ 1) and
// must be non-empty where needSpace demands it. skip[i] drops token i (used
// for optional MultiPoint parentheses); textOf overrides a token's spelling.
func Render(toks []Tok, sep func(i int, required bool) string, skip func(i int) bool, textOf func(i int, t Tok) string) string {
	var sb strings.Builder
	var prev *Tok
	for i := range toks {
		if skip != nil && skip(i) {
			continue
		}
		t := toks[i]
		if prev != nil {
			sb.WriteString(sep(i, needSpace(*prev, t)))
		}
		if textOf != nil {
			sb.WriteString(textOf(i, t))
		} else {
			sb.WriteString(t.Text)
		}
		prev = &toks[i]
	}
	return sb.String()
}

package refcodec

import (
	"errors"
	"fmt"
)

// TWKBGeom is the varint-level reading of one TWKB geometry.
type TWKBGeom struct {
	Start, End  int // byte extent
	Type        int // 1..7
	PrecXY      int
	HasZ, HasM  bool
	PrecZ       int
	PrecM       int
	HasBBox     bool
	HasSize     bool
	HasIDs      bool
	HasExt      bool
	IsEmpty     bool
	Size        uint64
	SizeEnd     int     // offset just after the size varint
	BBox        []int64 // min, delta per dimension
	IDs         []int64
	Points      [][]int64 // Point / LineString: scaled integer ordinates per point (absolute, deltas resolved)
	Rings       [][][]int64
	Parts       []TWKBPart // Multi*: members
	Kids        []TWKBGeom // GeometryCollection
	Dims        int
}

type TWKBPart struct {
	Points [][]int64
	Rings  [][][]int64
}

type twkbReader struct {
	b   []byte
	pos int
}

func (r *twkbReader) byte() (byte, error) {
	if r.pos >= len(r.b) {
		return 0, errors.New("eof")
	}
	c := r.b[r.pos]
	r.pos++
	return c, nil
}

func (r *twkbReader) uvarint() (uint64, error) {
	var x uint64
	var s uint
	for i := 0; ; i++ {
		c, err := r.byte()
		if err != nil {
			return 0, err
		}
		if i == 9 && c > 1 {
			return 0, errors.New("varint overflow")
		}
		x |= uint64(c&0x7f) << s
		if c < 0x80 {
			return x, nil
		}
		s += 7
	}
}

func (r *twkbReader) varint() (int64, error) {
	u, err := r.uvarint()
	if err != nil {
		return 0, err
	}
	return int64(u>>1) ^ -int64(u&1), nil
}

// ReadTWKB reads one geometry starting at offset 0 with an independent
// implementation of the TWKB layout.
func ReadTWKB(b []byte) (TWKBGeom, error) {
	r := &twkbReader{b: b}
	return r.geom()
}

func (r *twkbReader) geom() (TWKBGeom, error) {
	var g TWKBGeom
	g.Start = r.pos
	tp, err := r.byte()
	if err != nil {
		return g, err
	}
	g.Type = int(tp & 0x0f)
	z := uint64(tp >> 4)
	g.PrecXY = int(int64(z>>1) ^ -int64(z&1))
	md, err := r.byte()
	if err != nil {
		return g, err
	}
	g.HasBBox, g.HasSize, g.HasIDs, g.HasExt, g.IsEmpty = md&1 != 0, md&2 != 0, md&4 != 0, md&8 != 0, md&16 != 0
	g.Dims = 2
	if g.HasExt {
		e, err := r.byte()
		if err != nil {
			return g, err
		}
		if e&1 != 0 {
			g.HasZ, g.PrecZ = true, int(e>>2&7)
			g.Dims++
		}
		if e&2 != 0 {
			g.HasM, g.PrecM = true, int(e>>5&7)
			g.Dims++
		}
	}
	if g.HasSize {
		if g.Size, err = r.uvarint(); err != nil {
			return g, err
		}
		g.SizeEnd = r.pos
	}
	if g.HasBBox {
		for d := 0; d < 2*g.Dims; d++ {
			v, err := r.varint()
			if err != nil {
				return g, err
			}
			g.BBox = append(g.BBox, v)
		}
	}
	if g.IsEmpty {
		g.End = r.pos
		return g, nil
	}
	ref := make([]int64, g.Dims)
	pts := func(n uint64) ([][]int64, error) {
		if n > uint64(len(r.b)) {
			return nil, fmt.Errorf("point count %d exceeds input", n)
		}
		var out [][]int64
		for i := uint64(0); i < n; i++ {
			p := make([]int64, g.Dims)
			for d := range p {
				v, err := r.varint()
				if err != nil {
					return nil, err
				}
				ref[d] += v
				p[d] = ref[d]
			}
			out = append(out, p)
		}
		return out, nil
	}
	rings := func() ([][][]int64, error) {
		n, err := r.uvarint()
		if err != nil {
			return nil, err
		}
		if n > uint64(len(r.b)) {
			return nil, fmt.Errorf("ring count %d exceeds input", n)
		}
		var out [][][]int64
		for i := uint64(0); i < n; i++ {
			np, err := r.uvarint()
			if err != nil {
				return nil, err
			}
			p, err := pts(np)
			if err != nil {
				return nil, err
			}
			out = append(out, p)
		}
		return out, nil
	}
	ids := func(n uint64) error {
		if !g.HasIDs {
			return nil
		}
		if n > uint64(len(r.b)) {
			return fmt.Errorf("id count %d exceeds input", n)
		}
		for i := uint64(0); i < n; i++ {
			v, err := r.varint()
			if err != nil {
				return err
			}
			g.IDs = append(g.IDs, v)
		}
		return nil
	}
	switch g.Type {
	case 1:
		g.Points, err = pts(1)
	case 2:
		var n uint64
		if n, err = r.uvarint(); err == nil {
			g.Points, err = pts(n)
		}
	case 3:
		g.Rings, err = rings()
	case 4, 5, 6:
		var n uint64
		if n, err = r.uvarint(); err != nil {
			break
		}
		if n > uint64(len(r.b)) {
			err = fmt.Errorf("member count %d exceeds input", n)
			break
		}
		if err = ids(n); err != nil {
			break
		}
		for i := uint64(0); i < n && err == nil; i++ {
			var part TWKBPart
			switch g.Type {
			case 4:
				part.Points, err = pts(1)
			case 5:
				var np uint64
				if np, err = r.uvarint(); err == nil {
					part.Points, err = pts(np)
				}
			case 6:
				part.Rings, err = rings()
			}
			g.Parts = append(g.Parts, part)
		}
	case 7:
		var n uint64
		if n, err = r.uvarint(); err != nil {
			break
		}
		if n > uint64(len(r.b)) {
			err = fmt.Errorf("member count %d exceeds input", n)
			break
		}
		if err = ids(n); err != nil {
			break
		}
		for i := uint64(0); i < n; i++ {
			k, kerr := r.geom()
			if kerr != nil {
				err = kerr
				break
			}
			g.Kids = append(g.Kids, k)
		}
	default:
		err = fmt.Errorf("unknown type %d", g.Type)
	}
	g.End = r.pos
	return g, err
}

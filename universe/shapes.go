// Package universe holds the finite input universes the checks enumerate.
package universe

import (
	"fmt"
	"strings"

	"github.com/peterstace/simplefeatures/geom"
)

// Shape is a structural description of a geometry: type, emptiness, point /
// ring counts and members. It carries no ordinates; Build draws those from a
// Supplier.
type Shape struct {
	T    geom.GeometryType
	N    int     // Point: 0 empty / 1 full; LineString: number of points (0 = empty); Polygon: number of rings (0 = empty)
	Kids []Shape // Multi*/GeometryCollection members
	// RingLen is the number of points of each polygon ring (0 means 5: a closed
	// quadrilateral). Shorter rings make invalid polygons, which the codecs
	// must still carry when validation is off.
	RingLen int
}

func (s Shape) String() string {
	var sb strings.Builder
	s.write(&sb)
	return sb.String()
}

func (s Shape) write(sb *strings.Builder) {
	switch s.T {
	case geom.TypePoint:
		fmt.Fprintf(sb, "P%d", s.N)
	case geom.TypeLineString:
		fmt.Fprintf(sb, "L%d", s.N)
	case geom.TypePolygon:
		fmt.Fprintf(sb, "Y%d", s.N)
		if s.RingLen != 0 {
			fmt.Fprintf(sb, "r%d", s.RingLen)
		}
	default:
		sb.WriteString(map[geom.GeometryType]string{geom.TypeMultiPoint: "MP", geom.TypeMultiLineString: "ML", geom.TypeMultiPolygon: "MY", geom.TypeGeometryCollection: "GC"}[s.T])
		sb.WriteByte('[')
		for i, k := range s.Kids {
			if i > 0 {
				sb.WriteByte(' ')
			}
			k.write(sb)
		}
		sb.WriteByte(']')
	}
}

// Depth is the collection nesting depth (0 for non-collections, 1 for a flat
// collection or Multi*).
func (s Shape) Depth() int {
	d := 0
	for _, k := range s.Kids {
		if kd := k.Depth(); kd > d {
			d = kd
		}
	}
	switch s.T {
	case geom.TypePoint, geom.TypeLineString, geom.TypePolygon:
		return 0
	}
	return d + 1
}

// HasEmptyMember reports whether some (possibly nested) member is empty or the
// shape itself is.
func (s Shape) HasEmptyMember() bool {
	switch s.T {
	case geom.TypePoint, geom.TypeLineString, geom.TypePolygon:
		return s.N == 0
	}
	if len(s.Kids) == 0 {
		return true
	}
	for _, k := range s.Kids {
		if k.HasEmptyMember() {
			return true
		}
	}
	return false
}

// NumPrims counts non-empty primitive members.
func (s Shape) NumPrims() int {
	switch s.T {
	case geom.TypePoint, geom.TypeLineString, geom.TypePolygon:
		if s.N == 0 {
			return 0
		}
		return 1
	}
	n := 0
	for _, k := range s.Kids {
		n += k.NumPrims()
	}
	return n
}

func seqs(alpha []Shape, maxLen int) [][]Shape {
	out := [][]Shape{{}}
	prev := [][]Shape{{}}
	for l := 1; l <= maxLen; l++ {
		var cur [][]Shape
		for _, p := range prev {
			for _, a := range alpha {
				q := append(append([]Shape{}, p...), a)
				cur = append(cur, q)
			}
		}
		out = append(out, cur...)
		prev = cur
	}
	return out
}

var (
	PointShapes = []Shape{{T: geom.TypePoint, N: 0}, {T: geom.TypePoint, N: 1}}
	LineShapes  = []Shape{{T: geom.TypeLineString, N: 0}, {T: geom.TypeLineString, N: 2}, {T: geom.TypeLineString, N: 3}}
	PolyShapes  = []Shape{{T: geom.TypePolygon, N: 0}, {T: geom.TypePolygon, N: 1}, {T: geom.TypePolygon, N: 2}}
)

// Shapes enumerates S(d,w): every primitive variant, every Multi* with 0..w
// members over the primitive variants, and GeometryCollections nested up to
// depth d. A flat collection (depth 1 of GCs) draws 0..w members from all
// primitive and Multi* shapes; deeper levels draw from a reduced alphabet plus
// every collection of the level below with at most `deepCap` shapes, so that
// the count stays enumerable. Order is simplest-first.
func Shapes(d, w int) []Shape {
	var out []Shape
	out = append(out, PointShapes...)
	out = append(out, LineShapes...)
	out = append(out, PolyShapes...)
	var multis []Shape
	for _, ks := range seqs(PointShapes, w) {
		multis = append(multis, Shape{T: geom.TypeMultiPoint, Kids: ks})
	}
	for _, ks := range seqs(LineShapes, w) {
		multis = append(multis, Shape{T: geom.TypeMultiLineString, Kids: ks})
	}
	for _, ks := range seqs(PolyShapes, w) {
		multis = append(multis, Shape{T: geom.TypeMultiPolygon, Kids: ks})
	}
	out = append(out, multis...)
	if d < 1 {
		return out
	}
	flatAlpha := append([]Shape{}, out...)
	var level []Shape // collections of the current depth
	for _, ks := range seqs(flatAlpha, minInt(w, 2)) {
		level = append(level, Shape{T: geom.TypeGeometryCollection, Kids: ks})
	}
	out = append(out, level...)
	reduced := []Shape{
		{T: geom.TypePoint, N: 0}, {T: geom.TypePoint, N: 1},
		{T: geom.TypeLineString, N: 2}, {T: geom.TypePolygon, N: 1},
		{T: geom.TypeMultiPoint, Kids: []Shape{{T: geom.TypePoint, N: 0}, {T: geom.TypePoint, N: 1}}},
		{T: geom.TypeMultiLineString}, {T: geom.TypeMultiPolygon, Kids: []Shape{{T: geom.TypePolygon, N: 2}}},
	}
	// Representative sub-collections carried into deeper levels: the empty
	// collection, the collection of one empty point, of one full point, and a
	// mixed one.
	below := []Shape{
		{T: geom.TypeGeometryCollection},
		{T: geom.TypeGeometryCollection, Kids: []Shape{{T: geom.TypePoint, N: 0}}},
		{T: geom.TypeGeometryCollection, Kids: []Shape{{T: geom.TypePoint, N: 1}}},
		{T: geom.TypeGeometryCollection, Kids: []Shape{{T: geom.TypeLineString, N: 2}, {T: geom.TypePolygon, N: 0}}},
	}
	for depth := 2; depth <= d; depth++ {
		alpha := append(append([]Shape{}, reduced...), below...)
		var cur []Shape
		for _, ks := range seqs(alpha, minInt(w, 2)) {
			has := false
			for _, k := range ks {
				if k.Depth() == depth-1 {
					has = true
				}
			}
			if has {
				cur = append(cur, Shape{T: geom.TypeGeometryCollection, Kids: ks})
			}
		}
		out = append(out, cur...)
		// next level's "below": wrap each representative once more
		var nb []Shape
		for _, b := range below {
			nb = append(nb, Shape{T: geom.TypeGeometryCollection, Kids: []Shape{b}})
		}
		nb = append(nb, Shape{T: geom.TypeGeometryCollection, Kids: []Shape{below[len(below)-1], {T: geom.TypePoint, N: 1}}})
		below = nb
	}
	return out
}

func minInt(a, b int) int {
	if a < b {
		return a
	}
	return b
}

// Supplier hands out ordinates for primitives, in the order Build visits them.
type Supplier interface {
	// Prim returns the coordinates for primitive number idx: a Point (n=1), a
	// LineString of n points, or ring number ring (0 = shell) of a polygon
	// with n vertices (closed: first == last). kind is 'P', 'L' or 'R'.
	Prim(idx int, kind byte, ring int, n int) []geom.Coordinates
}

// Build instantiates the shape with coordinate type ct.
func Build(s Shape, ct geom.CoordinatesType, sup Supplier) geom.Geometry {
	idx := 0
	return build(s, ct, sup, &idx)
}

func toSeq(cs []geom.Coordinates, ct geom.CoordinatesType) geom.Sequence {
	fl := make([]float64, 0, len(cs)*ct.Dimension())
	for _, c := range cs {
		fl = append(fl, c.X, c.Y)
		if ct.Is3D() {
			fl = append(fl, c.Z)
		}
		if ct.IsMeasured() {
			fl = append(fl, c.M)
		}
	}
	return geom.NewSequence(fl, ct)
}

func buildPoint(s Shape, ct geom.CoordinatesType, sup Supplier, idx *int) geom.Point {
	if s.N == 0 {
		return geom.NewEmptyPoint(ct)
	}
	c := sup.Prim(*idx, 'P', 0, 1)[0]
	*idx++
	c.Type = ct
	if !ct.Is3D() {
		c.Z = 0
	}
	if !ct.IsMeasured() {
		c.M = 0
	}
	return geom.NewPoint(c)
}

func buildLine(s Shape, ct geom.CoordinatesType, sup Supplier, idx *int) geom.LineString {
	if s.N == 0 {
		return geom.LineString{}.ForceCoordinatesType(ct)
	}
	cs := sup.Prim(*idx, 'L', 0, s.N)
	*idx++
	return geom.NewLineString(toSeq(cs, ct))
}

func buildPoly(s Shape, ct geom.CoordinatesType, sup Supplier, idx *int) geom.Polygon {
	if s.N == 0 {
		return geom.Polygon{}.ForceCoordinatesType(ct)
	}
	var rings []geom.LineString
	for r := 0; r < s.N; r++ {
		n := 5
		if s.RingLen != 0 {
			n = s.RingLen
		}
		cs := sup.Prim(*idx, 'R', r, n)
		rings = append(rings, geom.NewLineString(toSeq(cs, ct)))
	}
	*idx++
	return geom.NewPolygon(rings)
}

func build(s Shape, ct geom.CoordinatesType, sup Supplier, idx *int) geom.Geometry {
	switch s.T {
	case geom.TypePoint:
		return buildPoint(s, ct, sup, idx).AsGeometry()
	case geom.TypeLineString:
		return buildLine(s, ct, sup, idx).AsGeometry()
	case geom.TypePolygon:
		return buildPoly(s, ct, sup, idx).AsGeometry()
	case geom.TypeMultiPoint:
		if len(s.Kids) == 0 {
			return geom.MultiPoint{}.ForceCoordinatesType(ct).AsGeometry()
		}
		var ps []geom.Point
		for _, k := range s.Kids {
			ps = append(ps, buildPoint(k, ct, sup, idx))
		}
		return geom.NewMultiPoint(ps).AsGeometry()
	case geom.TypeMultiLineString:
		if len(s.Kids) == 0 {
			return geom.MultiLineString{}.ForceCoordinatesType(ct).AsGeometry()
		}
		var ls []geom.LineString
		for _, k := range s.Kids {
			ls = append(ls, buildLine(k, ct, sup, idx))
		}
		return geom.NewMultiLineString(ls).AsGeometry()
	case geom.TypeMultiPolygon:
		if len(s.Kids) == 0 {
			return geom.MultiPolygon{}.ForceCoordinatesType(ct).AsGeometry()
		}
		var ps []geom.Polygon
		for _, k := range s.Kids {
			ps = append(ps, buildPoly(k, ct, sup, idx))
		}
		return geom.NewMultiPolygon(ps).AsGeometry()
	default:
		if len(s.Kids) == 0 {
			return geom.GeometryCollection{}.ForceCoordinatesType(ct).AsGeometry()
		}
		var gs []geom.Geometry
		for _, k := range s.Kids {
			gs = append(gs, build(k, ct, sup, idx))
		}
		return geom.NewGeometryCollection(gs).AsGeometry()
	}
}

// CellSupplier lays primitives out in disjoint 4x4 cells of the integer
// lattice so that every built geometry is valid: primitive i lives in the cell
// with origin (Stride*i+OX, OY). Z and M are tagged 1000+k and 2000+k with k
// the global vertex index so a misplaced payload is visible.
type CellSupplier struct {
	OX, OY float64
	Scale  float64 // 0 means 1
	// DistinctClose: the closing vertex of a ring repeats the first vertex's XY
	// but carries its own Z/M tags (rings are closed in XY; payloads may differ).
	DistinctClose bool
	k             int
}

func (c *CellSupplier) Reset() { c.k = 0 }

func (c *CellSupplier) Prim(idx int, kind byte, ring int, n int) []geom.Coordinates {
	sc := c.Scale
	if sc == 0 {
		sc = 1
	}
	ox, oy := c.OX+float64(4*idx)*sc, c.OY
	mk := func(x, y float64) geom.Coordinates {
		c.k++
		return geom.Coordinates{XY: geom.XY{X: ox + x*sc, Y: oy + y*sc}, Z: float64(1000 + c.k), M: float64(2000 + c.k), Type: geom.DimXYZM}
	}
	switch kind {
	case 'P':
		return []geom.Coordinates{mk(1, 1)}
	case 'L':
		pts := [][2]float64{{0, 0}, {1, 2}, {3, 1}, {3, 3}, {0, 3}}
		var out []geom.Coordinates
		for i := 0; i < n; i++ {
			out = append(out, mk(pts[i%5][0], pts[i%5][1]))
		}
		return out
	default:
		var pts [][2]float64
		if ring == 0 {
			pts = [][2]float64{{0, 0}, {3, 0}, {3, 3}, {0, 3}}
		} else {
			pts = [][2]float64{{1, 1}, {1, 2}, {2, 2}, {2, 1}}
		}
		var out []geom.Coordinates
		for _, p := range pts {
			out = append(out, mk(p[0], p[1]))
		}
		if c.DistinctClose {
			out = append(out, mk(pts[0][0], pts[0][1]))
		} else {
			out = append(out, out[0])
		}
		if n < 5 {
			return out[:n] // short (invalid) ring
		}
		return out
	}
}

// FloatSupplier draws every ordinate from a float alphabet, rotating through
// it (offset Off) so that each class visits each ordinate position. Rings are
// closed by repeating their first vertex. XY ordinates come from XYAlpha, Z
// and M from ZMAlpha (which may contain NaN/Inf).
type FloatSupplier struct {
	XYAlpha, ZMAlpha []float64
	Off              int
	k                int
}

func (f *FloatSupplier) Reset() { f.k = 0 }

func (f *FloatSupplier) next() geom.Coordinates {
	a, z := f.XYAlpha, f.ZMAlpha
	i := f.k + f.Off
	f.k++
	return geom.Coordinates{
		XY:   geom.XY{X: a[(2*i)%len(a)], Y: a[(2*i+1)%len(a)]},
		Z:    z[(2*i)%len(z)],
		M:    z[(2*i+1)%len(z)],
		Type: geom.DimXYZM,
	}
}

func (f *FloatSupplier) Prim(idx int, kind byte, ring int, n int) []geom.Coordinates {
	var out []geom.Coordinates
	if kind == 'R' && n >= 4 {
		for i := 0; i < n-1; i++ {
			out = append(out, f.next())
		}
		return append(out, out[0])
	}
	for i := 0; i < n; i++ {
		out = append(out, f.next())
	}
	return out
}

// ShortRingShapes are invalid polygons with rings of 1, 2 and 3 points, alone
// and at the first / last position of a MultiPolygon and a GeometryCollection
// (codecs must carry them when validation is off; length checks that assume
// four points per ring must not reject them).
func ShortRingShapes() []Shape {
	var out []Shape
	pt := Shape{T: geom.TypePoint, N: 1}
	good := Shape{T: geom.TypePolygon, N: 1}
	for _, rl := range []int{1, 2, 3} {
		for _, nr := range []int{1, 2} {
			y := Shape{T: geom.TypePolygon, N: nr, RingLen: rl}
			out = append(out, y,
				Shape{T: geom.TypeMultiPolygon, Kids: []Shape{y}}, Shape{T: geom.TypeMultiPolygon, Kids: []Shape{good, y}}, Shape{T: geom.TypeMultiPolygon, Kids: []Shape{y, good}},
				Shape{T: geom.TypeGeometryCollection, Kids: []Shape{pt, y}}, Shape{T: geom.TypeGeometryCollection, Kids: []Shape{y, pt}},
				Shape{T: geom.TypeGeometryCollection, Kids: []Shape{{T: geom.TypeGeometryCollection, Kids: []Shape{y}}}})
		}
	}
	return out
}

package universe

import "testing"

func TestCounts(t *testing.T) {
	t.Log("paths(3,3)", len(Paths(3, 3)))
	t.Log("poly 3x3 all", len(SimplePolygons(3, 9)))
	t.Log("poly 4x4 <=5", len(SimplePolygons(4, 5)))
	t.Log("shapes(2,2)", len(Shapes(2, 2)), "shapes(3,3)", len(Shapes(3, 3)), "shapes(4,2)", len(Shapes(4, 2)))
}

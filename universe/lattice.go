package universe

import (
	"github.com/peterstace/simplefeatures/geom"
	"verif/exact"
)

type LPt struct{ X, Y int }

func (p LPt) E() exact.Pt { return exact.P(int64(p.X), int64(p.Y)) }

func LatticePoints(n int) []LPt {
	var out []LPt
	for x := 0; x < n; x++ {
		for y := 0; y < n; y++ {
			out = append(out, LPt{x, y})
		}
	}
	return out
}

// Paths enumerates every vertex sequence of length 2..maxLen over the n×n
// lattice in which consecutive vertices differ (so revisits, back-tracking,
// self-crossing and closed paths are all present). Shorter first.
func Paths(n, maxLen int) [][]LPt {
	pts := LatticePoints(n)
	var out [][]LPt
	var cur []LPt
	var rec func(l int)
	for l := 2; l <= maxLen; l++ {
		rec = func(rem int) {
			if rem == 0 {
				out = append(out, append([]LPt{}, cur...))
				return
			}
			for _, p := range pts {
				if len(cur) > 0 && cur[len(cur)-1] == p {
					continue
				}
				cur = append(cur, p)
				rec(rem - 1)
				cur = cur[:len(cur)-1]
			}
		}
		rec(l)
	}
	return out
}

func segsProperlyDisjoint(a, b, c, d LPt, shareEnd bool) bool {
	k, p, _ := exact.SegInter(a.E(), b.E(), c.E(), d.E())
	if k == 0 {
		return true
	}
	if shareEnd && k == 1 && p.Eq(b.E()) && p.Eq(c.E()) {
		return true // adjacent segments meeting only at their joint
	}
	return false
}

// SimplePolygons enumerates every simple closed polygon whose vertices are
// distinct points of the n×n lattice, with 3..maxV vertices, as closed
// counter-clockwise rings starting at their lowest-index vertex. Collinear
// consecutive vertices are allowed (they are legal in a valid ring). Each
// vertex cycle appears exactly once.
func SimplePolygons(n, maxV int) [][]LPt {
	pts := LatticePoints(n)
	var out [][]LPt
	for s := range pts {
		cur := []int{s}
		used := map[int]bool{s: true}
		var rec func()
		ok := func(next int, closing bool) bool {
			// new segment cur[last] -> next
			a, b := pts[cur[len(cur)-1]], pts[next]
			m := len(cur) - 1 // number of existing segments
			for i := 0; i < m; i++ {
				c, d := pts[cur[i]], pts[cur[i+1]]
				adjPrev := i == m-1           // shares vertex a (= d)
				adjFirst := closing && i == 0 // shares vertex b (= c)
				switch {
				case adjPrev && adjFirst: // triangle closing: both ends shared
					k, _, _ := exact.SegInter(c.E(), d.E(), a.E(), b.E())
					if k == 2 {
						return false
					}
				case adjPrev:
					if !segsProperlyDisjoint(c, d, a, b, true) {
						return false
					}
				case adjFirst:
					if !segsProperlyDisjoint(a, b, c, d, true) {
						return false
					}
				default:
					if !segsProperlyDisjoint(c, d, a, b, false) {
						return false
					}
				}
			}
			return true
		}
		rec = func() {
			if len(cur) >= 3 && cur[1] < cur[len(cur)-1] && ok(s, true) {
				ring := make([]LPt, 0, len(cur)+1)
				for _, i := range cur {
					ring = append(ring, pts[i])
				}
				ring = append(ring, pts[s])
				// orient CCW
				var a2 int
				for i := 0; i+1 < len(ring); i++ {
					a2 += ring[i].X*ring[i+1].Y - ring[i+1].X*ring[i].Y
				}
				if a2 < 0 {
					for i, j := 0, len(ring)-1; i < j; i, j = i+1, j-1 {
						ring[i], ring[j] = ring[j], ring[i]
					}
				}
				if a2 != 0 {
					out = append(out, ring)
				}
			}
			if len(cur) == maxV {
				return
			}
			for nx := s + 1; nx < len(pts); nx++ {
				if used[nx] || !ok(nx, false) {
					continue
				}
				used[nx] = true
				cur = append(cur, nx)
				rec()
				cur = cur[:len(cur)-1]
				used[nx] = false
			}
		}
		rec()
	}
	// simplest first: by vertex count (stable)
	var sorted [][]LPt
	for v := 4; v <= maxV+1; v++ {
		for _, r := range out {
			if len(r) == v {
				sorted = append(sorted, r)
			}
		}
	}
	return sorted
}

// Affine is x' = A x + b applied to lattice coordinates (float arithmetic, the
// result is whatever float64 gives; exactness is the caller's concern).
type Affine struct {
	A, B, C, D, TX, TY float64
	Name               string
}

var Identity = Affine{A: 1, D: 1, Name: "id"}

func (t Affine) Apply(p LPt) (float64, float64) {
	x, y := float64(p.X), float64(p.Y)
	return t.A*x + t.B*y + t.TX, t.C*x + t.D*y + t.TY
}

func (t Affine) seq(ps []LPt) geom.Sequence {
	fl := make([]float64, 0, 2*len(ps))
	for _, p := range ps {
		x, y := t.Apply(p)
		fl = append(fl, x, y)
	}
	return geom.NewSequence(fl, geom.DimXY)
}

func (t Affine) Point(p LPt) geom.Point {
	x, y := t.Apply(p)
	return geom.NewPoint(geom.Coordinates{XY: geom.XY{X: x, Y: y}})
}

func (t Affine) Line(ps []LPt) geom.LineString { return geom.NewLineString(t.seq(ps)) }

func (t Affine) Polygon(rings ...[]LPt) geom.Polygon {
	var rs []geom.LineString
	for _, r := range rings {
		rs = append(rs, t.Line(r))
	}
	return geom.NewPolygon(rs)
}

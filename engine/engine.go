// Package engine is the enumeration kernel shared by all checks: counters,
// violation recording with replay files, known-finding matching, deadlines,
// sharding over cores and the evidence writer.
package engine

import (
	"bufio"
	"encoding/json"
	"fmt"
	"hash/fnv"
	"os"
	"path/filepath"
	"runtime"
	"sort"
	"strconv"
	"strings"
	"sync"
	"sync/atomic"
	"time"
)

const Root = "/verif"

// Out is where binaries, evidence, replays and scratch files go (default Root);
// Repo is the tree under test (default /repo). Both can be redirected through
// VERIF_OUT / VERIF_REPO so that tools/seed_run.sh can run a check against a
// scratch worktree carrying a seeded change without touching /repo or the
// committed evidence. Registered commands never set them.
var (
	Out  = envOr("VERIF_OUT", Root)
	Repo = envOr("VERIF_REPO", "/repo")
)

func envOr(k, d string) string {
	if v := os.Getenv(k); v != "" {
		return v
	}
	return d
}

// Violation is one failing case. Key identifies the failing clause and the
// class of input (it is what known_findings.txt is matched against); Sub and
// Case are what `replay` needs to re-run exactly this case.
type Violation struct {
	Property string      `json:"property"`
	Key      string      `json:"key"`
	Sub      string      `json:"sub"`
	Case     interface{} `json:"case"`
	Detail   string      `json:"detail"`
}

type Run struct {
	ID    string
	Tier  string
	Seed  int64
	Level string
	Rule  string

	start    time.Time
	deadline time.Time

	Evaluations atomic.Int64 // executions of the real code that were compared with the oracle
	States      atomic.Int64 // distinct inputs / configurations generated
	Transitions atomic.Int64 // operation applications on the real code

	mu          sync.Mutex
	nontrivial  map[uint64]struct{}
	outcomes    map[string]int64
	samples     []interface{}
	sampleSeen  map[string]int
	violations  []Violation
	vioKeys     map[string]int
	knownHits   map[string]string
	known       map[string]string
	Extra       map[string]interface{}
	Assumptions []string
	capsHit     []string
	bounds      []string
	expired     atomic.Bool
	engineErrs  []string
	ReplayMode  bool
}

func NewRun(id, tier string) *Run {
	r := &Run{ID: id, Tier: tier, Level: "model_checking", start: time.Now()}
	if s := os.Getenv("VERIF_SEED"); s != "" {
		r.Seed, _ = strconv.ParseInt(s, 10, 64)
	}
	budget := 4 * time.Minute
	if tier == "thorough" {
		budget = 25 * time.Minute
	}
	if s := os.Getenv("VERIF_BUDGET_S"); s != "" {
		if n, err := strconv.Atoi(s); err == nil {
			budget = time.Duration(n) * time.Second
		}
	}
	r.deadline = r.start.Add(budget)
	r.nontrivial = map[uint64]struct{}{}
	r.outcomes = map[string]int64{}
	r.sampleSeen = map[string]int{}
	r.vioKeys = map[string]int{}
	r.knownHits = map[string]string{}
	r.Extra = map[string]interface{}{}
	r.known = loadKnown(id)
	return r
}

func (r *Run) Thorough() bool { return r.Tier == "thorough" }

// Expired reports whether the internal deadline has passed. Loops poll it and
// stop early; the run then reports exhaustive:false and the cap that was hit.
func (r *Run) Expired() bool {
	if r.expired.Load() {
		return true
	}
	if time.Now().After(r.deadline) {
		r.expired.Store(true)
		return true
	}
	return false
}

func (r *Run) Cap(what string) {
	r.mu.Lock()
	defer r.mu.Unlock()
	for _, c := range r.capsHit {
		if c == what {
			return
		}
	}
	r.capsHit = append(r.capsHit, what)
}

// Bound records a sub-bound that was completed in full.
func (r *Run) Bound(what string) {
	r.mu.Lock()
	what = fmt.Sprintf("%s [t+%.0fs]", what, time.Since(r.start).Seconds())
	r.bounds = append(r.bounds, what)
	r.mu.Unlock()
}

func hash64(s string) uint64 {
	h := fnv.New64a()
	h.Write([]byte(s))
	return h.Sum64()
}

// Nontrivial counts a distinct non-trivial case (by the per-property rule).
func (r *Run) Nontrivial(key string) {
	h := hash64(key)
	r.mu.Lock()
	r.nontrivial[h] = struct{}{}
	r.mu.Unlock()
}

// Outcome tallies an observed outcome class (vacuity guard).
func (r *Run) Outcome(class string) {
	r.mu.Lock()
	r.outcomes[class]++
	r.mu.Unlock()
}

// Sample keeps up to 3 written-out cases per sub-universe.
func (r *Run) Sample(sub string, v interface{}) {
	r.mu.Lock()
	if r.sampleSeen[sub] < 3 {
		r.sampleSeen[sub]++
		r.samples = append(r.samples, map[string]interface{}{"sub": sub, "case": v})
	}
	r.mu.Unlock()
}

func (r *Run) EngineError(msg string) {
	r.mu.Lock()
	r.engineErrs = append(r.engineErrs, msg)
	r.mu.Unlock()
}

// Violation records a failing case. Violations whose key is listed in
// known_findings.txt are reported as KNOWN-FINDING; at most 20 distinct keys
// and 3 cases per key are kept.
func (r *Run) Violation(key, sub string, c interface{}, detail string) {
	r.mu.Lock()
	defer r.mu.Unlock()
	if txt, ok := r.known[key]; ok {
		r.knownHits[key] = txt
		return
	}
	r.vioKeys[key]++
	if r.vioKeys[key] > 3 || len(r.vioKeys) > 20 {
		return
	}
	r.violations = append(r.violations, Violation{r.ID, key, sub, c, detail})
}

func (r *Run) NumViolations() int {
	r.mu.Lock()
	defer r.mu.Unlock()
	return len(r.violations)
}

func loadKnown(id string) map[string]string {
	out := map[string]string{}
	f, err := os.Open(filepath.Join(Root, "known_findings.txt"))
	if err != nil {
		return out
	}
	defer f.Close()
	sc := bufio.NewScanner(f)
	sc.Buffer(make([]byte, 1<<20), 1<<20)
	for sc.Scan() {
		line := strings.TrimSpace(sc.Text())
		if !strings.HasPrefix(line, "known:") {
			continue // "fixed:" lines and comments suppress nothing
		}
		fs := strings.Fields(line)
		if len(fs) < 3 || fs[1] != "property="+id || !strings.HasPrefix(fs[2], "key=") {
			continue
		}
		out[strings.TrimPrefix(fs[2], "key=")] = strings.Join(fs[3:], " ")
	}
	return out
}

// Parallel runs f(i) for i in [0,n) on all cores, in index order per worker
// stripe (simplest-first is preserved approximately). It stops handing out
// work once the deadline has passed and returns false in that case.
func (r *Run) Parallel(n int, f func(i int)) bool {
	w := runtime.GOMAXPROCS(0)
	if w > n {
		w = n
	}
	if w < 1 {
		return true
	}
	var next atomic.Int64
	var wg sync.WaitGroup
	complete := atomic.Bool{}
	complete.Store(true)
	const chunk = 16
	for k := 0; k < w; k++ {
		wg.Add(1)
		go func() {
			defer wg.Done()
			for {
				lo := int(next.Add(chunk)) - chunk
				if lo >= n {
					return
				}
				if r.Expired() {
					complete.Store(false)
					return
				}
				hi := lo + chunk
				if hi > n {
					hi = n
				}
				for i := lo; i < hi; i++ {
					f(i)
				}
			}
		}()
	}
	wg.Wait()
	return complete.Load()
}

type evidence struct {
	PropertyID  string                 `json:"property_id"`
	Tier        string                 `json:"tier"`
	Seed        int64                  `json:"seed"`
	Level       string                 `json:"level"`
	Coverage    map[string]interface{} `json:"coverage"`
	Assumptions []string               `json:"assumptions"`
	WallS       float64                `json:"wall_s"`
	Violations  int                    `json:"violations"`
}

// Finish writes evidence and replay files, prints the verdict lines and
// returns the process exit code.
func (r *Run) Finish() int {
	r.mu.Lock()
	defer r.mu.Unlock()
	exhaustive := !r.expired.Load() && len(r.capsHit) == 0
	if r.expired.Load() {
		r.capsHit = append(r.capsHit, "internal deadline reached; sub-bounds listed under bounds_completed were finished")
	}
	cov := map[string]interface{}{
		"evaluations":                   r.Evaluations.Load(),
		"states":                        r.States.Load(),
		"transitions":                   r.Transitions.Load(),
		"traces_validated_against_impl": r.Evaluations.Load(),
		"distinct_nontrivial":           len(r.nontrivial),
		"rule":                          r.Rule,
		"samples":                       r.samples,
		"exhaustive":                    exhaustive,
		"bounds_completed":              r.bounds,
		"caps_hit":                      r.capsHit,
		"distinct_outcomes":             len(r.outcomes),
		"known_findings_hit":            len(r.knownHits),
	}
	if len(r.outcomes) <= 64 {
		cov["outcomes"] = r.outcomes
	}
	for k, v := range r.Extra {
		cov[k] = v
	}
	if cov["samples"] == nil || len(r.samples) == 0 {
		cov["samples"] = []interface{}{"(no case generated)"}
	}
	ev := evidence{r.ID, r.Tier, r.Seed, r.Level, cov, r.Assumptions, time.Since(r.start).Seconds(), len(r.violations)}
	if ev.Assumptions == nil {
		ev.Assumptions = []string{}
	}
	os.MkdirAll(filepath.Join(Out, "evidence"), 0o755)
	b, _ := json.MarshalIndent(ev, "", " ")
	if err := os.WriteFile(filepath.Join(Out, "evidence", r.ID+".json"), b, 0o644); err != nil {
		fmt.Println("ENGINE-ERROR: cannot write evidence:", err)
		return 2
	}
	fmt.Printf("%s %s: states=%d transitions=%d evaluations=%d nontrivial=%d outcomes=%d exhaustive=%v wall=%.1fs\n",
		r.ID, r.Tier, r.States.Load(), r.Transitions.Load(), r.Evaluations.Load(), len(r.nontrivial), len(r.outcomes), exhaustive, ev.WallS)
	for _, b := range r.bounds {
		fmt.Println("  bound completed:", b)
	}
	for _, c := range r.capsHit {
		fmt.Println("  cap:", c)
	}
	keys := make([]string, 0, len(r.knownHits))
	for k := range r.knownHits {
		keys = append(keys, k)
	}
	sort.Strings(keys)
	for _, k := range keys {
		fmt.Printf("KNOWN-FINDING: property=%s key=%s %s\n", r.ID, k, r.knownHits[k])
	}
	// an engine error makes the run unusable as evidence of absence (exit 2); violations found by the
	// parts that did run are still real and are reported (exit 1)
	for _, e := range r.engineErrs {
		fmt.Println("ENGINE-ERROR:", e)
	}
	if len(r.violations) == 0 {
		if len(r.engineErrs) > 0 {
			return 2
		}
		return 0
	}
	os.MkdirAll(filepath.Join(Out, "replays"), 0o755)
	for i, v := range r.violations {
		p := filepath.Join(Out, "replays", fmt.Sprintf("%s-%d.json", r.ID, i))
		b, _ := json.MarshalIndent(v, "", " ")
		os.WriteFile(p, b, 0o644)
		fmt.Printf("VIOLATION property=%s replay=%s\n", r.ID, p)
		fmt.Printf("  key=%s sub=%s detail=%s\n", v.Key, v.Sub, v.Detail)
	}
	return 1
}

// --- registry ---------------------------------------------------------------

type Check struct {
	ID   string
	Main func(r *Run)
	// Replay re-runs one recorded case of sub-universe sub.
	Replay func(r *Run, sub string, raw json.RawMessage) error
}

var Registry = map[string]*Check{}

func Register(c *Check) { Registry[c.ID] = c }

// SafeCall runs f and converts a panic into a string (nil if none).
func SafeCall(f func()) (p interface{}) {
	defer func() { p = recover() }()
	f()
	return nil
}

// FinishReplay prints the verdict of a replayed case without touching the
// evidence files.
func (r *Run) FinishReplay() int {
	r.mu.Lock()
	defer r.mu.Unlock()
	for k, t := range r.knownHits {
		fmt.Printf("KNOWN-FINDING: property=%s key=%s %s\n", r.ID, k, t)
	}
	if len(r.violations) == 0 {
		fmt.Println("replay: no violation")
		return 0
	}
	for _, v := range r.violations {
		fmt.Printf("VIOLATION property=%s replay=(replayed) key=%s detail=%s\n", r.ID, v.Key, v.Detail)
	}
	return 1
}

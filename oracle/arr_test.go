package oracle

import (
	"testing"

	"verif/exact"
	"verif/universe"
)

func TestArrSelfCheck(t *testing.T) {
	polys := universe.SimplePolygons(3, 9)
	paths := universe.Paths(3, 3)
	n := 0
	for i := 0; i < len(polys); i += 7 {
		for j := 0; j < len(polys); j += 11 {
			a := &exact.G{Polys: []exact.Poly{{Rings: [][]exact.Pt{ring(polys[i])}}}}
			b := &exact.G{Polys: []exact.Poly{{Rings: [][]exact.Pt{ring(polys[j])}}}}
			c := &exact.G{Lines: [][]exact.Pt{ring(paths[(i*31+j)%len(paths)])}, Points: []exact.Pt{exact.P(1, 1), exact.Pt{X: exact.Frac(1, 2), Y: exact.Frac(1, 3)}}}
			arr := JointArr(a, b, c)
			if err := arr.SelfCheck(); err != nil {
				t.Fatalf("%v %v: %v", polys[i], polys[j], err)
			}
			// area of a = sum of faces whose probe is inside a
			sum := exact.Int(0)
			for _, f := range arr.F {
				if !f.Unbounded && exact.LocatePoly(f.Probe, a.Polys[0]) == exact.Interior {
					sum = sum.Add(f.Area)
				}
				if exact.LocatePoly(f.Probe, a.Polys[0]) == exact.Boundary {
					t.Fatalf("face probe on boundary")
				}
			}
			if !sum.Add(sum).Eq(exact.RingArea2(a.Polys[0].Rings[0]).Abs()) {
				t.Fatalf("area mismatch %v vs %v", sum, exact.RingArea2(a.Polys[0].Rings[0]))
			}
			n++
		}
	}
	t.Log("arrangements checked:", n)
}

func ring(ps []universe.LPt) []exact.Pt {
	out := make([]exact.Pt, len(ps))
	for i, p := range ps {
		out[i] = p.E()
	}
	return out
}

// Package oracle builds the reference answers (membership, DE-9IM, measures,
// validity) from the exact model. It only uses the library's plain accessors
// to read coordinates out of geometries.
package oracle

import (
	"github.com/peterstace/simplefeatures/geom"
	"verif/exact"
)

func seqPts(s geom.Sequence) []exact.Pt {
	out := make([]exact.Pt, s.Length())
	for i := range out {
		xy := s.GetXY(i)
		out[i] = exact.PF(xy.X, xy.Y)
	}
	return out
}

// FromGeom flattens g into the exact model. Empty members vanish.
func FromGeom(g geom.Geometry) *exact.G {
	out := &exact.G{}
	add(out, g)
	return out
}

func add(out *exact.G, g geom.Geometry) {
	switch g.Type() {
	case geom.TypePoint:
		if xy, ok := g.MustAsPoint().XY(); ok {
			out.Points = append(out.Points, exact.PF(xy.X, xy.Y))
		}
	case geom.TypeLineString:
		ls := g.MustAsLineString()
		if !ls.IsEmpty() {
			out.Lines = append(out.Lines, seqPts(ls.Coordinates()))
		}
	case geom.TypePolygon:
		p := g.MustAsPolygon()
		if !p.IsEmpty() {
			var y exact.Poly
			y.Rings = append(y.Rings, seqPts(p.ExteriorRing().Coordinates()))
			for i := 0; i < p.NumInteriorRings(); i++ {
				y.Rings = append(y.Rings, seqPts(p.InteriorRingN(i).Coordinates()))
			}
			out.Polys = append(out.Polys, y)
		}
	case geom.TypeMultiPoint:
		m := g.MustAsMultiPoint()
		for i := 0; i < m.NumPoints(); i++ {
			add(out, m.PointN(i).AsGeometry())
		}
	case geom.TypeMultiLineString:
		m := g.MustAsMultiLineString()
		for i := 0; i < m.NumLineStrings(); i++ {
			add(out, m.LineStringN(i).AsGeometry())
		}
	case geom.TypeMultiPolygon:
		m := g.MustAsMultiPolygon()
		for i := 0; i < m.NumPolygons(); i++ {
			add(out, m.PolygonN(i).AsGeometry())
		}
	case geom.TypeGeometryCollection:
		m := g.MustAsGeometryCollection()
		for i := 0; i < m.NumGeometries(); i++ {
			add(out, m.GeometryN(i))
		}
	}
}

// JointArr arranges every segment and point of the given geometries.
func JointArr(gs ...*exact.G) *exact.Arr {
	var segs []exact.Seg
	var pts []exact.Pt
	for _, g := range gs {
		segs = append(segs, g.Segs()...)
		pts = append(pts, g.Points...)
		for _, l := range g.Lines {
			// degenerate (all-equal) lines contribute their point
			if len(l) > 0 {
				pts = append(pts, l[0], l[len(l)-1])
			}
		}
	}
	return exact.Arrange(segs, pts)
}

package oracle

import (
	"fmt"
	"math"

	"github.com/peterstace/simplefeatures/geom"
	"verif/exact"
)

func finiteSeq(s geom.Sequence) bool {
	for i := 0; i < s.Length(); i++ {
		xy := s.GetXY(i)
		if math.IsNaN(xy.X) || math.IsInf(xy.X, 0) || math.IsNaN(xy.Y) || math.IsInf(xy.Y, 0) {
			return false
		}
	}
	return true
}

func dedupe(l []exact.Pt) []exact.Pt {
	var out []exact.Pt
	for i, p := range l {
		if i == 0 || !p.Eq(l[i-1]) {
			out = append(out, p)
		}
	}
	return out
}

// LineSimple: the curve does not pass through the same point twice, except
// that a closed curve's first and last point coincide. Consecutive repeated
// vertices do not affect the point set and are ignored.
func LineSimple(l []exact.Pt) bool {
	l = dedupe(l)
	m := len(l) - 1 // segments
	if m < 1 {
		return true
	}
	closed := l[0].Eq(l[m])
	for i := 0; i < m; i++ {
		for j := i + 1; j < m; j++ {
			k, p, _ := exact.SegInter(l[i], l[i+1], l[j], l[j+1])
			if k == 0 {
				continue
			}
			if k == 2 {
				return false
			}
			adj := j == i+1 && p.Eq(l[j])
			wrap := closed && i == 0 && j == m-1 && p.Eq(l[0])
			if m == 2 && closed {
				return false // a-b-a: the two segments coincide (k == 2 above), kept for clarity
			}
			if !(adj || wrap) {
				return false
			}
		}
	}
	return true
}

func distinct2(l []exact.Pt) bool {
	for _, p := range l {
		if !p.Eq(l[0]) {
			return true
		}
	}
	return false
}

// ringsMeet returns the number of distinct points two closed curves share (2
// stands for "two or more, or a whole piece"), and the point when it is 1.
func ringsMeet(a, b []exact.Pt) (int, exact.Pt) {
	var got []exact.Pt
	for i := 0; i+1 < len(a); i++ {
		if a[i].Eq(a[i+1]) {
			continue
		}
		for j := 0; j+1 < len(b); j++ {
			if b[j].Eq(b[j+1]) {
				continue
			}
			k, p, _ := exact.SegInter(a[i], a[i+1], b[j], b[j+1])
			if k == 2 {
				return 2, p
			}
			if k == 1 {
				dup := false
				for _, q := range got {
					if q.Eq(p) {
						dup = true
					}
				}
				if !dup {
					got = append(got, p)
					if len(got) > 1 {
						return 2, p
					}
				}
			}
		}
	}
	if len(got) == 1 {
		return 1, got[0]
	}
	return 0, exact.Pt{}
}

// probes of a ring: every vertex and every edge midpoint.
func ringProbes(r []exact.Pt) []exact.Pt {
	var out []exact.Pt
	for i := 0; i+1 < len(r); i++ {
		out = append(out, r[i], exact.Mid(r[i], r[i+1]))
	}
	return out
}

// PolyValid decides the OGC validity of a polygon given as rings (first ==
// last expected), straight from the definitions.
func PolyValid(rings [][]exact.Pt) (bool, string) {
	if len(rings) == 0 {
		return true, ""
	}
	for i, r := range rings {
		if len(r) == 0 {
			return false, "ring empty"
		}
		if !distinct2(r) {
			return false, "ring has fewer than two distinct points"
		}
		if !r[0].Eq(r[len(r)-1]) {
			return false, fmt.Sprintf("ring %d not closed", i)
		}
		if !LineSimple(r) {
			return false, fmt.Sprintf("ring %d not simple", i)
		}
	}
	for i := range rings {
		for j := i + 1; j < len(rings); j++ {
			if n, _ := ringsMeet(rings[i], rings[j]); n > 1 {
				return false, "two rings meet in more than one point"
			}
		}
	}
	for i := 1; i < len(rings); i++ {
		for _, p := range ringProbes(rings[i]) {
			if exact.InRing(p, rings[0]) == exact.Exterior {
				return false, "hole outside shell"
			}
		}
		// the shell must not lie inside the hole either (then the hole would
		// contain the shell rather than the reverse): covered by the above,
		// because a hole surrounding the shell has vertices outside it.
		for j := 1; j < len(rings); j++ {
			if i == j {
				continue
			}
			for _, p := range ringProbes(rings[i]) {
				if exact.InRing(p, rings[j]) == exact.Interior {
					return false, "hole inside another hole"
				}
			}
		}
	}
	// interior connected: the interior is a union of open faces of the rings'
	// arrangement; faces are separated by ring pieces (which are boundary), so
	// it is connected iff exactly one face is interior.
	g := &exact.G{Polys: []exact.Poly{{Rings: rings}}}
	arr := JointArr(g)
	n := 0
	for _, f := range arr.F {
		if !f.Unbounded && exact.LocatePoly(f.Probe, g.Polys[0]) == exact.Interior {
			n++
		}
	}
	if n != 1 {
		return false, fmt.Sprintf("interior has %d connected components", n)
	}
	return true, ""
}

// MultiPolyValid: members valid, interiors pairwise disjoint, boundaries share
// no piece of positive length.
func MultiPolyValid(polys [][][]exact.Pt) (bool, string) {
	for i, p := range polys {
		if ok, why := PolyValid(p); !ok {
			return false, fmt.Sprintf("polygon %d: %s", i, why)
		}
	}
	for i := range polys {
		if len(polys[i]) == 0 {
			continue
		}
		for j := i + 1; j < len(polys); j++ {
			if len(polys[j]) == 0 {
				continue
			}
			a, b := exact.Poly{Rings: polys[i]}, exact.Poly{Rings: polys[j]}
			arr := JointArr(&exact.G{Polys: []exact.Poly{a, b}})
			for _, f := range arr.F {
				if !f.Unbounded && exact.LocatePoly(f.Probe, a) == exact.Interior && exact.LocatePoly(f.Probe, b) == exact.Interior {
					return false, fmt.Sprintf("interiors of polygons %d and %d intersect", i, j)
				}
			}
			for _, e := range arr.E {
				if exact.LocatePoly(e.Mid, a) == exact.Boundary && exact.LocatePoly(e.Mid, b) == exact.Boundary {
					return false, fmt.Sprintf("boundaries of polygons %d and %d share a line", i, j)
				}
			}
		}
	}
	return true, ""
}

func polyRings(p geom.Polygon) ([][]exact.Pt, bool) {
	if p.IsEmpty() {
		return nil, true
	}
	var rings [][]exact.Pt
	for i := 0; i < p.NumRings(); i++ {
		var r geom.LineString
		if i == 0 {
			r = p.ExteriorRing()
		} else {
			r = p.InteriorRingN(i - 1)
		}
		if !finiteSeq(r.Coordinates()) {
			return nil, false
		}
		rings = append(rings, seqPts(r.Coordinates()))
	}
	return rings, true
}

// Valid is the definitional validity verdict for any geometry.
func Valid(g geom.Geometry) (bool, string) {
	switch g.Type() {
	case geom.TypePoint:
		xy, ok := g.MustAsPoint().XY()
		if ok && (math.IsNaN(xy.X) || math.IsInf(xy.X, 0) || math.IsNaN(xy.Y) || math.IsInf(xy.Y, 0)) {
			return false, "non-finite XY"
		}
		return true, ""
	case geom.TypeLineString:
		s := g.MustAsLineString().Coordinates()
		if s.Length() == 0 {
			return true, ""
		}
		if !finiteSeq(s) {
			return false, "non-finite XY"
		}
		if !distinct2(seqPts(s)) {
			return false, "fewer than two distinct points"
		}
		return true, ""
	case geom.TypePolygon:
		rings, fin := polyRings(g.MustAsPolygon())
		if !fin {
			return false, "non-finite XY"
		}
		return PolyValid(rings)
	case geom.TypeMultiPolygon:
		m := g.MustAsMultiPolygon()
		var polys [][][]exact.Pt
		for i := 0; i < m.NumPolygons(); i++ {
			rings, fin := polyRings(m.PolygonN(i))
			if !fin {
				return false, "non-finite XY"
			}
			polys = append(polys, rings)
		}
		return MultiPolyValid(polys)
	default:
		for i, m := range Members(g) {
			if ok, why := Valid(m); !ok {
				return false, fmt.Sprintf("member %d: %s", i, why)
			}
		}
		return true, ""
	}
}

// Members lists the direct members of a Multi* or GeometryCollection.
func Members(g geom.Geometry) []geom.Geometry {
	var out []geom.Geometry
	switch g.Type() {
	case geom.TypeMultiPoint:
		m := g.MustAsMultiPoint()
		for i := 0; i < m.NumPoints(); i++ {
			out = append(out, m.PointN(i).AsGeometry())
		}
	case geom.TypeMultiLineString:
		m := g.MustAsMultiLineString()
		for i := 0; i < m.NumLineStrings(); i++ {
			out = append(out, m.LineStringN(i).AsGeometry())
		}
	case geom.TypeMultiPolygon:
		m := g.MustAsMultiPolygon()
		for i := 0; i < m.NumPolygons(); i++ {
			out = append(out, m.PolygonN(i).AsGeometry())
		}
	case geom.TypeGeometryCollection:
		m := g.MustAsGeometryCollection()
		for i := 0; i < m.NumGeometries(); i++ {
			out = append(out, m.GeometryN(i))
		}
	}
	return out
}

package oracle

import (
	"math"

	"verif/exact"
)

// Pair is the exact joint arrangement of two geometries with the location of
// every cell in each.
type Pair struct {
	A, B *exact.G
	Arr  *exact.Arr
	// per vertex / edge / face
	VIn, EIn, FIn    [][2]bool // membership (union semantics) in A and B
	VLoc, ELoc, FLoc [][2]int  // OGC location in A and B
}

func NewPair(a, b *exact.G) *Pair {
	p := &Pair{A: a, B: b, Arr: JointArr(a, b)}
	loc := func(pt exact.Pt) ([2]bool, [2]int) {
		la, lb := a.Locate(pt), b.Locate(pt)
		return [2]bool{a.In(pt), b.In(pt)}, [2]int{la, lb}
	}
	for _, v := range p.Arr.V {
		in, l := loc(v)
		p.VIn, p.VLoc = append(p.VIn, in), append(p.VLoc, l)
	}
	for _, e := range p.Arr.E {
		in, l := loc(e.Mid)
		p.EIn, p.ELoc = append(p.EIn, in), append(p.ELoc, l)
	}
	for _, f := range p.Arr.F {
		in, l := loc(f.Probe)
		p.FIn, p.FLoc = append(p.FIn, in), append(p.FLoc, l)
	}
	return p
}

// DE9IM returns the matrix II IB IE BI BB BE EI EB EE from the definitions:
// entry = max dimension of a cell lying in the respective parts.
func (p *Pair) DE9IM() string {
	var m [3][3]int
	for i := range m {
		for j := range m[i] {
			m[i][j] = -1
		}
	}
	put := func(l [2]int, d int) {
		if m[l[0]][l[1]] < d {
			m[l[0]][l[1]] = d
		}
	}
	for _, l := range p.VLoc {
		put(l, 0)
	}
	for _, l := range p.ELoc {
		put(l, 1)
	}
	for _, l := range p.FLoc {
		put(l, 2)
	}
	order := [3]int{exact.Interior, exact.Boundary, exact.Exterior}
	out := make([]byte, 0, 9)
	for _, i := range order {
		for _, j := range order {
			if m[i][j] < 0 {
				out = append(out, 'F')
			} else {
				out = append(out, byte('0'+m[i][j]))
			}
		}
	}
	return string(out)
}

// SetOp describes the exact result of a Boolean operation: which cells are in
// the closure of the selected set, and the measures of its areal part, its
// lineal remainder and its isolated points.
type SetOp struct {
	VSel, ESel, FSel []bool // cell is in the closure of the result
	Area             exact.R
	Length           float64 // of the lineal remainder (sum of square roots, 200-bit)
	Points           int     // isolated points
	LinealEdges      int
}

func (p *Pair) SetOp(op func(a, b bool) bool) *SetOp {
	arr := p.Arr
	s := &SetOp{}
	fs := make([]bool, len(arr.F))
	for i, in := range p.FIn {
		fs[i] = op(in[0], in[1])
		if fs[i] && !arr.F[i].Unbounded {
			s.Area = s.Area.Add(arr.F[i].Area)
		}
	}
	s.FSel = fs
	s.ESel = make([]bool, len(arr.E))
	length := exact.SqrtBig(exact.Int(0))
	for i, e := range arr.E {
		own := op(p.EIn[i][0], p.EIn[i][1])
		s.ESel[i] = own || fs[e.L] || fs[e.R]
		if own && !fs[e.L] && !fs[e.R] {
			length.Add(length, exact.SqrtBig(arr.EdgeLen2(i)))
			s.LinealEdges++
		}
	}
	s.Length, _ = length.Float64()
	s.VSel = make([]bool, len(arr.V))
	for v := range arr.V {
		own := op(p.VIn[v][0], p.VIn[v][1])
		covered := false
		for _, e := range arr.VEdges[v] {
			if s.ESel[e] {
				covered = true
			}
		}
		if f := arr.VFace[v]; f >= 0 && fs[f] {
			covered = true
		}
		s.VSel[v] = own || covered
		if own && !covered {
			s.Points++
		}
	}
	return s
}

// ---- float view of a (library-produced) geometry ---------------------------------

// FG is a float64 view of an exact.G used for tolerance comparisons; exact
// arithmetic is the fallback whenever a float decision is not clear-cut.
type FG struct {
	X     *exact.G
	pts   [][2]float64
	lines [][][2]float64
	polys [][][][2]float64
}

func fl(ps []exact.Pt) [][2]float64 {
	out := make([][2]float64, len(ps))
	for i, p := range ps {
		out[i][0], out[i][1] = p.Floats()
	}
	return out
}

func NewFG(g *exact.G) *FG {
	f := &FG{X: g}
	for _, p := range g.Points {
		x, y := p.Floats()
		f.pts = append(f.pts, [2]float64{x, y})
	}
	for _, l := range g.Lines {
		f.lines = append(f.lines, fl(l))
	}
	for _, y := range g.Polys {
		var rs [][][2]float64
		for _, r := range y.Rings {
			rs = append(rs, fl(r))
		}
		f.polys = append(f.polys, rs)
	}
	return f
}

func DistPtSegF(px, py float64, a, b [2]float64) float64 {
	dx, dy := b[0]-a[0], b[1]-a[1]
	l2 := dx*dx + dy*dy
	if l2 == 0 {
		return math.Hypot(px-a[0], py-a[1])
	}
	t := ((px-a[0])*dx + (py-a[1])*dy) / l2
	if t < 0 {
		t = 0
	} else if t > 1 {
		t = 1
	}
	return math.Hypot(px-(a[0]+t*dx), py-(a[1]+t*dy))
}

func distChain(px, py float64, l [][2]float64) float64 {
	d := math.Inf(1)
	if len(l) == 1 {
		return math.Hypot(px-l[0][0], py-l[0][1])
	}
	for i := 0; i+1 < len(l); i++ {
		d = math.Min(d, DistPtSegF(px, py, l[i], l[i+1]))
	}
	return d
}

// BoundaryDist is the float distance from p to the nearest point, line or
// polygon ring of the geometry.
func (f *FG) BoundaryDist(px, py float64) float64 {
	d := math.Inf(1)
	for _, q := range f.pts {
		d = math.Min(d, math.Hypot(px-q[0], py-q[1]))
	}
	for _, l := range f.lines {
		d = math.Min(d, distChain(px, py, l))
	}
	for _, y := range f.polys {
		for _, r := range y {
			d = math.Min(d, distChain(px, py, r))
		}
	}
	return d
}

// InArea reports whether p (given both exactly and as floats) lies inside some
// polygon of the geometry; ok=false when p is within tol of a ring, where the
// question cannot be decided against a rounded result.
func (f *FG) InArea(p exact.Pt, tol float64) (in, ok bool) {
	px, py := p.Floats()
	for _, y := range f.polys {
		for _, r := range y {
			if distChain(px, py, r) <= tol {
				return false, false
			}
		}
	}
	for _, y := range f.X.Polys {
		if exact.LocatePoly(p, y) == exact.Interior {
			return true, true
		}
	}
	return false, true
}

// Dist is the float distance from p to the point set (0 inside a polygon).
func (f *FG) Dist(p exact.Pt) float64 {
	px, py := p.Floats()
	d := f.BoundaryDist(px, py)
	if d == 0 {
		return 0
	}
	for i, y := range f.polys {
		if len(y) == 0 {
			continue
		}
		// float crossing parity is only trusted away from the rings; near them d is small anyway
		if exact.LocatePoly(p, f.X.Polys[i]) != exact.Exterior {
			return 0
		}
	}
	return d
}
